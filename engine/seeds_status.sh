#!/bin/bash
# seeds_status.sh — for every stored seeded change: does the patch still apply to /repo's tree, and does the property's
# quick check report it?  (applies to /repo's working tree and undoes it straight afterwards)
cd /verif
for d in seeded/*/; do
  id=$(basename $d); P=${id%%-*}
  if ! git -C /repo apply --check /verif/$d/patch.diff 2>/dev/null; then echo "$id: PATCH NO LONGER APPLIES"; continue; fi
  out=$(engine/seed_verdict.sh $P /verif/$d/patch.diff 2>&1)
  echo "$id: $(echo "$out" | head -1) $(echo "$out" | sed -n 2p | cut -c1-110)"
done
