#!/usr/bin/env python3
"""store_seed.py <seed-id> <patch> <demo> <confirm-log> <json-meta-file>: file a confirmed seeded change under /verif/seeded/."""
import json, os, shutil, subprocess, sys
sid, patch, demo, log, metaf = sys.argv[1:6]
d = '/verif/seeded/' + sid
os.makedirs(d, exist_ok=True)
shutil.copy(patch, d + '/patch.diff')
shutil.copy(demo, d + '/demo_' + ('seeded_demo.sh' if demo.endswith('.sh') else 'seeded_demo.rs'))
meta = json.load(open(metaf))
meta.setdefault('origin', 'independent sub-agent given only the property text and a scratch worktree')
meta.setdefault('repo_commit_seeded_against', subprocess.check_output(['git', '-C', '/repo', 'rev-parse', '--short', 'HEAD'], text=True).strip())
meta.setdefault('confirmed_by', 'engine/confirm_seed.sh in a fresh scratch worktree: full suite passes with the change (no failing test), demo fails with it, demo passes without it')
meta.setdefault('how_to_run_demo', 'copy demo_seeded_demo.rs to conformance-tests/tests/seeded_demo.rs; cargo test -p conformance-tests --test seeded_demo --offline')
if os.path.exists(log):
    meta['confirmation_log_tail'] = [l.rstrip() for l in open(log) if l.startswith(('suite_rc', 'test result', '=='))][-8:]
json.dump(meta, open(d + '/meta.json', 'w'), indent=1)
print('stored', d)
