"""Single source of truth for MANIFEST.json (run engine/gen_manifest.py after editing)."""

TRUST = ('Trusted: rustc nightly type checker / MIR construction and callee resolution; the extractor\'s '
         'serialisation; the hand-confirmed instance tables (each line carries its reason). Decides only the '
         'structural clauses named in the text, not the behaviour as a whole.')

CHECKS = {
    'C18': {
        'text': 'Type-level ownership rule over ADT definitions: among the impl RTObject types the only fields that can '
                'hold a strong Rc to a runtime object are Container::content / named_content; any other such field '
                '(today: none after the fix) can close an Rc cycle that leaks the whole story. Holds for every story '
                'shape at once, which no finite set of create-play-drop runs can show.',
        'design_ref': 'DESIGN.md §4 C18',
        'note': TRUST + ' Not decided: heap growth of repeated reset/load (a quantity).',
        'technique': 'static analysis: strong-ownership type graph over rustc ADT definitions + who-may-construct call-graph rule',
    },
    'C13': {
        'text': 'Path rules over the MIR of continue_internal / add_error: every state list whose elements are handed to '
                'ErrorHandler::error is emptied on every path from the delivery to return (no re-delivery); without a '
                'handler nothing empties current_warnings (stays readable); the Err exit of the delivery block is reached '
                'only with has_error() = true and never after a reset; add_error(is_warning=false) always passes '
                'force_end and can_continue depends on has_error; add_error is the single producer of both lists. '
                'These hold for every program and history at once; the suite never installs a handler and continues.'
                ' Plus: no call of the error handler is reachable with a look-ahead snapshot pending (a time-limited continue that pauses inside the look-ahead reports nothing yet).',
        'design_ref': 'DESIGN.md §4 C13',
        'note': TRUST + ' Not decided: exact multiplicity of delivery across nested continues at run time.',
        'technique': 'static analysis: MIR must-pass-through + guard-atom dataflow + field provenance',
    },
    'C03': {
        'text': 'Every iteration over a HashMap/HashSet in the three crates (42 sites, enumerated from resolved MIR calls) is '
                'classified from its per-element work: order-free by construction (map/set writes, integer accumulation, '
                'Ord min/max/sort) or listed in a frozen table with the exact sink signature confirmed by reading; '
                'comparators named there are re-validated to compare the whole key. Plus a who-may-call rule for ambient '
                'entropy (thread RNG, clock, env, pid, RandomState, pointer exposure): only the story-seed draw, which '
                'flows into story_seed only, and the stopwatch guarded by async_continue_active; every RNG seed derives '
                'from story_seed. For the "fresh hash seeds per process" half of C03 this is essentially the whole '
                'property: a program text with no unordered or ambient input is a function of (program, seed, calls).',
        'design_ref': 'DESIGN.md §4 C03',
        'note': TRUST + ' Not decided: float formatting agreement between build profiles; byte identity of compiler '
                'output beyond "no unordered iteration reaches it"; key collisions of inserts inside order-free loops.',
        'technique': 'static analysis: iterator taint + loop/closure effect classification over MIR, entropy who-may-call, seed provenance',
    },
    'C04': {
        'text': 'Three structural clauses. (A) every i32 overflow/div/rem Assert, operator-trait call on i32 references and '
                'trap-capable i32 method in bladeink (38 sites after the fix) is decided by operand provenance: story-valued '
                'operands are violations (must be wrapping_*/checked_*), structural index arithmetic is discharged, the '
                'rest is in a frozen table with reasons - so integer arithmetic on story values cannot panic in debug '
                'while wrapping in release, nor panic on zero divisors, for any program. (B) in continue_internal a '
                'step\'s StoryError always reaches add_error and is never propagated out of the interpreter loop; '
                'add_error(false) force-ends. (C) reset_state replaces the whole state and re-runs reset_globals.'
                ' (D) no unwrap of a list item\'s optional origin name. (E) taint rule: no unwrap/expect of a downcast (or of peek itself) of a value taken from the evaluation stack, or of an operand inside NativeFunctionCall, unless that downcast was tested; the 4 exceptions rest on separately checked conditions: the Void test dominates every dispatch in NativeFunctionCall::call, the list-increment helper has one caller under both is_some tests, the Tag pop is dominated by is::<Tag>().'
                ' (F) every path that starts a new continue clears did_safe_exit before the end-of-content diagnosis reads it (force_end sets it also outside a continue).',
        'design_ref': 'DESIGN.md §4 C04',
        'note': TRUST + ' Not decided: reachability of the interpreter\'s ~250 unwrap/index sites from compiler-accepted '
                'programs (a per-site belief table would not be a decision).',
        'technique': 'static analysis: MIR Assert enumeration + operand provenance classification, CFG must-pass-through',
    },
    'C15': {
        'text': 'Panic discipline of the decoders: in every function that handles serde_json values, the streaming tokenizer '
                'or its tokens on the paths from Story::new / Story::load_state (about 55 functions, enumerated from the '
                'call graph) each unwrap/expect, panic!/todo!, index/slice, len()-1 and Vec::remove is an obligation that '
                'must be guard-dominated (is_some/is_ok/if-let on the same value, len() test for constant indices, depth '
                'test for the depth increment); every recursion cycle among decoders must carry a depth bound or recurse '
                'over a serde_json::Value parsed by serde_json::from_str. Holds for every document at once.'
                ' Added: the same obligations over the interpreter primitives a document drives directly while Story::new interprets the global declarations (evaluation-stack pop / pop-multiple / peek / push, temporary-variable lookup by call-stack level); the evidence counts the reachable panic-capable constructs that are not decided.',
        'design_ref': 'DESIGN.md §4 C15',
        'note': TRUST + ' Not decided: termination ("within bounded time"); panics reached after a successful load of a '
                'structurally valid but semantically impossible save; callees outside the decoder set that receive '
                'document-derived paths (pointer_at_path, content_at_path).',
        'technique': 'static analysis: call-graph reachability + panic-site enumeration over MIR with dominator-based guard recognition, SCC recursion-bound rule',
    },
    'C14': {
        'text': 'Sibling agreement of the two decoders, recovered from the code on every run: the string literals each '
                'module compares keys/tokens against (27 keys) are the same set, both call the same runtime constructors '
                '(Value::new per payload type, Glue, ControlCommand, NativeFunctionCall, Void, Divert, ChoicePoint, ...), '
                'both apply the same version bounds, and the hand-written tokenizer distinguishes every JSON string '
                'escape of RFC 8259 §7. A key, object kind or escape known to one loader only makes some document load '
                'differently under the other feature configuration.'
                ' Plus: no decoder function reads a thread-local / static cell (every decoded object is a fresh allocation); a first-key comparison of the streaming decoder with a literal that is a possible ink identifier is taken together with a test of the value\'s kind.',
        'design_ref': 'DESIGN.md §4 C14',
        'note': TRUST + ' Not decided: equality of the constructed trees for every document, number forms, whitespace layouts.',
        'technique': 'static analysis: string/char-constant table recovery from MIR and cross-checking of sibling implementations',
    },
    'C02': {
        'text': 'Three structural clauses of save/load fidelity, recovered from the code on every run: (1) for every record kind '
                '(state, flow, call stack, thread, choice, runtime object) the literal JSON keys the saver inserts equal the '
                'keys the loader looks up, one-sided keys only with a table reason (legacy format / informational); '
                '(2) every field of the eight persistent structs (63 fields) is read by its writer and assigned by its '
                'reader or is classified (derived cache / transient by design / persisted elsewhere) - a new field is '
                'reported until classified; (3) write_rtobject has a branch for each impl RTObject type and ValueType '
                'variant and the reader constructs each kind. One missing key or field loses that state for every save.'
                ' Plus: a save key is read back into the field it was written from (16 keys paired through assignments and constructor parameters); loading never leaves the flow it makes current parked in named_flows as well (it would be saved twice under one key).',
        'design_ref': 'DESIGN.md §4 C02',
        'note': TRUST + ' Not decided: that equal save text implies equal futures; float fidelity; history-dependent aspects.',
        'technique': 'static analysis: key-table recovery (Map::insert keys vs Map::get keys), field-coverage over MIR places, downcast/variant exhaustiveness',
    },
    'C12': {
        'text': 'Binding-mode discipline as a typestate over three guard atoms (A = binding.lookahead_safe, B = '
                'in_string_evaluation(), C = snapshot pending), decided by a path-sensitive dataflow over the MIR of the '
                'function that contains the dyn call ExternalFunction::call: REFUSE only with A=F,B=T; DEFER only with '
                'A=F,C=T; CALL only with A=T or A=F,B=F,C=F; arguments.reverse() on every path from the pop loop to the '
                'call, loop bounded by number_of_arguments, result pushed on every path; no call/unwrap without a '
                'binding; continue_async validates bindings before running. The suite binds everything as safe, so the '
                'unsafe mode and the refusal path are never executed by any test.'
                ' Plus: the recursive walk that validates bindings (found by its role) recurses over the whole of named_content and over content.',
        'design_ref': 'DESIGN.md §4 C12',
        'note': TRUST + ' Not decided: number of host calls per executed call across rewinds; argument values.',
        'technique': 'static analysis: guard-atom abstract interpretation (typestate) + CFG must-pass-through over MIR',
    },
    'C08': {
        'text': 'Structure of the time-limited continue, none of which any test executes: (a) the 12 guarded methods call '
                'if_async_we_cant before every semantic write and every return and propagate its error; (b) in '
                'continue_internal the start-of-line actions run only when async_continue_active was false at entry '
                '(guard-atom dataflow on the entry value) and the end-of-line actions lie inside the block entered only '
                'through `output_stream_ends_in_newline || !can_continue()` (dominators), so a pause between two steps '
                're-enters the loop with nothing reset and nothing completed; (c) recursive_continue_count is paired.',
        'design_ref': 'DESIGN.md §4 C08',
        'note': TRUST + ' Not decided: that the step sequence is identical under every pause schedule (dynamic).',
        'technique': 'static analysis: dominators + guard-atom dataflow + effect summaries over MIR',
    },
    'C09': {
        'text': 'Write-before-fail analysis of the host-call surface: for the 22 pub Result-returning methods of Story and '
                'the helpers their errors come from (about 45 functions via `?` chains, up to the interpreter loop), no '
                'error exit is reachable after a semantic write to story state, except exits classified as story faults / '
                'story-generated paths / pre-validated (the validator must still dominate every write - re-validated); '
                'every unwrap/index on the surface is guard-dominated or a re-validated table line; '
                'recursive_continue_count is paired on every exit. Holds for every history at once; the suite never makes '
                'an invalid call and keeps playing.',
        'design_ref': 'DESIGN.md §4 C09',
        'note': TRUST + ' Not decided: identical later behaviour beyond the modelled semantic fields (cache fields excluded by table).',
        'technique': 'static analysis: interprocedural effect summaries (semantic writes) x error-exit reachability over MIR CFGs',
    },
    'C16': {
        'text': 'evaluate_function, as path rules over its MIR: the pending output stream is cloned before it is cleared '
                'and restored, and the host frame popped through complete_function_evaluation_from_game, on every '
                'non-fault path from the frame push to a return; every error exit that can follow a write is a story fault '
                'or pre-validated (empty/unknown names and bad argument types are refused before anything changes - C09 '
                'machinery); the return channel pops down to the recorded evaluation-stack height and pops a '
                'FunctionEvaluationFromGame frame after checking the frame type.',
        'design_ref': 'DESIGN.md §4 C16',
        'note': TRUST + ' Not decided: transparency for every later continuation (dynamic lock-step comparison).',
        'technique': 'static analysis: CFG must-pass-through pairing + write-before-fail effect analysis over MIR',
    },
    'C17': {
        'text': 'Classification clause of reset == fresh construction: reset_state replaces Story::state as a whole from '
                'StoryState::new(program, list definitions) and then runs reset_globals, the same two steps as Story::new; '
                'each of the 15 fields of Story is in exactly one class and the class is enforced - must-persist and '
                'constant fields are written only by their allowed writers (effect events, never reset_state/load_state), '
                'neutral fields by their rule (no look-ahead snapshot pending on any exit that completes a line, abort flag '
                'cleared before every interpreter loop, async guard, nesting count paired); a new field is reported until '
                'classified; a path jump with call-stack reset passes force_end, which writes neither variables nor counts.',
        'design_ref': 'DESIGN.md §4 C17',
        'note': TRUST + ' Not decided: "same seed" (no setter exists) and lock-step equality of continuations.',
        'technique': 'static analysis: field classification + who-may-write via effect summaries + guard-atom dataflow over MIR',
    },
    'C10': {
        'text': 'Three structural clauses of flow independence: (a) every function that replaces StoryState::current_flow or '
                'its call stack (switch_flow_internal, copy_and_start_patching, load_json_obj x2, the constructor) re-points '
                'variables_state.callstack at the new flow\'s call stack on every successful path (must-pass-through); '
                '(b) no insert into the parked-flow map has a key or value derived from the current flow, and the entry the '
                'current flow is loaded from is removed on every path - a second copy is written over the live flow in '
                'every save; (c) switching exchanges whole Flow values with one mem::swap and always parks the previous flow.',
        'design_ref': 'DESIGN.md §4 C10',
        'note': TRUST + ' Not decided: independence of transcripts over all interleavings (dynamic).',
        'technique': 'static analysis: field-write enumeration + CFG must-pass-through + operand provenance over MIR',
    },
    'C11': {
        'text': 'Four structural clauses of the observer contract: the change set is a map keyed by name and is notified from '
                'exactly one site in one loop (at most once per variable), observers are called from one dyn site per '
                'registered observer; notifications are dominated by complete_variable_observation and the decrement of '
                'the nesting count and no look-ahead rewind can follow them; in set_global the batch set is written only '
                'with no patch active (guard-atom dataflow), the patch records look-ahead changes and apply_patch merges '
                'them; set_variable notifies iff VariablesState::set reports a change; registrations are written only by '
                'observe/remove/new and removal has no unguarded panic site.'
                ' Plus: start_variable_observation runs only when async_continue_active was false at entry (the batch is opened once per continue, not once per slice).',
        'design_ref': 'DESIGN.md §4 C11',
        'note': TRUST + ' Not decided: that delivered values equal what polling would show in every history.',
        'technique': 'static analysis: dominators, guard-atom dataflow, call-site counting, who-may-write via effect events',
    },
    'C07': {
        'text': 'Dispatch-table clauses only, recovered from the match statements in MIR on every run: Op<->name (31 rows) and '
                'CommandType<->name (26) are bijections with new_from_name(get_name(v)) = v; for each Op '
                'get_number_of_parameters = 1 + the largest constant index into params in the function call_type dispatches '
                'to; for each ValueType variant the ordinal for which Value::cast answers "already this type" equals the '
                'variant\'s discriminant (get_cast_ordinal reads the raw repr(u8) discriminant, so reordering the enum '
                'silently changes every mixed-type operation); the 16 operator tokens the compiler emits are runtime names.'
                ' Plus: push_evaluation_stack rebuilds a list value\'s origins (every push onto InkList::origins is dominated by a clear), so origins are a function of the value, not of its history.',
        'design_ref': 'DESIGN.md §4 C07',
        'note': TRUST + ' Not decided: the values themselves (coercion results, list algebra, precedence) - needs an '
                'independent evaluator and execution.',
        'technique': 'static analysis: finite-map recovery from MIR switch / string-match chains and cross-checking of tables',
    },
    'C19': {
        'text': 'Three structural clauses: (a) Hash agrees with Eq for Path and Component - the fields hash depends on are a '
                'subset of those eq compares, and the cached text form Path::components_string has exactly one producer '
                '(the get_or_init closure computing it from components and is_relative; no OnceCell::set, no pre-filled '
                'cache); (b) renderer and parser use the same separator, relative marker and parent token, the marker is '
                'emitted iff is_relative and sets it when parsed, index components are printed/parsed symmetrically '
                '(guard-atom dataflow); (c) Object::get_path names a component exactly under has_valid_name(), '
                'Container::new registers exactly those children, and names are resolved through named_content.'
                ' Plus: nothing but the producer and Clone reads the lazily filled text cache through a value it was given (a derived PartialEq would).',
        'design_ref': 'DESIGN.md §4 C19',
        'note': TRUST + ' Not decided: that every object of every story resolves back to itself (depends on story data).',
        'technique': 'static analysis: field-read sets, single-producer rule for a cache, guard-atom dataflow, constant agreement',
    },
    'C20': {
        'text': 'JSON-mode output of rinklecate: at each of the 12 format_args sites whose literal pieces contain a double '
                'quote every interpolated argument is an integer, the direct result of escape_json_string / '
                'serde_json::to_string, or a join/format of fragments satisfying the same rule (backward slicing through '
                'closures and Vec pushes); escape_json_string covers quote, backslash and the whole range U+0000-U+001F; '
                'a compile error reaches a non-zero process::exit, is printed through CompilerError\'s Display, and the '
                'bytes written with -o derive only from the compiler\'s Ok payload.'
                ' Plus: the path / index handed to choose_path_string / choose_choice_index derives from the input line through parse_input by selection only (trim, split, index, parse), never through a rewriting function (case mapping, replace); displayed and accepted choice numbers use the same offset.',
        'design_ref': 'DESIGN.md §4 C20',
        'note': TRUST + ' Not decided: that the sequence of lines equals the library\'s for every program and input script.',
        'technique': 'static analysis: format_args site enumeration + backward slicing of interpolated arguments over MIR, char-table coverage',
    },
    'C01': {
        'text': 'ONE clause of C01 only - the structural precondition of look-ahead: copy_and_start_patching copies every one '
                'of the 21 fields of StoryState (and every field of the current Flow, on every path) into the look-ahead '
                'state or the field is a classified derived cache, and a conditional copy is skipped only after a test on '
                'that very field; every place that empties the newline snapshot is the sanctioned rewind/commit function or '
                'is followed by discard_snapshot on every path; rewind replaces the state as a whole; commit and rewind '
                'both apply the patch unless a background save is active. If a piece of state were missing from the copy, '
                'effects written after a line end would be lost whenever the look-ahead is committed.'
                ' (D) the function-start trimming marker is cleared on the whole run of function frames (store inside a loop over the frames), and set where a frame is pushed.'
                ' (E) a visit count stored into the look-ahead patch as previous + 1 reads "previous" through the patch.',
        'design_ref': 'DESIGN.md §4 C01',
        'note': TRUST + ' NOT decided (the bulk of C01): that text, tags, choices and counts equal what the Ink language '
                'prescribes for every program and choice path - that needs an independent interpreter and execution.',
        'technique': 'static analysis: field coverage + guard-atom dataflow + CFG must-pass-through over MIR',
    },
    'C06': {
        'text': 'Three structural clauses about the compiler, all recovered from the current tree: (a) vocabulary agreement - '
                'every bare token (47) and object key (27) the emitter can put into a story is one the runtime decoder '
                'accepts (control-command / native-function names recovered from the runtime\'s own tables); (b) the '
                'emitter\'s built-in function table and validator::is_builtin_function list the same 21 names and every '
                'token is a runtime name; (c) the CONST resolution pass has an arm for every Node / Expression variant and '
                'touches every Choice field that carries expressions (type-level walker coverage), and the validator\'s '
                'lookup checkers return Err when every declared-name lookup fails. Two genuine gaps of (c) are recorded as '
                'known findings (unknown functions and unknown variables are accepted).'
                ' Added clauses: every call of a function taking Option<&EmitContext> passes a context derived from the caller\'s own; keys of emitted list literals come from resolve_list_item (1 known finding); resolve_divert_target consults every flow-name table EmitScope::child_flow builds (derived from initialiser provenance) and returns a bare name only after a successful lookup (1 known finding).'
                ' Further clauses: a line number attached to an error is one index of the parsed slice plus 1; no string is sliced at a position that counts characters; a slice between a left and a right search is preceded by a comparison of the two positions; tokens inserted in front of an emitted body are declared through the scope\'s param_offset, and index paths into a parameterised flow account for the prepended parameter tokens (two narrow sibling rules; that emitted index paths denote existing content in general is not decided).',
        'design_ref': 'DESIGN.md §4 C06',
        'note': TRUST + ' Not decided: termination and panic-freedom of the parser (run-time computed byte offsets), line '
                'numbers of errors, that resolved paths in emitted JSON denote existing content, names inside choice text '
                '(kept as raw strings in the AST).',
        'technique': 'static analysis: vocabulary/table recovery from MIR, type-level walker coverage, guard-atom reject-unknown rule',
    },
}

# clauses added after the bug-hunt round (DESIGN.md §6a, §10)
_MORE = {
    'C02': ' Added after the bug-hunt round: a float handed to the JSON writer has been clamped and NaN-tested; the loaded '
           'evaluation stack is filled through push_evaluation_stack; the equal-to-default elision compares list origins; '
           'write_ink_list does not read the resolved-origins cache.',
    'C04': ' Added after the bug-hunt round: a source rule over the whole runtime - no unwrap of a value that derives from one '
           'of 13 accessors whose None the story decides (non-container path, empty path, unnamed container, extreme of an '
           'empty list, divert without target, ...) unless tested, guarded by the repository\'s predicate for that source on '
           'the same receiver, or tabled; Divert::get_target_pointer does not follow an approximate resolution and a null '
           'divert target reaches an Err before any call-stack push.',
    'C06': ' Added after the bug-hunt round: the validator pass that checks calls and divert-target values has an arm for '
           'every Node variant carrying expressions or node lists, for Expression::DivertTarget, for the initial values of '
           'globals and for the three text fields of a choice line the emitter tokenises later; every call-graph cycle among '
           'the text-consuming functions passes a nesting guard, marker levels and weave length are limited, and the depth '
           'of the story is measured before it is serialised (a story deeper than the runtime loads is never returned).',
    'C07': ' Added after the bug-hunt round: the raw field InkList::initial_origin_names is read only by its getter, setter, '
           'plain constructors and Clone (copies and sub-ranges go through get_origin_names), and the assignment helper '
           'keeps the new value\'s origin when the old value has none.',
    'C08': ' Added after the bug-hunt round: every public method with a write effect on the story carries the refusal guard '
           'or is one of four tabled exceptions (cont, continue_async, two setters).',
    'C09': ' Added after the bug-hunt round: error exits include tail calls; the binding-validation flag, written before a '
           'continue can be refused, is cleared by every function that removes a binding or assigns the fallback setting; '
           'the index of a generated choice is assigned before it is pushed (the public accessor only rewrites the same value).',
    'C15': ' Added after the bug-hunt round: the document-decided-optionals source rule (see C04) over the whole runtime.',
    'C16': ' Added after the bug-hunt round: apart from the run itself evaluate_function changes the story only through the '
           'paired steps; the previous pointer is restored from the value read before the frame was pushed; external bindings '
           'are validated and a pending error is refused before the first change.',
}
# clauses added from seed batches 8 and 9 (DESIGN.md §10, §11)
_MORE2 = {
    'C01': ' Added from seed batch 9: in the ancestor walk after a divert, "entered at its start" is conjoined with a flag '
           'that is cleared at the first container not entered at its start.',
    'C03': ' Added from seed batch 9: the side of the elapsed-time test taken only when time has run out performs no write '
           'on the story and sets no flag read afterwards (the clock decides only where a time-limited continue pauses).',
    'C06': ' Added from seed batch 8: every object key under which the emitter stores a resolved label path is one of the '
           'keys fix_divert_paths rewrites when a continuation is hoisted.',
    'C07': ' Added from seed batch 8: for eight list operators, whether the result hands on the receiver\'s origin equals a '
           'tabled answer (union, difference, sub-range: yes; intersection, inverse, all, min, max: no).',
    'C10': ' Added from seed batch 8 and later: every replacement of the current flow / write of its output stream marks the '
           'text and tag caches dirty on every successful path; the look-ahead copy is filled with the parked flows.',
    'C11': ' Added from seed batch 9: complete_variable_observation is control dependent only on the refusal at entry, the '
           'completion test and the outermost-continue test that also guards the start.',
    'C13': ' Added from seed batch 9: the message lists are never assigned wholesale from another state, except into the '
           'look-ahead copy.',
    'C14': ' Added from seed batch 9: each elementary cycle of the streaming decoder\'s recursion adds exactly 1 to the depth, '
           'and the limit accepts exactly the 128 levels serde_json accepts.',
    'C16': ' Added from seed batch 8: the recorded evaluation-stack height is read, and the stack cut back, before the host '
           'frame is popped.',
    'C18': ' Added from seed batch 9: no function of the runtime touches a thread-local, static or lazily initialised global '
           'cell (memory outside every Story).',
    'C19': ' Added from seed batch 8: the whole-path sentinel test of Container::content_at_path is false for a length of 0, '
           'which Story::pointer_at_path passes for a position directly in the root.',
    'C20': ' Added from seed batch 9: the output file is written with fs::write or through a file created anew / truncated.',
}
# clauses added from seed batch 10
_MORE3 = {
    'C02': ' Added from seed batch 10: the equal-to-default test is exact (no ordering comparison, subtraction, abs, rounding).',
    'C03': ' Added from seed batch 10: a closure that changes the element it is shown, under the short-circuiting consumers '
           'any / all over a hash collection, is an order-dependent partial traversal.',
    'C04': ' Added from seed batch 10: every panicking zero check of a division / remainder (any integer type) is dominated '
           'by a test that keeps 0 away from the divisor.',
    'C07': ' Added from seed batch 10: in list_with_sub_range a list-valued lower bound contributes its minimum, an upper '
           'bound its maximum.',
    'C08': ' Added from seed batch 10 (shared with C11): whether the end-of-line work on variable observation runs is control '
           'dependent, over the successful runs and followed through flags, only on the completion test and the '
           'outermost-continue test - not on whether this call started the line.',
    'C11': ' Added from seed batch 10: no mutating closure under a short-circuiting iterator adaptor in the observer '
           'functions; the closing of the batch is followed through flags and computed over successful runs.',
    'C15': ' Corrected after seed batch 10: Index on a serde_json::Map is a panic site (only Index on a Value yields Null).',
    'C17': ' Added from seed batch 10: every successful path of reset_callstack passes force_end.',
}
for _k, _v in _MORE.items():
    CHECKS[_k]['text'] += _v
for _k, _v in _MORE2.items():
    CHECKS[_k]['text'] += _v
for _k, _v in _MORE3.items():
    CHECKS[_k]['text'] += _v
_MORE4 = {
    'C01': ' Added from seed batch 11: a key looked up both in the look-ahead patch and in the committed map it overlays '
           'is looked up in the patch first (never as the lazy fallback of the committed lookup).',
    'C03': ' Added from seed batch 11: thread-local cells of the compiler are written only on the way to handing the '
           'caller a guard whose Drop restores them; no error exit is reachable after the write.',
    'C06': ' Added from seed batch 11: the tree handed to the emitter is the tree that was validated (same producers, '
           'validation dominates emission).',
    'C10': ' Added from seed batch 11: the state and flow writers put every constant key (in particular "flows" and '
           '"currentFlowName" = current_flow.name) on every successful path, except the tabled optional keys.',
    'C14': ' Added from seed batch 11: the streaming number reader raises an error of its own only after '
           'str::parse::<f32> has refused the text.',
    'C19': ' Added from seed batch 11: components / is_relative of a Path are changed only on a value built in place '
           '(not a clone, parameter or field), or the cached text is reset.',
    'C20': ' Added from seed batch 11: the four-digit hex escape of the JSON escaper is reached only for code points '
           'below U+10000 (or is fed UTF-16 units).',
}
for _k, _v in _MORE4.items():
    CHECKS[_k]['text'] += _v
_MORE5 = {
    'C02': ' Added from seed batch 12: a constant key of a save object is written on every successful path from the '
           'creation of the object, except the tabled optional keys (reader default = omitted value).',
    'C09': ' Added from seed batch 12: evaluate_function finds its function by an exact lookup of the name, not by an '
           'approximating path search.',
    'C12': ' Added with seed batch 12: the compiler writes a call of a source name as f() only after testing the name '
           'against the EXTERNAL declarations; the refusal inside string evaluation has the constant severity error.',
    'C13': ' Sharpened after seed batch 12: a place that empties the warnings before (or regardless of) the handler test '
           'counts as emptying them without a handler.',
    'C15': ' Corrected after seed batch 12: String::truncate / split_off / str::split_at_mut are panic sites.',
    'C16': ' Added from seed batch 12: while a host evaluation frame is on top, can_pop_thread is false wherever it is '
           'asked (in the predicate itself, or at every call site).',
}
for _k, _v in _MORE5.items():
    CHECKS[_k]['text'] += _v

_MORE6 = {
    'C01': ' Added from seed batch 13: the thread restored and the path followed by choose_choice_index come from a choice '
           'of the offered list (Story::get_current_choices), not of the raw per-flow list.',
    'C03': ' Added from seed batch 13: the functions that draw random numbers touch, of the Story object, only fields with a '
           'settled class (table shared with C17): nothing derived from the seed is kept where load / reset do not replace it.',
    'C06': ' Added from seed batch 13: every recursive call of an AST walker (a call-graph cycle without a depth bound) is '
           'handed a part of the caller\'s own argument, never a value looked up in a table.',
    'C07': ' Added from seed batch 13: integer / and % truncate: no Euclidean or flooring division / remainder in '
           'NativeFunctionCall or anywhere in the compiler; divide_op and mod_op use the truncating operations.',
    'C09': ' Added from seed batch 13: the first change of the story in continue_internal is reached only with can_continue() '
           'known true (when no time-limited continue is in progress); Story::can_continue is StoryState::can_continue, which '
           'reads the pointer and the pending errors.',
    'C10': ' Added from seed batch 13: the write effects of switching to, back from and removing a flow (through every '
           'callee) stay inside a tabled set of fields - the evaluation stack, diverted pointer, globals, counts, seeds and '
           'messages are not touched.',
    'C11': ' Added with seed batch 13: every path from complete_variable_observation to a return of continue_internal, the '
           'error returns included, enters the delivery of the names it handed over (a genuine defect of the unchanged tree, '
           'fixed in 9515071).',
    'C14': ' Added from seed batch 13: the only raw characters the streaming tokenizer refuses in a string are those below '
           'U+0020 (no character-class predicate decides an error exit of read_string).',
    'C18': ' Added from seed batch 13: no function of the runtime takes a value out of ownership (mem::forget, ManuallyDrop, '
           'leak, into_raw, increment_strong_count).',
    'C19': ' Added from seed batch 13: the index Object::get_path writes for an unnamed child is its position in the whole of '
           'Container::content (position() over it, or a remembered enumerate() with no selecting adaptor in between).',
    'C20': ' Added from seed batch 13: a divert typed at the prompt is handed to choose_path_string with the call stack reset '
           'and no arguments, as the library is driven.',
}
for _k, _v in _MORE6.items():
    CHECKS[_k]['text'] += _v

NOT_APPLICABLE = {
    'C05': 'agreement with the reference compiler on the corpus is a relation between two outputs over 121 inputs and '
           'all choice paths; no clause of it is visible in the shape of the code, deciding it means running compiler and runtime',
}

NOTES = ('All checks are static: ./check <id> type-checks /repo\'s current working tree with a rustc_private driver '
         '(no code of /repo is executed) and evaluates the property\'s rule set over the dumped MIR/ADT facts. '
         'Known genuine defects are listed in known_findings.txt (exact keys).')
