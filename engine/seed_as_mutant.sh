#!/bin/bash
# seed_as_mutant.sh <Cxx> <name> <patch.diff> <expect_rule> <what...> : file a patch as a scratch mutant of the thorough tier
P=$1; N=$2; PATCH=$3; RULE=$4; shift 4
mkdir -p /verif/selftest/mutants/$P
cp $PATCH /verif/selftest/mutants/$P/$N.diff
python3 - "$P" "$N" "$RULE" "$*" <<'PY'
import json,sys
P,N,RULE,WHAT=sys.argv[1:5]
json.dump({'what':WHAT,'expect_rule':RULE,'patch':N+'.diff'},open('/verif/selftest/mutants/%s/%s.json'%(P,N),'w'),indent=1)
PY
echo filed $P/$N
