#!/usr/bin/env python3
"""scratch_verdict.py <patch.diff> [Cxx ...|all] [--slot N]
Apply a patch to a scratch copy of the current /repo (never to /repo itself), extract its facts, run the
rule sets named (default: all) and print the findings that the unpatched tree does not have.
Triage tool for seeded changes and behaviour-preserving variants; it writes no evidence."""
import importlib
import os
import shutil
import subprocess
import sys
import tempfile

HERE = os.path.dirname(os.path.abspath(__file__))
sys.path.insert(0, HERE)
from analysis import facts  # noqa: E402
from rules import thorough  # noqa: E402
from rules.common import Check  # noqa: E402


def findings(pids, prog):
    out = {}
    for pid in pids:
        mod = importlib.import_module('rules.' + pid.lower())
        chk = Check(pid, 'thorough', prog)
        try:
            mod.run(chk, prog)
            out[pid] = {f['key']: f for f in chk.findings}
        except Exception as e:  # noqa: BLE001
            import traceback
            out[pid] = {'internal|checker-exception': {'msg': traceback.format_exc()[-600:]}}
    return out


def main():
    args = sys.argv[1:]
    slot = 90
    if '--slot' in args:
        i = args.index('--slot')
        slot = int(args[i + 1])
        del args[i:i + 2]
    patch = os.path.abspath(args[0])
    pids = [a.upper() for a in args[1:]] or ['all']
    if pids == ['ALL'] or pids == ['all']:
        pids = sorted(f[:-3].upper() for f in os.listdir(os.path.join(HERE, 'rules'))
                      if f.startswith('c') and f[1:3].isdigit() and f.endswith('.py'))
    base = findings(pids, facts.load_program())
    tmp = tempfile.mkdtemp(prefix='inksv-')
    try:
        root = os.path.join(tmp, 'repo')
        os.makedirs(root)
        thorough.copy_repo(root)
        r = subprocess.run(['patch', '-p1', '-s', '-d', root, '-i', patch], capture_output=True, text=True)
        if r.returncode != 0:
            print('PATCH DOES NOT APPLY', (r.stdout + r.stderr)[-300:])
            return 3
        thorough._SLOT = slot
        prog, log = thorough.analyse_copy(root)
        if prog is None:
            print('DOES NOT COMPILE', log[-1500:])
            return 4
        new = findings(pids, prog)
        total = 0
        for pid in pids:
            ks = sorted(set(new[pid]) - set(base[pid]))
            for k in ks:
                total += 1
                f = new[pid][k]
                print('%s NEW %s :: %s' % (pid, k, str(f.get('msg') or f.get('what') or '')[:260]))
        print('TOTAL new findings: %d (%s)' % (total, os.path.basename(patch)))
        return 1 if total else 0
    finally:
        shutil.rmtree(tmp, ignore_errors=True)


if __name__ == '__main__':
    sys.exit(main())
