#!/bin/bash
# benign_verdict.sh <name> <diff>: apply a behaviour-preserving change to /repo's working tree, run every quick check, undo.
NAME=$1; PATCH=$2
cd /repo || exit 2
if [ -n "$(git status --porcelain)" ]; then echo "repo dirty; refusing"; exit 2; fi
git apply "$PATCH" || { echo "$NAME: PATCH DOES NOT APPLY"; exit 3; }
cd /verif
./check all > /tmp/bv-$NAME.out 2>&1
git -C /repo checkout -- .
n=$(grep -c "^VIOLATION" /tmp/bv-$NAME.out)
echo "$NAME: $n violation lines"
grep -E "^  C[0-9]+\." /tmp/bv-$NAME.out | cut -c1-230
