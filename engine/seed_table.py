#!/usr/bin/env python3
"""Print the DESIGN §11 table from seeded/*/meta.json."""
import glob, json, os
rows = []
for d in sorted(glob.glob('/verif/seeded/*/')):
    m = json.load(open(d + 'meta.json'))
    sid = os.path.basename(d.rstrip('/'))
    fr = m.get('first_run', '?')
    verdict = 'caught' if fr.upper().startswith('CAUGHT') else 'miss'
    extra = fr[fr.index('('):] if '(' in fr else ''
    rows.append((sid, m['change'].replace('|', '\\|'), verdict + (' ' + extra if extra else ''), m['detected_by'].replace('|', ' / ')))
print('| seed | change | first run | reported now by |')
print('|---|---|---|---|')
for r in rows:
    print('| %s | %s | %s | `%s` |' % r)
c = sum(1 for r in rows if r[2].startswith('caught'))
print('\n%d seeds, %d caught on first run, %d missed' % (len(rows), c, len(rows) - c))
