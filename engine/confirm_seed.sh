#!/bin/bash
# confirm_seed.sh <name> <patch.diff> <demo file> [demo kind: test|sh]
# Confirms a seeded change in a fresh scratch worktree of /repo HEAD:
#   suite passes with the change, demo fails with it, demo passes without it.
set -u
NAME=$1; PATCH=$2; DEMO=$3; EXTRA=${4:-}
WT=/tmp/cf-$NAME
OUT=/tmp/cf-$NAME.log
rm -rf $WT; git -C /repo worktree prune
git -C /repo worktree add -q --detach $WT HEAD || exit 2
export CARGO_TARGET_DIR=$WT/target CARGO_NET_OFFLINE=true
{
cd $WT
echo "== apply"; git apply $PATCH && echo applied || { echo "PATCH DOES NOT APPLY"; exit 3; }
echo "== suite with change (demo not present)"
cargo test --workspace --no-fail-fast --offline 2>&1 | grep -E "^test result|FAILED|failed|error" | sort | uniq -c | grep -v " ok\. " ; echo "suite_rc_pipe=${PIPESTATUS[0]}"
cp $DEMO $WT/conformance-tests/tests/seeded_demo.rs
echo "== demo with change"
cargo test -p conformance-tests --test seeded_demo --offline $EXTRA 2>&1 | grep -E "^test |^test result" | tail -15
echo "== demo without change"
git apply -R $PATCH
cargo test -p conformance-tests --test seeded_demo --offline $EXTRA 2>&1 | grep -E "^test |^test result" | tail -15
} > $OUT 2>&1
cd /; git -C /repo worktree remove --force $WT
echo "done $NAME"; cat $OUT
