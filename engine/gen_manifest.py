#!/usr/bin/env python3
"""Regenerate MANIFEST.json from engine/manifest_table.py (single source of truth)."""
import json, os, sys
HERE = os.path.dirname(os.path.abspath(__file__))
sys.path.insert(0, HERE)
from manifest_table import CHECKS, NOT_APPLICABLE, NOTES

checks = []
for pid, c in sorted(CHECKS.items()):
    checks.append({
        'property_id': pid,
        'quick_cmd': './check %s --tier quick' % pid,
        'thorough_cmd': './check %s --tier thorough' % pid,
        'evidence_file': '/verif/evidence/%s.json' % pid,
        'replay_cmd_template': 'cat {path}',
        'engine': 'ink-static',
        'level_claimed': {'category': 'other', 'text': c['text'], 'design_ref': c['design_ref']},
        'level_note': c['note'],
        'technique': c['technique'],
    })
m = {
    'version': 1,
    'setup_cmd': './check --setup',
    'hooks': {
        'guard': 'blade_ink_verif',
        'enable': 'none needed: static analysis reads the unmodified build (cargo +nightly check with a rustc_private driver as RUSTC_WORKSPACE_WRAPPER)',
        'baseline_off_cmd': 'cd /repo && cargo test --workspace --no-fail-fast --offline',
        'source_commits': [],
        'add_only': True,
    },
    'engines': [{
        'name': 'ink-static',
        'path': 'engine/',
        'serves_properties': sorted(CHECKS),
        'kind_free_text': 'rustc_private MIR/ADT fact extractor (engine/extractor) + Python rule library '
                          '(engine/analysis: CFG, dominators, def-use provenance, guard-atom dataflow, effect summaries, '
                          'table recovery, type graph) + one rule set per property (engine/rules)',
    }],
    'checks': checks,
    'not_applicable': [{'property_id': p, 'reason': r} for p, r in sorted(NOT_APPLICABLE.items())],
    'notes': NOTES,
}
json.dump(m, open(os.path.join(HERE, '..', 'MANIFEST.json'), 'w'), indent=1)
print('MANIFEST.json: %d checks, %d not applicable' % (len(checks), len(NOT_APPLICABLE)))
