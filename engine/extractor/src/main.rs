// ink-facts: rustc_private driver that dumps the type-checked program
// (ADTs, impls, MIR of every fn/closure, promoted bodies) as JSON facts.
// Used as RUSTC_WORKSPACE_WRAPPER under `cargo +nightly check`.
#![feature(rustc_private)]
#![allow(clippy::all)]

extern crate rustc_abi;
extern crate rustc_driver;
extern crate rustc_hir;
extern crate rustc_interface;
extern crate rustc_middle;
extern crate rustc_span;

use rustc_driver::{Callbacks, Compilation};
use rustc_hir::def::DefKind;
use rustc_hir::def_id::{DefId, LOCAL_CRATE};
use rustc_middle::mir::{self, *};
use rustc_middle::ty::print::{with_crate_prefix, with_no_trimmed_paths, with_no_visible_paths};
use rustc_middle::ty::{self, Ty, TyCtxt};
use rustc_span::Span;
use std::fmt::Write as _;

// ------------------------------------------------------------------ JSON
struct J {
    s: String,
}
impl J {
    fn new() -> J {
        J { s: String::with_capacity(1 << 20) }
    }
    fn raw(&mut self, t: &str) {
        self.s.push_str(t);
    }
    fn str(&mut self, t: &str) {
        self.s.push('"');
        for c in t.chars() {
            match c {
                '"' => self.s.push_str("\\\""),
                '\\' => self.s.push_str("\\\\"),
                '\n' => self.s.push_str("\\n"),
                '\r' => self.s.push_str("\\r"),
                '\t' => self.s.push_str("\\t"),
                c if (c as u32) < 0x20 => {
                    let _ = write!(self.s, "\\u{:04x}", c as u32);
                }
                c => self.s.push(c),
            }
        }
        self.s.push('"');
    }
    fn key(&mut self, k: &str) {
        self.str(k);
        self.s.push(':');
    }
    fn kv_str(&mut self, k: &str, v: &str) {
        self.key(k);
        self.str(v);
    }
    fn kv_num(&mut self, k: &str, v: i128) {
        self.key(k);
        let _ = write!(self.s, "{}", v);
    }
    fn kv_bool(&mut self, k: &str, v: bool) {
        self.key(k);
        self.s.push_str(if v { "true" } else { "false" });
    }
    fn comma(&mut self) {
        self.s.push(',');
    }
}

// ------------------------------------------------------------------ helpers
struct Cx<'tcx> {
    tcx: TyCtxt<'tcx>,
    krate: String,
}

impl<'tcx> Cx<'tcx> {
    fn fix(&self, s: String) -> String {
        // `with_crate_prefix` prints the local crate as the keyword `crate`
        let rep = format!("{}::", self.krate);
        let mut out = String::with_capacity(s.len() + 16);
        let b = s.as_bytes();
        let mut i = 0;
        while i < b.len() {
            if s[i..].starts_with("crate::")
                && (i == 0 || !(b[i - 1].is_ascii_alphanumeric() || b[i - 1] == b'_'))
            {
                out.push_str(&rep);
                i += 7;
            } else {
                let ch = s[i..].chars().next().unwrap();
                out.push(ch);
                i += ch.len_utf8();
            }
        }
        out
    }
    fn ty_str(&self, t: Ty<'tcx>) -> String {
        let s = with_no_visible_paths!(with_crate_prefix!(with_no_trimmed_paths!(t.to_string())));
        self.fix(s)
    }
    fn def_str(&self, d: DefId) -> String {
        let s = with_no_visible_paths!(with_crate_prefix!(with_no_trimmed_paths!(
            self.tcx.def_path_str(d)
        )));
        self.fix(s)
    }
    fn def_str_args(&self, d: DefId, args: ty::GenericArgsRef<'tcx>) -> String {
        let s = with_no_visible_paths!(with_crate_prefix!(with_no_trimmed_paths!(
            self.tcx.def_path_str_with_args(d, args)
        )));
        self.fix(s)
    }
    fn span(&self, j: &mut J, sp: Span) {
        let sm = self.tcx.sess.source_map();
        let mut mac: Option<String> = None;
        let mut inner_mac: Option<String> = None;
        if sp.from_expansion() {
            for e in sp.macro_backtrace() {
                if let rustc_span::ExpnKind::Macro(_, name) = e.kind {
                    if inner_mac.is_none() {
                        inner_mac = Some(name.to_string());
                    }
                    mac = Some(name.to_string());
                } else if let rustc_span::ExpnKind::Desugaring(d) = e.kind {
                    if inner_mac.is_none() {
                        inner_mac = Some(format!("desugar:{:?}", d));
                    }
                    if mac.is_none() {
                        mac = Some(format!("desugar:{:?}", d));
                    }
                } else if let rustc_span::ExpnKind::AstPass(_) = e.kind {
                    if mac.is_none() {
                        mac = Some("astpass".to_string());
                    }
                }
            }
        }
        let cs = sp.source_callsite();
        let loc = sm.lookup_char_pos(cs.lo());
        let fname = match &loc.file.name {
            rustc_span::FileName::Real(r) => match r.local_path() {
                Some(p) => p.to_string_lossy().to_string(),
                None => format!("{:?}", r),
            },
            other => format!("{:?}", other),
        };
        j.raw("{");
        j.kv_str("f", &fname);
        j.comma();
        j.kv_num("l", loc.line as i128);
        if let Some(m) = mac {
            j.comma();
            j.kv_str("mac", &m);
        }
        if let Some(m) = inner_mac {
            j.comma();
            j.kv_str("imac", &m);
        }
        j.raw("}");
    }

    // A structured view of a type: enough for the type-graph rules.
    fn ty_tree(&self, j: &mut J, t: Ty<'tcx>, depth: usize) {
        if depth > 12 {
            j.raw("{\"k\":\"deep\"}");
            return;
        }
        match t.kind() {
            ty::Adt(def, args) => {
                j.raw("{\"k\":\"adt\",");
                j.kv_str("p", &self.def_str(def.did()));
                j.raw(",\"a\":[");
                let mut first = true;
                for a in args.iter() {
                    if let Some(at) = a.as_type() {
                        if !first {
                            j.comma();
                        }
                        first = false;
                        self.ty_tree(j, at, depth + 1);
                    }
                }
                j.raw("]}");
            }
            ty::Ref(_, inner, m) => {
                j.raw("{\"k\":\"ref\",");
                j.kv_bool("mut", m.is_mut());
                j.raw(",\"a\":[");
                self.ty_tree(j, *inner, depth + 1);
                j.raw("]}");
            }
            ty::RawPtr(inner, m) => {
                j.raw("{\"k\":\"ptr\",");
                j.kv_bool("mut", m.is_mut());
                j.raw(",\"a\":[");
                self.ty_tree(j, *inner, depth + 1);
                j.raw("]}");
            }
            ty::Slice(inner) | ty::Array(inner, _) => {
                j.raw("{\"k\":\"seq\",\"a\":[");
                self.ty_tree(j, *inner, depth + 1);
                j.raw("]}");
            }
            ty::Tuple(ts) => {
                j.raw("{\"k\":\"tuple\",\"a\":[");
                for (i, x) in ts.iter().enumerate() {
                    if i > 0 {
                        j.comma();
                    }
                    self.ty_tree(j, x, depth + 1);
                }
                j.raw("]}");
            }
            ty::Dynamic(preds, _) => {
                j.raw("{\"k\":\"dyn\",\"traits\":[");
                let mut first = true;
                for p in preds.iter() {
                    let d = match p.skip_binder() {
                        ty::ExistentialPredicate::Trait(tr) => Some(tr.def_id),
                        ty::ExistentialPredicate::AutoTrait(d) => Some(d),
                        _ => None,
                    };
                    if let Some(d) = d {
                        if !first {
                            j.comma();
                        }
                        first = false;
                        j.str(&self.def_str(d));
                    }
                }
                j.raw("]}");
            }
            ty::Closure(d, _) => {
                j.raw("{\"k\":\"closure\",");
                j.kv_str("p", &self.def_str(*d));
                j.raw("}");
            }
            ty::FnDef(d, _) => {
                j.raw("{\"k\":\"fndef\",");
                j.kv_str("p", &self.def_str(*d));
                j.raw("}");
            }
            ty::FnPtr(..) => j.raw("{\"k\":\"fnptr\"}"),
            ty::Param(p) => {
                j.raw("{\"k\":\"param\",");
                j.kv_str("p", p.name.as_str());
                j.raw("}");
            }
            _ => {
                j.raw("{\"k\":\"prim\",");
                j.kv_str("p", &self.ty_str(t));
                j.raw("}");
            }
        }
    }
}

// ------------------------------------------------------------------ bodies
struct BodyCx<'a, 'tcx> {
    cx: &'a Cx<'tcx>,
    body: &'a Body<'tcx>,
    owner: DefId,
    env: ty::TypingEnv<'tcx>,
}

impl<'a, 'tcx> BodyCx<'a, 'tcx> {
    fn place(&self, j: &mut J, p: &Place<'tcx>) {
        let tcx = self.cx.tcx;
        j.raw("{");
        j.kv_num("l", p.local.as_usize() as i128);
        if !p.projection.is_empty() {
            j.raw(",\"p\":[");
            let mut pty = mir::PlaceTy::from_ty(self.body.local_decls[p.local].ty);
            for (i, elem) in p.projection.iter().enumerate() {
                if i > 0 {
                    j.comma();
                }
                match elem {
                    ProjectionElem::Deref => j.raw("{\"k\":\"deref\"}"),
                    ProjectionElem::Field(f, fty) => {
                        j.raw("{\"k\":\"field\",");
                        j.kv_num("i", f.as_usize() as i128);
                        match pty.ty.kind() {
                            ty::Adt(def, _) => {
                                let vidx = pty.variant_index.unwrap_or(rustc_abi::FIRST_VARIANT);
                                let v = def.variant(vidx);
                                j.comma();
                                j.kv_str("adt", &self.cx.def_str(def.did()));
                                if def.is_enum() {
                                    j.comma();
                                    j.kv_str("var", v.name.as_str());
                                }
                                if f.as_usize() < v.fields.len() {
                                    j.comma();
                                    j.kv_str("n", v.fields[f].name.as_str());
                                }
                            }
                            ty::Closure(d, _) => {
                                j.comma();
                                j.kv_str("closure", &self.cx.def_str(*d));
                                if let Some(ld) = d.as_local() {
                                    let caps = tcx.closure_captures(ld);
                                    if f.as_usize() < caps.len() {
                                        j.comma();
                                        j.kv_str("n", &caps[f.as_usize()].to_string(tcx));
                                    }
                                }
                            }
                            _ => {}
                        }
                        j.comma();
                        j.kv_str("ty", &self.cx.ty_str(fty));
                        j.raw("}");
                    }
                    ProjectionElem::Index(l) => {
                        j.raw("{\"k\":\"index\",");
                        j.kv_num("l", l.as_usize() as i128);
                        j.raw("}");
                    }
                    ProjectionElem::ConstantIndex { offset, from_end, .. } => {
                        j.raw("{\"k\":\"cindex\",");
                        j.kv_num("o", offset as i128);
                        j.comma();
                        j.kv_bool("end", from_end);
                        j.raw("}");
                    }
                    ProjectionElem::Subslice { .. } => j.raw("{\"k\":\"subslice\"}"),
                    ProjectionElem::Downcast(name, vi) => {
                        j.raw("{\"k\":\"downcast\",");
                        let nm = match name {
                            Some(n) => n.to_string(),
                            None => match pty.ty.kind() {
                                ty::Adt(def, _) => def.variant(vi).name.to_string(),
                                _ => format!("{}", vi.as_usize()),
                            },
                        };
                        j.kv_str("var", &nm);
                        j.comma();
                        j.kv_num("vi", vi.as_usize() as i128);
                        j.raw("}");
                    }
                    ProjectionElem::OpaqueCast(_) => j.raw("{\"k\":\"opaque\"}"),
                    ProjectionElem::UnwrapUnsafeBinder(_) => j.raw("{\"k\":\"unbinder\"}"),
                }
                pty = pty.projection_ty(tcx, elem);
            }
            j.raw("]");
        }
        j.raw("}");
    }

    fn constant(&self, j: &mut J, c: &ConstOperand<'tcx>) {
        let tcx = self.cx.tcx;
        let ty = c.const_.ty();
        j.raw("{\"k\":\"const\",");
        j.kv_str("ty", &self.cx.ty_str(ty));
        // function items
        if let ty::FnDef(d, args) = ty.kind() {
            j.comma();
            j.kv_str("fn", &self.cx.def_str(*d));
            j.comma();
            j.kv_str("fnfull", &self.cx.def_str_args(*d, args));
            j.raw("}");
            return;
        }
        if let Const::Unevaluated(uv, _) = c.const_ {
            if let Some(p) = uv.promoted {
                j.comma();
                j.kv_num("promoted", p.as_usize() as i128);
                if uv.def != self.owner {
                    j.comma();
                    j.kv_str("promoted_of", &self.cx.def_str(uv.def));
                }
                j.raw("}");
                return;
            } else {
                j.comma();
                j.kv_str("item", &self.cx.def_str(uv.def));
            }
        }
        // strings / byte strings
        let peeled = ty.peel_refs();
        if peeled.is_str() || matches!(peeled.kind(), ty::Slice(t) | ty::Array(t, _) if *t == tcx.types.u8)
        {
            let val = match c.const_ {
                Const::Val(v, _) => Some(v),
                _ => c.const_.eval(tcx, self.env, c.span).ok(),
            };
            if let Some(v) = val {
                let got: Option<&[u8]> = match v {
                    mir::ConstValue::Slice { .. } => v.try_get_slice_bytes_for_diagnostics(tcx),
                    mir::ConstValue::Indirect { .. } if matches!(peeled.kind(), ty::Str | ty::Slice(_)) && ty.is_ref() => {
                        v.try_get_slice_bytes_for_diagnostics(tcx)
                    }
                    mir::ConstValue::Scalar(mir::interpret::Scalar::Ptr(ptr, _)) if ty.is_ref() => {
                        let (prov, off) = ptr.prov_and_relative_offset();
                        match tcx.global_alloc(prov.alloc_id()) {
                            mir::interpret::GlobalAlloc::Memory(m) => {
                                let a = m.inner();
                                let start = off.bytes() as usize;
                                let end = a.size().bytes() as usize;
                                if start <= end {
                                    Some(a.inspect_with_uninit_and_ptr_outside_interpreter(start..end))
                                } else {
                                    None
                                }
                            }
                            _ => None,
                        }
                    }
                    _ => None,
                };
                if let Some(bytes) = got {
                    j.comma();
                    if peeled.is_str() {
                        j.kv_str("str", &String::from_utf8_lossy(bytes));
                    } else {
                        j.kv_str("bytes", &String::from_utf8_lossy(bytes));
                    }
                    j.raw("}");
                    return;
                }
            }
        }
        if ty.is_integral() || ty.is_bool() || ty.is_char() {
            if let Some(si) = c.const_.try_eval_scalar_int(tcx, self.env) {
                let size = si.size();
                let bits = si.to_bits(size);
                j.comma();
                if ty.is_bool() {
                    j.kv_bool("bool", bits != 0);
                } else if ty.is_char() {
                    let ch = char::from_u32(bits as u32).unwrap_or('\u{fffd}');
                    j.kv_str("char", &ch.to_string());
                    j.comma();
                    j.kv_num("int", bits as i128);
                } else if ty.is_signed() {
                    let v = size.sign_extend(bits) as i128;
                    j.kv_num("int", v);
                } else {
                    j.key("int");
                    let _ = write!(j.s, "{}", bits);
                }
                j.raw("}");
                return;
            }
        }
        if ty.is_floating_point() {
            if let Some(si) = c.const_.try_eval_scalar_int(tcx, self.env) {
                let size = si.size();
                let bits = si.to_bits(size);
                let f = if size.bytes() == 4 {
                    f32::from_bits(bits as u32) as f64
                } else {
                    f64::from_bits(bits as u64)
                };
                j.comma();
                j.kv_str("float", &format!("{:?}", f));
                j.raw("}");
                return;
            }
        }
        j.comma();
        j.kv_str("dbg", &format!("{}", c.const_));
        j.raw("}");
    }

    fn operand(&self, j: &mut J, o: &Operand<'tcx>) {
        match o {
            Operand::Copy(p) => {
                j.raw("{\"k\":\"copy\",\"pl\":");
                self.place(j, p);
                j.raw("}");
            }
            Operand::Move(p) => {
                j.raw("{\"k\":\"move\",\"pl\":");
                self.place(j, p);
                j.raw("}");
            }
            Operand::Constant(c) => self.constant(j, c),
            #[allow(unreachable_patterns)]
            other => {
                j.raw("{\"k\":\"rtcheck\",");
                j.kv_str("dbg", &format!("{:?}", other));
                j.raw("}");
            }
        }
    }

    fn rvalue(&self, j: &mut J, r: &Rvalue<'tcx>) {
        match r {
            Rvalue::Use(o, _) => {
                j.raw("{\"k\":\"use\",\"op\":");
                self.operand(j, o);
                j.raw("}");
            }
            Rvalue::Repeat(o, _) => {
                j.raw("{\"k\":\"repeat\",\"op\":");
                self.operand(j, o);
                j.raw("}");
            }
            Rvalue::Ref(_, bk, p) => {
                j.raw("{\"k\":\"ref\",");
                j.kv_bool("mut", matches!(bk, BorrowKind::Mut { .. }));
                j.raw(",\"pl\":");
                self.place(j, p);
                j.raw("}");
            }
            Rvalue::RawPtr(k, p) => {
                j.raw("{\"k\":\"rawptr\",");
                j.kv_bool("mut", matches!(k, RawPtrKind::Mut));
                j.raw(",\"pl\":");
                self.place(j, p);
                j.raw("}");
            }
            Rvalue::ThreadLocalRef(d) => {
                j.raw("{\"k\":\"tls\",");
                j.kv_str("p", &self.cx.def_str(*d));
                j.raw("}");
            }
            Rvalue::Cast(kind, o, t) => {
                j.raw("{\"k\":\"cast\",");
                j.kv_str("ck", &format!("{:?}", kind));
                j.comma();
                j.kv_str("ty", &self.cx.ty_str(*t));
                j.raw(",\"op\":");
                self.operand(j, o);
                j.raw("}");
            }
            Rvalue::BinaryOp(op, ab) => {
                j.raw("{\"k\":\"binop\",");
                j.kv_str("op", &format!("{:?}", op));
                j.comma();
                j.kv_str("aty", &self.cx.ty_str(ab.0.ty(self.body, self.cx.tcx)));
                j.raw(",\"a\":");
                self.operand(j, &ab.0);
                j.raw(",\"b\":");
                self.operand(j, &ab.1);
                j.raw("}");
            }
            Rvalue::UnaryOp(op, a) => {
                j.raw("{\"k\":\"unop\",");
                j.kv_str("op", &format!("{:?}", op));
                j.comma();
                j.kv_str("aty", &self.cx.ty_str(a.ty(self.body, self.cx.tcx)));
                j.raw(",\"a\":");
                self.operand(j, a);
                j.raw("}");
            }
            Rvalue::Discriminant(p) => {
                j.raw("{\"k\":\"discr\",");
                let pt = p.ty(self.body, self.cx.tcx).ty;
                j.kv_str("ty", &self.cx.ty_str(pt));
                if let ty::Adt(def, _) = pt.kind() {
                    j.comma();
                    j.kv_str("adt", &self.cx.def_str(def.did()));
                }
                j.raw(",\"pl\":");
                self.place(j, p);
                j.raw("}");
            }
            Rvalue::Aggregate(kind, ops) => {
                j.raw("{\"k\":\"agg\",");
                match &**kind {
                    AggregateKind::Array(_) => j.kv_str("ak", "array"),
                    AggregateKind::Tuple => j.kv_str("ak", "tuple"),
                    AggregateKind::Adt(d, vi, _, _, _) => {
                        j.kv_str("ak", "adt");
                        j.comma();
                        j.kv_str("adt", &self.cx.def_str(*d));
                        let def = self.cx.tcx.adt_def(*d);
                        j.comma();
                        j.kv_str("var", def.variant(*vi).name.as_str());
                        j.comma();
                        j.kv_num("vi", vi.as_usize() as i128);
                        j.raw(",\"fields\":[");
                        for (i, f) in def.variant(*vi).fields.iter().enumerate() {
                            if i > 0 {
                                j.comma();
                            }
                            j.str(f.name.as_str());
                        }
                        j.raw("]");
                    }
                    AggregateKind::Closure(d, _) => {
                        j.kv_str("ak", "closure");
                        j.comma();
                        j.kv_str("closure", &self.cx.def_str(*d));
                    }
                    AggregateKind::Coroutine(d, _) | AggregateKind::CoroutineClosure(d, _) => {
                        j.kv_str("ak", "coroutine");
                        j.comma();
                        j.kv_str("closure", &self.cx.def_str(*d));
                    }
                    AggregateKind::RawPtr(..) => j.kv_str("ak", "rawptr"),
                }
                j.raw(",\"ops\":[");
                for (i, o) in ops.iter().enumerate() {
                    if i > 0 {
                        j.comma();
                    }
                    self.operand(j, o);
                }
                j.raw("]}");
            }
            Rvalue::CopyForDeref(p) => {
                j.raw("{\"k\":\"use\",\"cfd\":true,\"op\":{\"k\":\"copy\",\"pl\":");
                self.place(j, p);
                j.raw("}}");
            }
            other => {
                j.raw("{\"k\":\"other\",");
                j.kv_str("dbg", &format!("{:?}", other));
                j.raw("}");
            }
        }
    }

    fn callee(&self, j: &mut J, func: &Operand<'tcx>) {
        let tcx = self.cx.tcx;
        let fty = func.ty(self.body, tcx);
        j.raw("{");
        match fty.kind() {
            ty::FnDef(d, args) => {
                j.kv_str("def", &self.cx.def_str(*d));
                j.comma();
                j.kv_str("full", &self.cx.def_str_args(*d, args));
                j.comma();
                j.kv_str("name", tcx.item_name(*d).as_str());
                // the trait / impl container
                if let Some(tr) = tcx.trait_of_assoc(*d) {
                    j.comma();
                    j.kv_str("trait", &self.cx.def_str(tr));
                    if let Some(st) = args.types().next() {
                        j.comma();
                        j.kv_str("self", &self.cx.ty_str(st));
                    }
                } else if let Some(imp) = tcx.inherent_impl_of_assoc(*d) {
                    let st = tcx.type_of(imp).instantiate(tcx, args).skip_norm_wip();
                    j.comma();
                    j.kv_str("self", &self.cx.ty_str(st));
                    if let ty::Adt(ad, _) = st.kind() {
                        j.comma();
                        j.kv_str("self_adt", &self.cx.def_str(ad.did()));
                    }
                }
                // generic type args
                j.raw(",\"targs\":[");
                let mut first = true;
                for a in args.iter() {
                    if let Some(t) = a.as_type() {
                        if !first {
                            j.comma();
                        }
                        first = false;
                        j.str(&self.cx.ty_str(t));
                    }
                }
                j.raw("]");
                // closures among generic args
                let mut clos: Vec<String> = vec![];
                for a in args.iter() {
                    if let Some(t) = a.as_type() {
                        for inner in t.walk() {
                            if let Some(it) = inner.as_type() {
                                if let ty::Closure(cd, _) = it.kind() {
                                    clos.push(self.cx.def_str(*cd));
                                }
                            }
                        }
                    }
                }
                if !clos.is_empty() {
                    j.raw(",\"closures\":[");
                    for (i, c) in clos.iter().enumerate() {
                        if i > 0 {
                            j.comma();
                        }
                        j.str(c);
                    }
                    j.raw("]");
                }
                // resolution
                let res = std::panic::catch_unwind(std::panic::AssertUnwindSafe(|| {
                    ty::Instance::try_resolve(tcx, self.env, *d, args)
                }));
                if let Ok(Ok(Some(inst))) = res {
                    let rd = inst.def_id();
                    j.comma();
                    j.kv_str("res", &self.cx.def_str(rd));
                    let kind = match inst.def {
                        ty::InstanceKind::Item(_) => "item",
                        ty::InstanceKind::Virtual(..) => "virtual",
                        ty::InstanceKind::Intrinsic(_) => "intrinsic",
                        ty::InstanceKind::ClosureOnceShim { .. } => "closure_once",
                        ty::InstanceKind::FnPtrShim(..) => "fnptr_shim",
                        ty::InstanceKind::DropGlue(..) => "drop_glue",
                        ty::InstanceKind::CloneShim(..) => "clone_shim",
                        ty::InstanceKind::ReifyShim(..) => "reify",
                        _ => "other",
                    };
                    j.comma();
                    j.kv_str("rk", kind);
                    if let Some(imp) = tcx.inherent_impl_of_assoc(rd).or_else(|| {
                        tcx.opt_associated_item(rd).and_then(|ai| {
                            let c = ai.container_id(tcx);
                            if matches!(tcx.def_kind(c), DefKind::Impl { .. }) { Some(c) } else { None }
                        })
                    }) {
                        let st = tcx.type_of(imp).instantiate_identity().skip_norm_wip();
                        j.comma();
                        j.kv_str("res_self", &self.cx.ty_str(st));
                    }
                }
            }
            ty::FnPtr(..) => {
                j.kv_str("indirect", "fnptr");
            }
            ty::Closure(d, _) => {
                j.kv_str("def", &self.cx.def_str(*d));
                j.comma();
                j.kv_str("res", &self.cx.def_str(*d));
            }
            _ => {
                j.kv_str("indirect", &self.cx.ty_str(fty));
            }
        }
        if let Operand::Copy(p) | Operand::Move(p) = func {
            j.raw(",\"via\":");
            self.place(j, p);
        }
        j.raw("}");
    }

    fn terminator(&self, j: &mut J, t: &Terminator<'tcx>) {
        j.raw("{\"sp\":");
        self.cx.span(j, t.source_info.span);
        j.comma();
        match &t.kind {
            TerminatorKind::Goto { target } => {
                j.kv_str("k", "goto");
                j.comma();
                j.kv_num("t", target.as_usize() as i128);
            }
            TerminatorKind::SwitchInt { discr, targets } => {
                j.kv_str("k", "switch");
                j.comma();
                j.kv_str("dty", &self.cx.ty_str(discr.ty(self.body, self.cx.tcx)));
                j.raw(",\"d\":");
                self.operand(j, discr);
                j.raw(",\"ts\":[");
                for (i, (v, bb)) in targets.iter().enumerate() {
                    if i > 0 {
                        j.comma();
                    }
                    let _ = write!(j.s, "[{},{}]", v, bb.as_usize());
                }
                j.raw("],");
                j.kv_num("else", targets.otherwise().as_usize() as i128);
            }
            TerminatorKind::Return => j.kv_str("k", "return"),
            TerminatorKind::Unreachable => j.kv_str("k", "unreachable"),
            TerminatorKind::UnwindResume => j.kv_str("k", "resume"),
            TerminatorKind::UnwindTerminate(_) => j.kv_str("k", "terminate"),
            TerminatorKind::Drop { place, target, unwind, .. } => {
                j.kv_str("k", "drop");
                j.raw(",\"pl\":");
                self.place(j, place);
                j.comma();
                j.kv_str("ty", &self.cx.ty_str(place.ty(self.body, self.cx.tcx).ty));
                j.comma();
                j.kv_num("t", target.as_usize() as i128);
                if let UnwindAction::Cleanup(bb) = unwind {
                    j.comma();
                    j.kv_num("uw", bb.as_usize() as i128);
                }
            }
            TerminatorKind::Call { func, args, destination, target, unwind, .. } => {
                j.kv_str("k", "call");
                j.raw(",\"f\":");
                self.callee(j, func);
                j.raw(",\"args\":[");
                for (i, a) in args.iter().enumerate() {
                    if i > 0 {
                        j.comma();
                    }
                    self.operand(j, &a.node);
                }
                j.raw("],\"dest\":");
                self.place(j, destination);
                j.comma();
                j.kv_str("dty", &self.cx.ty_str(destination.ty(self.body, self.cx.tcx).ty));
                if let Some(t) = target {
                    j.comma();
                    j.kv_num("t", t.as_usize() as i128);
                }
                if let UnwindAction::Cleanup(bb) = unwind {
                    j.comma();
                    j.kv_num("uw", bb.as_usize() as i128);
                }
            }
            TerminatorKind::TailCall { func, args, .. } => {
                j.kv_str("k", "tailcall");
                j.raw(",\"f\":");
                self.callee(j, func);
                j.raw(",\"args\":[");
                for (i, a) in args.iter().enumerate() {
                    if i > 0 {
                        j.comma();
                    }
                    self.operand(j, &a.node);
                }
                j.raw("]");
            }
            TerminatorKind::Assert { cond, expected, msg, target, unwind } => {
                j.kv_str("k", "assert");
                j.raw(",\"cond\":");
                self.operand(j, cond);
                j.comma();
                j.kv_bool("exp", *expected);
                j.comma();
                let tcx = self.cx.tcx;
                match &**msg {
                    AssertKind::BoundsCheck { len, index } => {
                        j.kv_str("ak", "bounds");
                        j.raw(",\"a\":");
                        self.operand(j, len);
                        j.raw(",\"b\":");
                        self.operand(j, index);
                    }
                    AssertKind::Overflow(op, a, b) => {
                        j.kv_str("ak", "overflow");
                        j.comma();
                        j.kv_str("op", &format!("{:?}", op));
                        j.comma();
                        j.kv_str("oty", &self.cx.ty_str(a.ty(self.body, tcx)));
                        j.raw(",\"a\":");
                        self.operand(j, a);
                        j.raw(",\"b\":");
                        self.operand(j, b);
                    }
                    AssertKind::OverflowNeg(a) => {
                        j.kv_str("ak", "overflow_neg");
                        j.comma();
                        j.kv_str("oty", &self.cx.ty_str(a.ty(self.body, tcx)));
                        j.raw(",\"a\":");
                        self.operand(j, a);
                    }
                    AssertKind::DivisionByZero(a) => {
                        j.kv_str("ak", "div_zero");
                        j.comma();
                        j.kv_str("oty", &self.cx.ty_str(a.ty(self.body, tcx)));
                        j.raw(",\"a\":");
                        self.operand(j, a);
                    }
                    AssertKind::RemainderByZero(a) => {
                        j.kv_str("ak", "rem_zero");
                        j.comma();
                        j.kv_str("oty", &self.cx.ty_str(a.ty(self.body, tcx)));
                        j.raw(",\"a\":");
                        self.operand(j, a);
                    }
                    other => {
                        j.kv_str("ak", "other");
                        j.comma();
                        j.kv_str("dbg", &format!("{:?}", other));
                    }
                }
                j.comma();
                j.kv_num("t", target.as_usize() as i128);
                if let UnwindAction::Cleanup(bb) = unwind {
                    j.comma();
                    j.kv_num("uw", bb.as_usize() as i128);
                }
            }
            TerminatorKind::FalseEdge { real_target, .. } => {
                j.kv_str("k", "goto");
                j.comma();
                j.kv_num("t", real_target.as_usize() as i128);
            }
            TerminatorKind::FalseUnwind { real_target, .. } => {
                j.kv_str("k", "goto");
                j.comma();
                j.kv_num("t", real_target.as_usize() as i128);
            }
            other => {
                j.kv_str("k", "other");
                j.comma();
                j.kv_str("dbg", &format!("{:?}", other));
            }
        }
        j.raw("}");
    }

    fn emit_body(&self, j: &mut J) {
        let body = self.body;
        j.raw("{");
        j.kv_num("argc", body.arg_count as i128);
        j.raw(",\"locals\":[");
        for (i, (_l, d)) in body.local_decls.iter_enumerated().enumerate() {
            if i > 0 {
                j.comma();
            }
            j.raw("{");
            j.kv_str("ty", &self.cx.ty_str(d.ty));
            j.raw("}");
        }
        j.raw("],\"dbg\":[");
        let mut first = true;
        for v in body.var_debug_info.iter() {
            if let VarDebugInfoContents::Place(p) = &v.value {
                if !first {
                    j.comma();
                }
                first = false;
                j.raw("{");
                j.kv_str("n", v.name.as_str());
                j.raw(",\"pl\":");
                self.place(j, p);
                j.raw("}");
            }
        }
        j.raw("],\"blocks\":[");
        for (bi, (_bb, data)) in body.basic_blocks.iter_enumerated().enumerate() {
            if bi > 0 {
                j.comma();
            }
            j.raw("{");
            if data.is_cleanup {
                j.kv_bool("cleanup", true);
                j.comma();
            }
            j.raw("\"st\":[");
            let mut first = true;
            for s in data.statements.iter() {
                match &s.kind {
                    StatementKind::Assign(b) => {
                        if !first {
                            j.comma();
                        }
                        first = false;
                        j.raw("{\"k\":\"assign\",\"sp\":");
                        self.cx.span(j, s.source_info.span);
                        j.raw(",\"pl\":");
                        self.place(j, &b.0);
                        j.raw(",\"rv\":");
                        self.rvalue(j, &b.1);
                        j.raw("}");
                    }
                    StatementKind::SetDiscriminant { place, variant_index } => {
                        if !first {
                            j.comma();
                        }
                        first = false;
                        j.raw("{\"k\":\"setdiscr\",\"sp\":");
                        self.cx.span(j, s.source_info.span);
                        j.raw(",\"pl\":");
                        self.place(j, place);
                        j.comma();
                        j.kv_num("vi", variant_index.as_usize() as i128);
                        j.raw("}");
                    }
                    _ => {}
                }
            }
            j.raw("],\"term\":");
            if let Some(t) = &data.terminator {
                self.terminator(j, t);
            } else {
                j.raw("null");
            }
            j.raw("}");
        }
        j.raw("]}");
    }
}

// ------------------------------------------------------------------ driver
struct Cb;

impl Callbacks for Cb {
    fn after_analysis<'tcx>(
        &mut self,
        _c: &rustc_interface::interface::Compiler,
        tcx: TyCtxt<'tcx>,
    ) -> Compilation {
        let out_dir = match std::env::var("INK_FACTS_DIR") {
            Ok(d) => d,
            Err(_) => return Compilation::Continue,
        };
        let krate = tcx.crate_name(LOCAL_CRATE).to_string();
        let cx = Cx { tcx, krate: krate.clone() };
        let mut j = J::new();
        j.raw("{");
        j.kv_str("crate", &krate);
        j.comma();
        let ctypes: Vec<String> = tcx.crate_types().iter().map(|c| format!("{:?}", c)).collect();
        j.kv_str("crate_types", &ctypes.join(","));

        // ---- ADTs
        j.raw(",\"adts\":[");
        let mut first = true;
        for ld in tcx.hir_crate_items(()).definitions() {
            let dk = tcx.def_kind(ld);
            if !matches!(dk, DefKind::Struct | DefKind::Enum | DefKind::Union) {
                continue;
            }
            let def = tcx.adt_def(ld.to_def_id());
            if !first {
                j.comma();
            }
            first = false;
            j.raw("{");
            j.kv_str("p", &cx.def_str(ld.to_def_id()));
            j.comma();
            j.kv_str("kind", if def.is_enum() { "enum" } else if def.is_union() { "union" } else { "struct" });
            j.comma();
            j.kv_str("repr", &format!("{:?}", def.repr().int));
            j.raw(",\"sp\":");
            cx.span(&mut j, tcx.def_span(ld.to_def_id()));
            j.raw(",\"variants\":[");
            let discrs: Vec<(rustc_abi::VariantIdx, u128)> = if def.is_enum() {
                def.discriminants(tcx).map(|(vi, d)| (vi, d.val)).collect()
            } else {
                vec![]
            };
            for (vi, v) in def.variants().iter_enumerated() {
                if vi.as_usize() > 0 {
                    j.comma();
                }
                j.raw("{");
                j.kv_str("n", v.name.as_str());
                if let Some((_, d)) = discrs.iter().find(|(x, _)| *x == vi) {
                    j.comma();
                    j.key("discr");
                    let _ = write!(j.s, "{}", d);
                }
                j.raw(",\"fields\":[");
                for (fi, f) in v.fields.iter().enumerate() {
                    if fi > 0 {
                        j.comma();
                    }
                    let fty = tcx.type_of(f.did).instantiate_identity().skip_norm_wip();
                    j.raw("{");
                    j.kv_str("n", f.name.as_str());
                    j.comma();
                    j.kv_str("ty", &cx.ty_str(fty));
                    j.comma();
                    j.kv_bool("pub", tcx.visibility(f.did).is_public());
                    j.raw(",\"tree\":");
                    cx.ty_tree(&mut j, fty, 0);
                    j.raw("}");
                }
                j.raw("]}");
            }
            j.raw("]}");
        }
        j.raw("]");

        // ---- impls
        j.raw(",\"impls\":[");
        let mut first = true;
        for ld in tcx.hir_crate_items(()).definitions() {
            if let DefKind::Impl { of_trait } = tcx.def_kind(ld) {
                if !first {
                    j.comma();
                }
                first = false;
                let st = tcx.type_of(ld).instantiate_identity().skip_norm_wip();
                j.raw("{");
                j.kv_str("self", &cx.ty_str(st));
                if let ty::Adt(ad, _) = st.kind() {
                    j.comma();
                    j.kv_str("self_adt", &cx.def_str(ad.did()));
                }
                if of_trait {
                    let tr = tcx.impl_trait_ref(ld).instantiate_identity().skip_norm_wip();
                    j.comma();
                    j.kv_str("trait", &cx.def_str(tr.def_id));
                    j.comma();
                    j.kv_str("trait_full", &with_no_visible_paths!(with_no_trimmed_paths!(format!("{:?}", tr))));
                }
                j.raw(",\"items\":[");
                for (i, it) in tcx.associated_item_def_ids(ld).iter().enumerate() {
                    if i > 0 {
                        j.comma();
                    }
                    j.str(&cx.def_str(*it));
                }
                j.raw("],\"sp\":");
                cx.span(&mut j, tcx.def_span(ld.to_def_id()));
                j.raw("}");
            }
        }
        j.raw("]");

        // ---- functions
        j.raw(",\"fns\":[");
        let mut first = true;
        let mut nfn = 0usize;
        for ld in tcx.hir_body_owners() {
            let dk = tcx.def_kind(ld);
            if !matches!(dk, DefKind::Fn | DefKind::AssocFn | DefKind::Closure) {
                continue;
            }
            let did = ld.to_def_id();
            if !tcx.is_mir_available(did) {
                continue;
            }
            let body = tcx.optimized_mir(did);
            if !first {
                j.comma();
            }
            first = false;
            nfn += 1;
            j.raw("{");
            j.kv_str("p", &cx.def_str(did));
            j.comma();
            j.kv_str("name", &tcx.opt_item_name(did).map(|s| s.to_string()).unwrap_or_default());
            j.comma();
            j.kv_str("kind", match dk {
                DefKind::Fn => "fn",
                DefKind::AssocFn => "assoc",
                _ => "closure",
            });
            if matches!(dk, DefKind::Fn | DefKind::AssocFn) {
                j.comma();
                j.kv_bool("pub", tcx.visibility(did).is_public());
            }
            if matches!(dk, DefKind::Closure) {
                let mut p = tcx.parent(did);
                while matches!(tcx.def_kind(p), DefKind::Closure) {
                    p = tcx.parent(p);
                }
                j.comma();
                j.kv_str("parent", &cx.def_str(tcx.parent(did)));
                j.comma();
                j.kv_str("root", &cx.def_str(p));
            }
            if matches!(dk, DefKind::AssocFn) {
                let par = tcx.parent(did);
                if let DefKind::Impl { of_trait } = tcx.def_kind(par) {
                    let st = tcx.type_of(par).instantiate_identity().skip_norm_wip();
                    j.comma();
                    j.kv_str("self", &cx.ty_str(st));
                    if let ty::Adt(ad, _) = st.kind() {
                        j.comma();
                        j.kv_str("self_adt", &cx.def_str(ad.did()));
                    }
                    if of_trait {
                        let tr = tcx.impl_trait_ref(par).instantiate_identity().skip_norm_wip();
                        j.comma();
                        j.kv_str("trait", &cx.def_str(tr.def_id));
                    }
                } else if matches!(tcx.def_kind(par), DefKind::Trait) {
                    j.comma();
                    j.kv_str("trait_default", &cx.def_str(par));
                }
            }
            j.raw(",\"sp\":");
            cx.span(&mut j, tcx.def_span(did));
            let env = ty::TypingEnv::post_analysis(tcx, did);
            let bcx = BodyCx { cx: &cx, body, owner: did, env };
            j.raw(",\"body\":");
            bcx.emit_body(&mut j);
            // promoted
            let proms = tcx.promoted_mir(did);
            j.raw(",\"promoted\":[");
            for (i, pb) in proms.iter().enumerate() {
                if i > 0 {
                    j.comma();
                }
                let pcx = BodyCx { cx: &cx, body: pb, owner: did, env };
                pcx.emit_body(&mut j);
            }
            j.raw("]}");
        }
        j.raw("],");
        j.kv_num("nfns", nfn as i128);
        j.raw("}");

        let id = format!("{:x}", tcx.stable_crate_id(LOCAL_CRATE).as_u64());
        let path = format!("{}/{}-{}.json", out_dir, krate, id);
        let tmp = format!("{}.tmp{}", path, std::process::id());
        std::fs::write(&tmp, j.s.as_bytes()).expect("write facts");
        std::fs::rename(&tmp, &path).expect("rename facts");
        Compilation::Continue
    }
}

fn main() {
    let mut args: Vec<String> = std::env::args().collect();
    // RUSTC_WORKSPACE_WRAPPER: argv[1] is the real rustc path
    if args.len() > 1 && (args[1].ends_with("rustc") || args[1].contains("/rustc")) {
        args.remove(1);
    }
    let mut cb = Cb;
    rustc_driver::run_compiler(&args, &mut cb);
}
