#!/bin/bash
# seed_verdict.sh <Cxx> <patch.diff>  — apply a seeded change to /repo, run that property's quick check, undo.
# Prints the rule keys reported as violations (or MISSED).
set -u
P=$1; PATCH=$2
cd /repo || exit 2
if [ -n "$(git status --porcelain)" ]; then echo "repo dirty; refusing"; exit 2; fi
git apply "$PATCH" || { echo "PATCH DOES NOT APPLY"; exit 3; }
cd /verif
./check "$P" > /tmp/sv-$P.out 2>&1; rc=$?
git -C /repo checkout -- .
if [ $rc -eq 0 ]; then echo "$P MISSED"; else echo "$P CAUGHT rc=$rc"; grep -E "^(FAIL|  FAIL|VIOLATION|.*\|)" /tmp/sv-$P.out | grep -v KNOWN | head -8 | cut -c1-300; fi
