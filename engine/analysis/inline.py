"""P-INLINE: virtual inlining of single-caller private helpers, so that intra-procedural path rules survive the
most common behaviour-preserving refactoring ("extract this block into a helper method").

`inlined(prog, fn, keep)` returns a synthetic Fn whose body is fn's MIR with the bodies of eligible callees spliced in:
  * the callee is a repository function of the same crate, not `pub`, not a closure, not recursive,
  * it has exactly one call site in the whole program (so nothing else can observe it as a unit),
  * its short name is not in `keep` (functions that rules use as anchors in their own right stay calls).
Arguments become assignments to fresh locals, the return place a fresh local copied into the call's destination,
`return` a goto to the continuation. Unwind edges are dropped (the CFG ignores them anyway). Depth-bounded."""
import copy

from .facts import Fn, callee, short


def _shift_place(pl, off):
    q = dict(pl)
    q['l'] = pl['l'] + off
    if 'p' in pl:
        q['p'] = [(_shift_proj(pe, off)) for pe in pl['p']]
    return q


def _shift_proj(pe, off):
    if pe.get('k') == 'index' and 'l' in pe:
        pe = dict(pe)
        pe['l'] = pe['l'] + off
    return pe


def _shift(o, off, boff, poff=0):
    """Deep-copy a MIR json fragment shifting locals by `off` and promoted indices by `poff` (block targets are
    shifted by the caller)."""
    if isinstance(o, list):
        return [_shift(x, off, boff, poff) for x in o]
    if not isinstance(o, dict):
        return o
    out = {}
    for k, v in o.items():
        if k in ('pl', 'dest') and isinstance(v, dict) and 'l' in v:
            out[k] = _shift_place(v, off)
        elif k == 'promoted' and isinstance(v, int):
            out[k] = v + poff
        else:
            out[k] = _shift(v, off, boff, poff)
    return out


def _retarget(t, boff):
    t = dict(t)
    if 't' in t and t['t'] is not None:
        t['t'] = t['t'] + boff
    if t['k'] == 'switch':
        t['ts'] = [[v, b + boff] for v, b in t['ts']]
        t['else'] = t['else'] + boff
    t.pop('uw', None)
    return t


MAX_SHARED_HELPER_BLOCKS = 150
MAX_SHARED_HELPER_SITES = 12


def is_new_helper(prog, g, known):
    """A function the rules have never seen (not in `known`), private, not a closure or trait method, called only from
    its own crate: the product of an "extract method" refactoring.  With one call site any size is accepted; a helper
    shared by several call sites ("extract the duplicated lookup into `required_i64(obj, key)`") must be small and not be
    passed around as a function item (its closures become children of every caller that absorbed it)."""
    if g.short in known or g.pub or g.parent or g.kind == 'closure' or g.trait:
        return False
    if '::tests::' in g.p or len(g.blocks) > 600:
        return False
    sites = prog.callers(g.short)
    if not sites or len(sites) > MAX_SHARED_HELPER_SITES:
        return False
    if any(cf.crate != g.crate or prog.root_fn(cf).p == g.p for cf, _, _ in sites):
        return False
    if len(sites) > 1:
        if len(g.blocks) > MAX_SHARED_HELPER_BLOCKS:
            return False
        if g.p in _fn_items(prog):
            return False
    return True


def _fn_items(prog):
    """Paths of repository functions that occur as function items in generic arguments (passed as values)."""
    c = getattr(prog, '_fn_items_cache', None)
    if c is None:
        import re
        c = set()
        for f in prog.fns.values():
            for _, t in f.calls():
                for ta in t['f'].get('targs') or []:
                    c.update(re.findall(r'\{([A-Za-z0-9_:<> ]+)\}', ta))
        prog._fn_items_cache = c
    return c


def drop_cyclic(prog, helpers):
    """Helpers that can reach themselves through other helpers are left alone (they stay ordinary calls)."""
    adj = {p_: {callee(t) for _, t in f.calls() if callee(t) in helpers} for p_, f in helpers.items()}
    bad = set()
    for start in adj:
        seen, work = set(), list(adj[start])
        while work:
            x = work.pop()
            if x == start:
                bad.add(start)
                break
            if x in seen:
                continue
            seen.add(x)
            work.extend(adj.get(x, ()))
    return {p_: f for p_, f in helpers.items() if p_ not in bad}


def eligible(prog, caller, t, helpers, stack):
    cp = callee(t)
    if cp not in helpers or cp == caller.p:
        return None
    return helpers[cp]


def inlined(prog, fn, helpers, depth=4):
    raw = copy.deepcopy(fn.raw)
    body = raw['body']
    changed = False
    stack = {fn.p}          # absorbed helpers (for inlined_from); cycles among helpers are excluded beforehand
    ret_locals = set()
    for _round in range(depth):
        did = False
        nblocks = len(body['blocks'])
        for bi in range(nblocks):
            blk = body['blocks'][bi]
            t = blk['term']
            if blk.get('cleanup') or not t or t['k'] != 'call' or 't' not in t or t['t'] is None:
                continue
            g = eligible(prog, fn, t, helpers, stack)
            if g is None:
                continue
            off = len(body['locals'])
            boff = len(body['blocks'])
            gb = g.raw['body']
            poff = len(raw.setdefault('promoted', []))
            raw['promoted'].extend(copy.deepcopy(g.raw.get('promoted', [])))
            body['locals'].extend(copy.deepcopy(gb['locals']))
            for d_ in gb['dbg']:
                body['dbg'].append({'n': d_['n'], 'pl': _shift_place(d_['pl'], off)})
            cont = t['t']
            # continuation block: dest = move ret; goto cont
            ret_block = boff + len(gb['blocks'])
            for gbl in gb['blocks']:
                nb = {'st': _shift(gbl['st'], off, boff, poff), 'term': None}
                if gbl.get('cleanup'):
                    nb['cleanup'] = True
                gt = gbl['term']
                if gt is not None:
                    if gt['k'] == 'return':
                        nb['term'] = {'k': 'goto', 'sp': gt['sp'], 't': ret_block}
                    else:
                        nb['term'] = _retarget(_shift(gt, off, boff, poff), boff)
                body['blocks'].append(nb)
            body['blocks'].append({'st': [{'k': 'assign', 'sp': t['sp'], 'pl': t['dest'],
                                            'rv': {'k': 'use', 'op': {'k': 'move', 'pl': {'l': off}}}}],
                                   'term': {'k': 'goto', 'sp': t['sp'], 't': cont}})
            # call block: args -> params, goto callee entry
            for i, a in enumerate(t['args']):
                blk['st'].append({'k': 'assign', 'sp': t['sp'], 'pl': {'l': off + 1 + i}, 'rv': {'k': 'use', 'op': a}})
            blk['term'] = {'k': 'goto', 'sp': t['sp'], 't': boff}
            ret_locals.add(off)
            stack.add(g.p)
            did = changed = True
        if not did:
            break
    if not changed:
        return fn
    nf = Fn(raw, fn.crate)
    nf.inlined_from = sorted(stack - {fn.p})
    nf.ret_locals = frozenset(ret_locals)
    return nf
