"""P-TYPEGRAPH: strong-ownership reachability over ADT definitions."""
from .facts import last_seg

WEAK = ('alloc::rc::Weak', 'alloc::sync::Weak', 'std::rc::Weak', 'std::sync::Weak')
RC = ('alloc::rc::Rc', 'alloc::sync::Arc', 'std::rc::Rc', 'std::sync::Arc')


def walk(prog, tree, via_rc, path, out, seen):
    """Collect (target, via_rc, path) for every local ADT / dyn trait strongly reachable from `tree`."""
    k = tree['k']
    if k == 'adt':
        p = tree['p']
        if p in WEAK:
            return
        if p in RC:
            for a in tree['a']:
                walk(prog, a, True, path + ['Rc'], out, seen)
            return
        if p in prog.adts:
            out.append((p, via_rc, list(path)))
            if (p, via_rc) in seen:
                return
            seen.add((p, via_rc))
            for v in prog.adts[p]['variants']:
                for f in v['fields']:
                    walk(prog, f['tree'], via_rc, path + ['%s.%s' % (last_seg(p), f['n'])], out, seen)
            return
        # foreign container (Option, Vec, RefCell, HashMap, Box, OnceCell, ...): owns its arguments
        for a in tree['a']:
            walk(prog, a, via_rc, path + [last_seg(p)], out, seen)
    elif k in ('seq', 'tuple'):
        for a in tree['a']:
            walk(prog, a, via_rc, path, out, seen)
    elif k == 'dyn':
        for t in tree['traits']:
            out.append(('dyn:' + t, via_rc, list(path)))
    elif k in ('ref', 'ptr'):
        # borrowed / raw: not an owning edge
        return
    # prim, param, fnptr, closure, fndef: nothing owned that we track


def field_reach(prog, field):
    out = []
    walk(prog, field['tree'], False, [], out, set())
    return out
