"""Write-before-fail analysis (C09 rule 1): error exits reachable after a semantic write."""
from .cfg import cfg
from .effects import Effects
from .facts import callee, callee_short, tyname

CACHE_FIELDS = {
    'StoryState::output_stream_text_dirty', 'StoryState::output_stream_tags_dirty', 'StoryState::current_text',
    'StoryState::current_tags', 'StoryState::alive_flow_names_dirty', 'Story::prev_containers',
    # "the bindings were checked since they last changed": a function of the binding table and the fallback setting,
    # re-validated as such by C09.binding-validation-is-a-cache
    'Story::has_validated_externals',
}


def err_exits(prog, fn):
    """[(block, descriptor)] : own `Err(..)` results and `?` propagations."""
    out = []
    for bb, si, s in fn.stmts():
        if s['k'] == 'assign' and (s['pl']['l'] == 0 or s['pl']['l'] in fn.ret_locals) and 'p' not in s['pl'] \
                and s['rv']['k'] == 'agg' \
                and s['rv'].get('var') == 'Err' and 'Result' in s['rv'].get('adt', ''):
            # which error variant?
            desc = 'Err'
            op = s['rv']['ops'][0] if s['rv']['ops'] else None
            if op and op['k'] in ('copy', 'move'):
                from .defuse import du
                for df in du(fn).defs.get(op['pl']['l'], []):
                    if df['kind'] == 'assign' and df['rv']['k'] == 'agg' and df['rv'].get('ak') == 'adt':
                        desc = 'Err(%s::%s)' % (tyname(df['rv']['adt']), df['rv']['var'])
            out.append((bb, desc, None))
    for bb, t in fn.calls():
        if callee_short(t).endswith('::from_residual') and t['dest'].get('l') == 0 and 'p' not in t['dest']:
            # find the call whose result is being propagated: walk back through branch() to the producing call
            src = producing_call(fn, t)
            if src is not None and src[1] is INLINED_RESULT:
                continue
            out.append((bb, '?' + (callee_short(src[1]) if src else 'unknown'), src))
    # `fn f(..) -> Result { ...; g(..) }` : the callee's Err is this function's Err (no `?`, no Err(..) aggregate)
    if fn.body['locals'][0]['ty'].startswith('core::result::Result<'):
        ADAPT = ('map_err', 'ok_or', 'ok_or_else', 'map', 'and_then', 'or_else', 'or')
        for bb, t in fn.calls():
            dl = t['dest'].get('l')
            if 'p' in t['dest'] or not (dl == 0 or dl in fn.ret_locals):
                continue
            cs = callee_short(t)
            if cs.endswith('::from_residual') or cs.endswith('::from_output'):
                continue
            src = (bb, t)
            if cs.rsplit('::', 1)[-1] in ADAPT and cs.split('::')[0] in ('Result', 'Option'):
                src = producing_call(fn, t)
                if src is not None and src[1] is INLINED_RESULT:
                    continue
            out.append((bb, '?' + (callee_short(src[1]) if src else 'unknown'), src))
    return out


def producing_call(fn, resid_term):
    """The call terminator whose Result the `?` at resid_term propagates: from_residual(arg) <- ControlFlow::Break.0
    <- Try::branch(x) <- call."""
    from .defuse import du
    d = du(fn)
    seen = set()
    work = [a['pl']['l'] for a in resid_term['args'] if a['k'] in ('copy', 'move')]
    while work:
        l = work.pop()
        if l in seen:
            continue
        seen.add(l)
        for df in d.defs.get(l, []):
            if df['kind'] in ('assign', 'partial'):
                rv = df['rv']
                for k in ('op', 'a', 'b'):
                    o = rv.get(k)
                    if isinstance(o, dict) and o.get('k') in ('copy', 'move'):
                        work.append(o['pl']['l'])
                if 'pl' in rv:
                    work.append(rv['pl']['l'])
            elif df['kind'] in ('call', 'partial_call'):
                t = df['term']
                cs = callee_short(t)
                if cs.endswith('::branch') or cs.endswith('map_err') or cs.endswith('ok_or') or cs.endswith('ok_or_else') \
                        or cs.endswith('::from_residual'):
                    for a in t['args']:
                        if a['k'] in ('copy', 'move'):
                            work.append(a['pl']['l'])
                else:
                    return (df['bb'], t)
    if seen & set(fn.ret_locals):
        # the result of a helper that has been spliced in: its own Err(..) exits are listed where they are generated
        return (-1, INLINED_RESULT)
    return None


INLINED_RESULT = {'k': 'call', 'f': {'res': 'inlined::helper_result', 'def': 'inlined::helper_result'}, 'args': [],
                  'dest': {'l': -1}, 'sp': {'f': '', 'l': 0}}


def path_evading(prog, fn, w, required, tracer=None, via=None):
    """A path from the entry of fn (through block `via`, when given) to block w that touches none of the blocks
    `required`, or None when every such path passes one of them ("the validator precedes the write on every path").
    In a function as rustc built it this is plain CFG reachability, i.e. dominance.  In a function that has absorbed
    helpers (fn.ret_locals) the block graph also holds paths that no run takes: the `Err(..)` a spliced helper builds
    before its validator joins the helper's `Ok` at the helper's return place and would flow on into the Continue edge
    of the caller's `?`.  There the path must be feasible under GuardFlow's variant tracking (Ok/Err of the spliced
    return places through copies, `branch`, `from_residual`)."""
    g = cfg(fn)
    req = set(required)
    starts = [0] if via is None else [via]
    p = g.path(starts, lambda b: b == w, avoid=req)
    if p is None or not getattr(fn, 'ret_locals', None) or w in starts:
        return p
    cache = prog.__dict__.setdefault('_path_evading_flows', {})
    gf = cache.get(fn.p)
    if gf is None or gf.fn is not fn:
        from .guards import GuardFlow
        gf = cache[fn.p] = GuardFlow(prog, fn, lambda desc: None, tracer=tracer)
    return gf.feasible_path(starts, lambda b: b == w, avoid=req)


def precede_on_every_path(prog, fn, vblocks, w, tracer=None):
    """One of the blocks `vblocks` is passed on every (feasible, see path_evading) path from the entry to block w."""
    return bool(vblocks) and path_evading(prog, fn, w, vblocks, tracer) is None


class WriteBeforeFail:
    def __init__(self, prog, tracer=None):
        self.prog = prog
        self.eff = Effects(prog, cache_fields=CACHE_FIELDS, tracer=tracer)

    def write_blocks(self, fn):
        """block -> (descriptor, fields) for blocks containing a semantic write event."""
        out = {}
        for e in self.eff.events(fn):
            fields = self.eff.event_fields(fn, e)
            if not fields:
                continue
            desc = e['what']
            out.setdefault(e['bb'], []).append((desc, sorted(fields)))
        # closures created in fn run when called by adapters; treat their writes as happening at creation... they are
        # callees of the parent: include as events at the block of the call that receives them
        for bb, t in fn.calls():
            for cl in t['f'].get('closures') or []:
                cf = self.prog.fns.get(cl)
                if cf is not None:
                    w = self.eff.summaries()[cf.p][0] - CACHE_FIELDS
                    if w:
                        out.setdefault(bb, []).append(('closure ' + cf.short, sorted(w)))
        return out

    def analyse(self, fn):
        """-> list of findings {exit_block, exit, writes:[(block, desc, fields)]}"""
        g = cfg(fn)
        wb = self.write_blocks(fn)
        res = []
        for bb, desc, src in err_exits(self.prog, fn):
            before = []
            for w, evs in wb.items():
                if src is not None and w == src[0]:
                    continue        # the failing call itself: its own writes are its own obligation
                if bb in g.reachable([w]) and w != bb:
                    # the write must be able to precede the exit: exit reachable from the write block
                    before.append((w, evs))
            res.append({'exit_block': bb, 'exit': desc, 'src': src, 'writes': before})
        return res
