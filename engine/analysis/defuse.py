"""P-DEFUSE: intra-procedural provenance of operands, with getter summaries.

`prov(prog, fn, operand)` returns a set of atoms:
  field:<Adt>::<name>     a field projection the value passes through
  arg:<n>                 parameter n (1-based MIR local)
  upvar:<name>            captured variable of a closure
  const:<text>            literal constant
  call:<callee short>     result of a call that is not transparent (tracing stops there)
  via:<callee short>      transparent call passed through (deref, clone, unwrap, getters...)
  op:<BinOp/UnOp>         arithmetic / comparison on the way
  agg:<Adt>::<Variant>    built by an aggregate
  cast:<kind>
"""
from .facts import short, callee_short, callee, tyname

# calls that merely forward (part of) their first argument
TRANSPARENT_NAMES = {
    'deref', 'deref_mut', 'borrow', 'borrow_mut', 'as_ref', 'as_mut', 'as_str', 'as_slice', 'as_deref',
    'as_deref_mut', 'as_mut_slice', 'as_bytes', 'as_any', 'as_any_mut',
    'unwrap', 'expect', 'unwrap_or_default', 'unwrap_unchecked', 'cloned', 'copied', 'clone', 'to_owned',
    'to_string', 'into', 'from', 'to_vec', 'iter', 'iter_mut', 'into_iter', 'get_mut', 'try_borrow',
    'try_borrow_mut', 'ok', 'branch', 'from_residual', 'from_output', 'into_inner', 'by_ref', 'as_ptr', 'upgrade',
    'downgrade', 'try_into', 'try_from', 'trim', 'trim_start', 'trim_end', 'to_lowercase', 'to_uppercase', 'rev',
    'chars', 'bytes', 'peekable', 'enumerate', 'skip', 'take', 'get', 'first', 'last', 'first_mut', 'last_mut',
    'index', 'index_mut', 'unwrap_or', 'ok_or', 'ok_or_else', 'map_err', 'downcast_ref', 'downcast', 'new_display',
    'new_debug', 'unsize', 'must_use', 'next', 'next_back', 'peek',
}
TRANSPARENT_TYPES = ('Option', 'Result', 'Rc', 'Weak', 'RefCell', 'Ref', 'RefMut', 'Vec', 'String', 'str', 'Box',
                     'Cell', 'OnceCell', '[T]', 'Cow', 'Iter', 'IterMut', 'Arc', 'hint', 'Argument', 'ControlFlow',
                     'HashMap', 'HashSet', 'BTreeMap', 'BTreeSet', 'VecDeque')


def default_transparent(cs):
    """cs: short callee name like `Option::unwrap` or `<Rc as Deref>::deref`."""
    name = cs.rsplit('::', 1)[-1]
    if name not in TRANSPARENT_NAMES:
        return False
    head = cs.rsplit('::', 1)[0] if '::' in cs else ''
    if head.startswith('<'):
        # trait method: <X as Trait>::name
        return True
    h = head.rsplit('::', 1)[-1]
    return h in TRANSPARENT_TYPES or h.startswith('&')


def wrapper_new(cs):
    """`RefCell::new(x)`, `Rc::new(x)`, `Box::new(x)`, `Cell::new(x)`: the value is merely wrapped."""
    return cs in ('RefCell::new', 'Rc::new', 'Arc::new', 'Box::new', 'Cell::new', 'Option::Some')


import re
INT_METHOD = re.compile(r'^(i8|i16|i32|i64|i128|isize|u8|u16|u32|u64|u128|usize)::'
                        r'((wrapping|checked|saturating|overflowing|strict)_\w+|abs|pow|rem_euclid|div_euclid|min|max|'
                        r'signum|unsigned_abs|abs_diff|clamp)$')


class DefUse:
    def __init__(self, fn):
        self.fn = fn
        self.argc = fn.body['argc']
        self.defs = {}
        for bb, si, s in fn.stmts():
            if s['k'] != 'assign':
                continue
            pl = s['pl']
            if 'p' not in pl:
                kind = 'assign'
            elif any(pe['k'] == 'deref' for pe in pl['p']):
                kind = 'store'      # write through a reference: does not change what the local *is*
            else:
                kind = 'partial'    # field of a local aggregate
            self.defs.setdefault(pl['l'], []).append({'kind': kind, 'bb': bb, 'si': si, 'rv': s['rv'], 'pl': pl})
        for bb, t in fn.terms():
            if t['k'] == 'call':
                pl = t['dest']
                if 'p' not in pl:
                    kind = 'call'
                elif any(pe['k'] == 'deref' for pe in pl['p']):
                    kind = 'store_call'
                else:
                    kind = 'partial_call'
                self.defs.setdefault(pl['l'], []).append({'kind': kind, 'bb': bb, 'term': t, 'pl': pl})

    def single_def(self, l):
        ds = [d for d in self.defs.get(l, []) if d['kind'] in ('assign', 'call')]
        return ds[0] if len(ds) == 1 else None


def du(fn):
    if fn._du is None:
        fn._du = DefUse(fn)
    return fn._du


class Tracer:
    def __init__(self, prog, transparent=default_transparent, use_summaries=True, extra_transparent=()):
        self.prog = prog
        self.transparent = transparent
        self.extra = set(extra_transparent)
        self.use_summaries = use_summaries
        self._summ = {}
        self._in_progress = set()

    # ---- getter summaries -------------------------------------------------
    def summary(self, callee_path):
        """If the callee's return value derives only from fields of its parameters
        (a getter), return (set of arg indices, set of atoms); else None."""
        if not self.use_summaries:
            return None
        if callee_path in self._summ:
            return self._summ[callee_path]
        fn = self.prog.fns.get(callee_path)
        if fn is None or callee_path in self._in_progress:
            return None
        if len(fn.blocks) > 12:
            self._summ[callee_path] = None
            return None
        self._in_progress.add(callee_path)
        try:
            atoms = self.prov_local(fn, 0)
        finally:
            self._in_progress.discard(callee_path)
        args = {int(a.split(':')[1]) for a in atoms if a.startswith('arg:')}
        stops = [a for a in atoms if a.startswith(('call:', 'agg:', 'op:', 'const:', 'other', 'upvar:'))]
        res = None
        if args and not stops:
            res = (args, {a for a in atoms if a.startswith(('field:', 'via:'))})
        self._summ[callee_path] = res
        return res

    # ---- tracing ------------------------------------------------------------
    def prov(self, fn, operand):
        out = set()
        self._operand(fn, operand, set(), out)
        return out

    def prov_place(self, fn, place):
        out = set()
        self._place(fn, place, set(), out)
        return out

    def prov_local(self, fn, l):
        out = set()
        self._local(fn, l, set(), out)
        return out

    def _operand(self, fn, o, seen, out):
        k = o['k']
        if k in ('copy', 'move'):
            self._place(fn, o['pl'], seen, out)
        elif k == 'const':
            if 'str' in o:
                out.add('const:' + o['str'])
            elif 'bytes' in o:
                out.add('const:bytes')
            elif 'int' in o:
                out.add('const:%s' % o['int'])
            elif 'bool' in o:
                out.add('const:%s' % ('true' if o['bool'] else 'false'))
            elif 'fn' in o:
                out.add('const:fn:' + short(o['fn']))
            elif 'promoted' in o:
                # look inside the promoted body for constants
                pi = o['promoted']
                if pi < len(fn.promoted):
                    for c in promoted_consts(fn.promoted[pi]):
                        out.add('const:' + c)
                out.add('const:promoted')
            elif 'item' in o:
                out.add('const:item:' + short(o['item']))
            elif 'float' in o:
                out.add('const:' + o['float'])
            else:
                out.add('const:?')
        else:
            out.add('other')

    def _place(self, fn, pl, seen, out):
        # field i of a local built by a single aggregate: follow only that component
        proj = pl.get('p', [])
        if proj and proj[0]['k'] == 'field':
            df = du(fn).single_def(pl['l'])
            if df is not None and df['kind'] == 'assign' and df['rv']['k'] == 'agg' \
                    and df['rv'].get('ak') in ('tuple', 'adt', 'array', 'closure') \
                    and not any(d['kind'] in ('partial', 'partial_call') for d in du(fn).defs.get(pl['l'], [])):
                ops = df['rv']['ops']
                i = proj[0]['i']
                if i < len(ops) and (df['rv'].get('ak') != 'adt' or len(ops) > 0):
                    pe = proj[0]
                    if 'adt' in pe and 'n' in pe:
                        nm = tyname(pe['adt'])
                        out.add('field:%s::%s' % (nm, (pe['var'] + '.' + pe['n']) if 'var' in pe else pe['n']))
                    o = ops[i]
                    rest = proj[1:]
                    if o['k'] in ('copy', 'move'):
                        npl = {'l': o['pl']['l'], 'p': list(o['pl'].get('p', [])) + rest}
                        if not npl['p']:
                            del npl['p']
                        self._place(fn, npl, seen, out)
                    else:
                        self._operand(fn, o, seen, out)
                    return
            # several definitions, every one of them a whole tuple (`match x { A => (true, r), B => (false, t) }`):
            # follow that component of each
            defs_ = du(fn).defs.get(pl['l'], [])
            if df is None and len(defs_) > 1 and 'adt' not in proj[0] and all(
                    d['kind'] == 'assign' and d['rv']['k'] == 'agg' and d['rv'].get('ak') == 'tuple'
                    and proj[0]['i'] < len(d['rv']['ops']) for d in defs_):
                rest = proj[1:]
                for d in defs_:
                    o = d['rv']['ops'][proj[0]['i']]
                    if o['k'] in ('copy', 'move'):
                        npl = {'l': o['pl']['l'], 'p': list(o['pl'].get('p', [])) + rest}
                        if not npl['p']:
                            del npl['p']
                        self._place(fn, npl, seen, out)
                    else:
                        self._operand(fn, o, seen, out)
                return
        for pe in pl.get('p', []):
            if pe['k'] == 'field':
                if 'adt' in pe and 'n' in pe:
                    nm = tyname(pe['adt'])
                    if 'var' in pe:
                        out.add('field:%s::%s.%s' % (nm, pe['var'], pe['n']))
                    else:
                        out.add('field:%s::%s' % (nm, pe['n']))
                elif 'closure' in pe:
                    out.add('upvar:%s' % pe.get('n', pe['i']))
            elif pe['k'] == 'index':
                out.add('indexed')
        self._local(fn, pl['l'], seen, out, access=_access(pl))

    def _local(self, fn, l, seen, out, access=None):
        if l in seen:
            return
        seen.add(l)
        d = du(fn)
        if 1 <= l <= d.argc:
            if fn.kind == 'closure' and l == 1:
                out.add('closure_env')
            else:
                out.add('arg:%d' % l)
        for df in d.defs.get(l, []):
            if df['kind'] in ('partial', 'partial_call') and access is not None \
                    and not _compatible(_access(df['pl']), access):
                continue    # a different field of the local aggregate was written
            if df['kind'] in ('assign', 'partial'):
                self._rvalue(fn, df['rv'], seen, out)
            elif df['kind'] in ('call', 'partial_call'):
                self._call(fn, df['term'], seen, out)

    def _rvalue(self, fn, rv, seen, out):
        k = rv['k']
        if k in ('use', 'repeat'):
            self._operand(fn, rv['op'], seen, out)
        elif k in ('ref', 'rawptr'):
            self._place(fn, rv['pl'], seen, out)
        elif k == 'cast':
            ck = rv['ck']
            if not ck.startswith('PointerCoercion') and ck not in ('PtrToPtr', 'Transmute', 'Subtype'):
                out.add('cast:' + ck)
            self._operand(fn, rv['op'], seen, out)
        elif k == 'binop':
            out.add('op:' + rv['op'])
            self._operand(fn, rv['a'], seen, out)
            self._operand(fn, rv['b'], seen, out)
        elif k == 'unop':
            out.add('op:' + rv['op'])
            self._operand(fn, rv['a'], seen, out)
        elif k == 'discr':
            out.add('discr')
            self._place(fn, rv['pl'], seen, out)
        elif k == 'agg':
            if rv.get('ak') == 'adt':
                out.add('agg:%s::%s' % (tyname(rv['adt']), rv['var']))
            else:
                out.add('agg:' + rv.get('ak', '?'))
            for o in rv['ops']:
                self._operand(fn, o, seen, out)
        else:
            out.add('other')

    def _call(self, fn, t, seen, out):
        cs = callee_short(t)
        cp = callee(t)
        args = t['args']
        m = INT_METHOD.match(cs)
        if m:
            # integer arithmetic method: an operation over all its arguments
            out.add('op:' + m.group(2))
            for a in args:
                self._operand(fn, a, seen, out)
            return
        if cs in self.extra or self.transparent(cs) or wrapper_new(cs):
            out.add('via:' + cs)
            if args:
                self._operand(fn, args[0], seen, out)
            return
        sm = self.summary(cp)
        if sm is not None:
            idxs, atoms = sm
            out.add('via:' + cs)
            out.update(atoms)
            for i in idxs:
                if i - 1 < len(args):
                    self._operand(fn, args[i - 1], seen, out)
            return
        out.add('call:' + cs)


def _access(pl):
    """Field-index path of a place up to the first deref/index (what part of the local is touched)."""
    out = []
    for pe in pl.get('p', []):
        if pe['k'] == 'field':
            out.append(pe['i'])
        elif pe['k'] == 'downcast':
            out.append('v%s' % pe.get('vi'))
        else:
            break
    return tuple(out)


def _compatible(a, b):
    n = min(len(a), len(b))
    return a[:n] == b[:n]


def promoted_consts(body):
    out = []
    for b in body['blocks']:
        for s in b['st']:
            if s['k'] == 'assign':
                _collect_consts_rv(s['rv'], out)
    return out


def _collect_consts_rv(rv, out):
    def op(o):
        if o['k'] == 'const':
            if 'str' in o:
                out.append(o['str'])
            elif 'int' in o:
                out.append(str(o['int']))
    k = rv['k']
    if k in ('use', 'repeat', 'cast'):
        op(rv['op'])
    elif k == 'binop':
        op(rv['a'])
        op(rv['b'])
    elif k == 'unop':
        op(rv['a'])
    elif k == 'agg':
        for o in rv['ops']:
            op(o)


def fields_of(atoms):
    return {a[6:] for a in atoms if a.startswith('field:')}


def calls_of(atoms):
    return {a[5:] for a in atoms if a.startswith('call:')}


def consts_of(atoms):
    return {a[6:] for a in atoms if a.startswith('const:')}


def full_lineage(prog, fn, op, depth=0, _lt=None):
    """Lineage of an operand with every call looked through (first argument), extended across closure boundaries:
    a captured variable (`upvar:x`) continues with the lineage of the parent's local `x`, and a closure parameter
    continues with the receiver of the adaptor call the closure is passed to (`opt.and_then(|v| ..)`: v comes from opt;
    `it.find(|e| ..)`: e comes from it)."""
    lt = _lt or Tracer(prog, transparent=lambda cs: True, use_summaries=False)
    at = set(lt.prov(fn, op))
    if not fn.parent or depth > 3:
        return at
    par = prog.fns.get(fn.parent)
    home = getattr(prog, 'helper_home', None) or {}
    p_ = fn.parent
    while par is None and p_ in home:
        p_ = home[p_]
        par = prog.fns.get(p_)
    if par is None:
        return at
    for a in list(at):
        if a.startswith('upvar:'):
            name = a[6:].lstrip('*')
            for d_ in par.body['dbg']:
                if d_['n'] == name and 'p' not in d_['pl']:
                    at |= full_lineage(prog, par, {'k': 'copy', 'pl': {'l': d_['pl']['l']}}, depth + 1, lt)
        elif a.startswith('arg:') and int(a[4:]) >= 2:
            mark = '{closure@%s:%d:' % (fn.sp['f'], fn.sp['l'])
            for bb, t in par.calls():
                if any(x.get('k') in ('copy', 'move') and 'p' not in x['pl'] and mark in par.local_ty(x['pl']['l'])
                       for x in t['args']) and t['args']:
                    at.add('via:' + callee_short(t))
                    at |= full_lineage(prog, par, t['args'][0], depth + 1, lt)
    return at
