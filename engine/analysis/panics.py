"""P-PANIC: enumerate panic-capable constructs of a function and decide whether each is guard-dominated.

Kinds:
  assert:<kind>            MIR Assert (bounds, overflow, div_zero, rem_zero, ...)
  unwrap:<Option|Result>::<unwrap|expect|unwrap_err|...>
  panic:<message>          explicit panic!/todo!/unimplemented!/unreachable!/assert!
  index:<callee>           Index::index on Vec / slice / str / HashMap (panics when absent / out of range)
  slice:<callee>           range slicing of str / slices
  method:<callee>          Vec::remove / swap_remove / drain / split_at / String::remove / insert / ...
  borrow:<callee>          RefCell::borrow / borrow_mut (panic on conflicting borrow)
"""
import re

from .cfg import cfg
from .defuse import du, Tracer
from .facts import callee_short, callee
from .guards import resolve_cond

UNWRAPS = {'Option::unwrap', 'Option::expect', 'Result::unwrap', 'Result::expect', 'Result::unwrap_err',
           'Result::expect_err', 'Option::unwrap_unchecked'}
PANIC_FNS = re.compile(r'^(panicking::(panic|panic_fmt|panic_display|panic_explicit|unreachable_display|panic_nounwind|'
                       r'assert_failed|panic_const.*)|rt::begin_panic|rt::panic_fmt|panicking::begin_panic|'
                       r'panic_const::.*|option::expect_failed|result::unwrap_failed|option::unwrap_failed)$')
METHODS = {'Vec::remove', 'Vec::swap_remove', 'Vec::drain', 'Vec::insert', 'Vec::split_off', '[T]::split_at',
           'String::remove', 'String::insert', 'String::insert_str', 'str::split_at', 'VecDeque::remove',
           '[T]::copy_from_slice', '[T]::swap', 'Vec::truncate_panic', 'String::drain', 'String::replace_range',
           'String::truncate', 'String::split_off', 'str::split_at_mut', 'str::split_at_checked_panic',
           'char::from_digit', 'Duration::from_secs_f32', 'Rc::get_mut_unchecked', '[T]::chunks', '[T]::windows'}
BORROWS = {'RefCell::borrow', 'RefCell::borrow_mut'}


def is_index_call(t):
    cs = callee_short(t)
    tr = t['f'].get('trait', '') or ''
    if tr.endswith('ops::index::Index') or tr.endswith('ops::index::IndexMut'):
        return cs
    return None


def sites(prog, fn, include_borrows=False, include_macro=False):
    out = []
    for bb, t in fn.terms():
        sp = t['sp']
        mac = sp.get('mac')
        if t['k'] == 'assert':
            kind = 'assert:' + t.get('ak', '?') + ((':' + t['op']) if t.get('op') else '')
            out.append({'bb': bb, 'kind': kind, 'term': t, 'mac': mac})
        elif t['k'] == 'call':
            cs = callee_short(t)
            if cs in UNWRAPS:
                out.append({'bb': bb, 'kind': 'unwrap:' + cs, 'term': t, 'mac': mac})
            elif PANIC_FNS.match(cs):
                msg = ''
                for a in t['args']:
                    if a['k'] == 'const' and 'str' in a:
                        msg = a['str'][:40]
                out.append({'bb': bb, 'kind': 'panic:' + (mac or cs) + ((':' + msg) if msg else ''), 'term': t, 'mac': mac})
            elif is_index_call(t):
                st = t['f'].get('self', '') or ''
                if st.lstrip('&').replace('mut ', '').startswith('serde_json::value::Value') \
                        and 'IndexMut' not in (t['f'].get('trait') or ''):
                    continue     # serde_json's immutable Index on a Value yields Null instead of panicking
                                 # (on a serde_json::Map - whose type mentions Value as a parameter - it panics)
                k = 'slice:' if re.search(r'Range', ' '.join(t['f'].get('targs', []))) else 'index:'
                out.append({'bb': bb, 'kind': k + cs, 'term': t, 'mac': mac})
            elif cs in METHODS:
                out.append({'bb': bb, 'kind': 'method:' + cs, 'term': t, 'mac': mac})
            elif include_borrows and cs in BORROWS:
                out.append({'bb': bb, 'kind': 'borrow:' + cs, 'term': t, 'mac': mac})
    if not include_macro:
        out = [s for s in out if not (s['mac'] in ('format', 'write', 'writeln', 'json', 'println', 'print', 'eprintln',
                                                    'format_args', 'vec') and not s['kind'].startswith('panic:'))]
    return out


def guard_dominated(prog, fn, site, tracer):
    """Is an unwrap/expect site dominated by the success edge of a test on the same root?
    Recognises `if x.is_some() { x.unwrap() }`, `if x.is_none() { return } ... x.unwrap()`,
    `if x.is_err() { return Err } x.unwrap()`, and match / if-let on the same place."""
    t = site['term']
    if not site['kind'].startswith('unwrap:') or not t['args']:
        return None
    g = cfg(fn)
    want_pos = not site['kind'].endswith(('unwrap_err', 'expect_err'))
    kind = 'is_some' if 'Option' in site['kind'] else 'is_ok'
    recv = frozenset(a for a in tracer.prov(fn, t['args'][0]) if not a.startswith('via:'))
    if not recv:
        return None
    dom = g.dominators()
    if site['bb'] not in dom:
        return None
    for b in dom[site['bb']]:
        tt = fn.blocks[b]['term']
        if not tt or tt['k'] != 'switch':
            continue
        c = resolve_cond(prog, fn, tt['d'], tracer)
        if c is None or c.desc[0] != kind:
            continue
        tested = frozenset(a for a in c.desc[1] if not a.startswith('via:'))
        if not tested or not (tested <= recv or recv <= tested):
            continue
        # which successor(s) correspond to the positive outcome?
        vals = [v for v, _ in tt['ts']]
        good, bad = [], []
        for v, tb in tt['ts']:
            (good if c.truth_of_value(v) == want_pos else bad).append(tb)
        rest = {0, 1} - set(vals)
        if len(rest) == 1:
            (good if c.truth_of_value(rest.pop()) == want_pos else bad).append(tt['else'])
        # the site must be reachable only via a good edge: removing good targets' edges from b makes it unreachable
        if not good:
            continue
        reach_bad = g.reachable([x for x in bad if x not in good], avoid=[b])   # b dominates the site: a path that
        # comes back to b (loop) is tested again
        if site['bb'] not in reach_bad:
            return {'guard_block': b, 'guard': '%s on %s' % (kind, sorted(tested)[:3])}
    return None


def guarded_by_reassignment(prog, fn, site, tracer):
    """`if x.is_none() { x = Some(..) } ... x.unwrap()`: every path from entry to the unwrap passes through an assignment
    of Some(..) to the unwrapped local, or through the is-some side of a test on that very local."""
    t = site['term']
    if not site['kind'].startswith('unwrap:Option') or not t['args']:
        return None
    d = du(fn)
    g = cfg(fn)
    # the local that is unwrapped: follow moves / refs back to a local with several definitions
    l = None
    o = t['args'][0]
    seen = set()
    while o.get('k') in ('copy', 'move') and 'p' not in o['pl'] and o['pl']['l'] not in seen:
        seen.add(o['pl']['l'])
        defs = [x for x in d.defs.get(o['pl']['l'], []) if x['kind'] in ('assign', 'call')]
        if len(defs) != 1:
            l = o['pl']['l']
            break
        df = defs[0]
        if df['kind'] == 'assign' and df['rv']['k'] == 'use':
            o = df['rv']['op']
        elif df['kind'] == 'assign' and df['rv']['k'] == 'ref' and 'p' not in df['rv']['pl']:
            o = {'k': 'copy', 'pl': df['rv']['pl']}
        elif df['kind'] == 'call' and callee_short(df['term']).rsplit('::', 1)[-1] in ('as_ref', 'as_mut', 'take', 'clone') \
                and df['term']['args']:
            o = df['term']['args'][0]
        else:
            l = o['pl']['l']
            break
    if l is None:
        return None
    defs = [x for x in d.defs.get(l, []) if x['kind'] in ('assign', 'call')]
    def is_some_def(x):
        if x['kind'] != 'assign':
            return False
        rv = x['rv']
        if rv['k'] == 'agg' and rv.get('var') == 'Some':
            return True
        if rv['k'] == 'use' and rv['op'].get('k') in ('copy', 'move') and 'p' not in rv['op']['pl']:
            d2 = d.single_def(rv['op']['pl']['l'])
            return bool(d2 and d2['kind'] == 'assign' and d2['rv']['k'] == 'agg' and d2['rv'].get('var') == 'Some')
        return False
    some_blocks = [x['bb'] for x in defs if is_some_def(x)]
    if not some_blocks:
        return None
    good = []
    for b in range(len(fn.blocks)):
        tt = fn.blocks[b]['term']
        if not tt or tt['k'] != 'switch':
            continue
        c = resolve_cond(prog, fn, tt['d'], tracer)
        if c is None or c.desc[0] != 'is_some':
            continue
        # is the tested value this local?  (the discriminant read / is_some call takes a reference to it)
        src = tt['d']
        tested_local = None
        df = d.single_def(src['pl']['l']) if src.get('k') in ('copy', 'move') and 'p' not in src['pl'] else None
        if df and df['kind'] == 'call' and df['term']['args']:
            a0 = df['term']['args'][0]
            df2 = d.single_def(a0['pl']['l']) if a0.get('k') in ('copy', 'move') and 'p' not in a0['pl'] else None
            if df2 and df2['kind'] == 'assign' and df2['rv']['k'] == 'ref' and 'p' not in df2['rv']['pl']:
                tested_local = df2['rv']['pl']['l']
        elif df and df['kind'] == 'assign' and df['rv']['k'] == 'discr' and 'p' not in df['rv']['pl']:
            tested_local = df['rv']['pl']['l']
        if tested_local != l:
            continue
        vals = [v for v, _ in tt['ts']]
        for v, tb in tt['ts']:
            if c.truth_of_value(v):
                good.append(tb)
        rest = {0, 1} - set(vals)
        if len(rest) == 1 and c.truth_of_value(rest.pop()):
            good.append(tt['else'])
    w = g.path([0], lambda b: b == site['bb'], avoid=some_blocks + good)
    if w is None and site['bb'] not in some_blocks:
        return {'guard': 'assigned Some(..) (blocks %s) or tested is_some on every path' % sorted(set(some_blocks))}
    return None
