"""P-FIELDCOV: which fields of an ADT a set of functions reads / writes (through a value of that type)."""
from .facts import tyname, callee, callee_short
from .defuse import Tracer
from .effects import place_ty


def _places_read(s):
    rv = s['rv']
    out = []
    for k in ('op', 'a', 'b'):
        o = rv.get(k)
        if isinstance(o, dict) and o.get('k') in ('copy', 'move'):
            out.append(o['pl'])
    if 'pl' in rv:
        out.append(rv['pl'])
    for o in rv.get('ops', []):
        if o.get('k') in ('copy', 'move'):
            out.append(o['pl'])
    return out


def fields_in_place(pl, adt_short):
    return [pe['n'] for pe in pl.get('p', []) if pe['k'] == 'field' and 'adt' in pe and tyname(pe['adt']) == adt_short
            and 'n' in pe]


def fields_read(prog, fns, adt_short, depth=1, tr=None):
    """Fields of `adt_short` appearing in read position in fns (+closures), plus, to `depth`, in repository
    callees that are methods of that type (getters)."""
    seen = set()
    out = {}
    work = [(f, 0) for f in fns]
    while work:
        f, d = work.pop()
        if f.p in seen:
            continue
        seen.add(f.p)
        for g in [f] + prog.closures_of(f):
            for bb, si, s in g.stmts():
                if s['k'] != 'assign':
                    continue
                for pl in _places_read(s):
                    for n in fields_in_place(pl, adt_short):
                        out.setdefault(n, g.loc(bb, si))
                # a read through a longer destination path (x.f.g = ..) reads x.f
                dst = s['pl']
                fl = [pe for pe in dst.get('p', []) if pe['k'] == 'field']
                for pe in fl[:-1]:
                    if 'adt' in pe and tyname(pe['adt']) == adt_short and 'n' in pe:
                        out.setdefault(pe['n'], g.loc(bb, si))
            for bb, t in g.terms():
                if t['k'] == 'call':
                    for a in t['args']:
                        if a['k'] in ('copy', 'move'):
                            for n in fields_in_place(a['pl'], adt_short):
                                out.setdefault(n, g.loc(bb))
                    h = prog.fns.get(callee(t))
                    if h is not None and d < depth and tyname(h.self_adt or '') == adt_short:
                        work.append((h, d + 1))
                elif t['k'] == 'switch' and t['d']['k'] in ('copy', 'move'):
                    for n in fields_in_place(t['d']['pl'], adt_short):
                        out.setdefault(n, g.loc(bb))
    return out


def fields_written(prog, fns, adt_short, depth=1, tr=None):
    """Fields assigned (as last projection) or initialised by an aggregate of the type; for constructors called
    from fns, only fields whose initialiser derives from a parameter count as written-from-input."""
    tr = tr or Tracer(prog)
    out = {}
    defaulted = {}
    seen = set()
    work = [(f, 0) for f in fns]
    while work:
        f, d = work.pop()
        if f.p in seen:
            continue
        seen.add(f.p)
        for g in [f] + prog.closures_of(f):
            for bb, si, s in g.stmts():
                if s['k'] != 'assign':
                    continue
                fl = [pe for pe in s['pl'].get('p', []) if pe['k'] == 'field']
                if fl and 'adt' in fl[-1] and tyname(fl[-1]['adt']) == adt_short and 'n' in fl[-1]:
                    out.setdefault(fl[-1]['n'], g.loc(bb, si))
                rv = s['rv']
                if rv['k'] == 'agg' and rv.get('ak') == 'adt' and tyname(rv['adt']) == adt_short:
                    for fname, o in zip(rv['fields'], rv['ops']):
                        atoms = tr.prov(g, o)
                        if d > 0 and not any(a.startswith(('arg:', 'upvar:')) for a in atoms):
                            defaulted.setdefault(fname, g.loc(bb, si))
                        else:
                            out.setdefault(fname, g.loc(bb, si))
            for bb, t in g.calls():
                cs = callee_short(t)
                name = cs.rsplit('::', 1)[-1]
                h = prog.fns.get(callee(t))
                # a `&mut` (or an interior-mutability handle) derived from a field of the type is handed to a callee
                for a in t['args']:
                    if a['k'] not in ('copy', 'move'):
                        continue
                    aty = place_ty(g, a['pl'])
                    interior = name in ('replace', 'set', 'swap', 'take', 'borrow_mut') and \
                        cs.split('::')[0] in ('RefCell', 'Cell', 'OnceCell')
                    if not (aty.startswith('&mut ') or interior):
                        continue
                    atoms = tr.prov(g, a)
                    for at in atoms:
                        if at.startswith('field:' + adt_short + '::'):
                            out.setdefault(at.split('::', 1)[1], g.loc(bb))
                if h is not None and d < depth and tyname(h.self_adt or '') == adt_short:
                    work.append((h, d + 1))
    for k in list(defaulted):
        if k in out:
            del defaulted[k]
    return out, defaulted
