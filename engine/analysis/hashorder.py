"""P-HASHORDER: classify every iteration over a HashMap/HashSet by what the per-element work can make observable.

A site is a call that starts iteration over a hash collection. From the site a forward taint follows the iterator
through adapters to its consumer(s); the per-element work is (a) the natural loop around `Iterator::next`,
(b) the closure handed to an adapter / consumer, (c) the consumer itself.  Each effect of that work is a *sink*:

  order-free sinks   map/set insert/remove/lookup, integer accumulation, constant flag assignment,
                     constant-valued early return (any/all shape), `?`, writes confined to the element
  order-sensitive    pushing/appending to Vec/String/Formatter, assigning element data to a variable that is
                     live after the loop or returned, first-match / extreme consumers (find, position, max_by...),
                     next() outside a loop (first element), join/fold, dyn callbacks, unknown &mut calls

`classify(prog)` returns one record per site: key, verdict ('order-free' | 'sorted' | 'order-sensitive'),
and the signature = sorted tuple of sink descriptors (line-number free).
"""
from .cfg import cfg
from .defuse import du, Tracer
from .facts import callee, callee_short, tyname, is_dyn_call, short
from .effects import place_ty

HASH_TYPES = ('hash::map::HashMap', 'hash::set::HashSet')
STARTS = {'iter', 'iter_mut', 'keys', 'values', 'values_mut', 'into_iter', 'drain', 'into_keys', 'into_values',
          'retain', 'extract_if', 'difference', 'intersection', 'union', 'symmetric_difference'}
ADAPTERS = {'map', 'filter', 'filter_map', 'cloned', 'copied', 'enumerate', 'rev', 'zip', 'chain', 'skip', 'take',
            'peekable', 'by_ref', 'into_iter', 'iter', 'flat_map', 'flatten', 'inspect', 'map_while', 'take_while',
            'skip_while', 'step_by', 'fuse', 'unwrap', 'expect', 'deref', 'deref_mut', 'borrow', 'borrow_mut',
            'as_mut', 'as_ref', 'clone', 'into', 'from'}
# plain max/min use the element type's total `Ord`: elements that tie are equal, hence indistinguishable
ORDER_FREE_CONSUMERS = {'count', 'all', 'any', 'sum', 'product', 'is_empty', 'len', 'size_hint', 'max', 'min'}
ORDER_SENS_CONSUMERS = {'find', 'find_map', 'position', 'rposition', 'max_by', 'max_by_key', 'min_by', 'min_by_key',
                        'last', 'nth', 'fold', 'try_fold', 'reduce', 'join', 'unzip', 'partition', 'cmp', 'partial_cmp',
                        'eq', 'ne', 'lt', 'le', 'gt', 'ge', 'concat', 'try_for_each'}
MAP_TYPES = ('HashMap', 'HashSet', 'BTreeMap', 'BTreeSet', 'Map', 'IndexMap', 'IndexSet')
SEQ_TYPES = ('Vec', 'String', 'VecDeque', 'Formatter', 'str', '[T]', 'LinkedList', 'BinaryHeap')
PLUMBING = {'next', 'into_iter', 'iter', 'iter_mut', 'deref', 'deref_mut', 'borrow', 'borrow_mut', 'as_ref', 'as_mut',
            'clone', 'unwrap', 'expect', 'branch', 'from_residual', 'from_output', 'as_str', 'to_string', 'to_owned',
            'eq', 'ne', 'cmp', 'partial_cmp', 'lt', 'le', 'gt', 'ge', 'hash', 'fmt', 'new_display', 'new_debug',
            'new', 'format', 'must_use', 'into', 'from', 'as_any', 'len', 'is_empty', 'contains_key', 'contains',
            'get', 'get_mut', 'keys', 'values', 'size_hint', 'drop', 'default', 'upgrade', 'downgrade', 'is_some',
            'is_none', 'ok_or', 'map_err', 'cloned', 'copied', 'try_into', 'try_from', 'downcast_ref', 'peek',
            'values_mut', 'position', 'map', 'and_then', 'unwrap_or', 'index'}
SORTS = {'sort', 'sort_by', 'sort_by_key', 'sort_unstable', 'sort_unstable_by', 'sort_unstable_by_key',
         'sort_by_cached_key'}


def self_type_of_call(t):
    return t['f'].get('self', '') or ''


def is_hash_start(t):
    cs = callee_short(t)
    name = cs.rsplit('::', 1)[-1]
    st = self_type_of_call(t)
    return name in STARTS and any(h in st for h in HASH_TYPES)


def head_of(cs):
    h = cs.rsplit('::', 1)[0] if '::' in cs else ''
    if h.startswith('<'):
        h = h[1:].split(' as ')[0]
    return h.lstrip('&').replace('mut ', '')


class SiteAnalysis:
    def __init__(self, prog, fn, bb, term, ordinal, tracer, depth=0):
        self.prog = prog
        self.fn = fn
        self.bb = bb
        self.term = term
        self.ordinal = ordinal
        self.tr = tracer
        self.sinks = set()
        self.sorted_by = None
        self.depth = depth

    # ---- taint ---------------------------------------------------------------
    def taint_locals(self, seed_local, follow=('adapters',)):
        """Forward closure of locals carrying the iterator itself (through moves, borrows and adapters).
        Elements produced by `next` are NOT tainted: the loop-body scan deals with them."""
        fn = self.fn
        it = {seed_local}
        changed = True
        while changed:
            changed = False
            for bb, si, s in fn.stmts():
                if s['k'] != 'assign' or 'p' in s['pl']:
                    continue
                dst = s['pl']['l']
                rv = s['rv']
                src = None
                if rv['k'] in ('use', 'cast') and rv['op']['k'] in ('copy', 'move') and only_derefs(rv['op']['pl']):
                    src = rv['op']['pl']['l']
                elif rv['k'] in ('ref', 'rawptr') and only_derefs(rv['pl']):
                    src = rv['pl']['l']
                if src in it and dst not in it:
                    it.add(dst)
                    changed = True
            for bb, t in fn.calls():
                if not t['args']:
                    continue
                cs = callee_short(t)
                name = cs.rsplit('::', 1)[-1]
                a0 = t['args'][0]
                if a0['k'] in ('copy', 'move') and a0['pl']['l'] in it and only_derefs(a0['pl']) and 'p' not in t['dest']:
                    if name in ADAPTERS and name != 'next':
                        if t['dest']['l'] not in it:
                            it.add(t['dest']['l'])
                            changed = True
        return it

    # ---- analysis -----------------------------------------------------------
    def run(self):
        fn, t = self.fn, self.term
        cs = callee_short(t)
        name = cs.rsplit('::', 1)[-1]
        if name == 'retain':
            self.scan_closures_of_call(t)
            return self
        if 'p' in t['dest']:
            self.sinks.add('iterator-stored-in-place')
            return self
        tainted = self.taint_locals(t['dest']['l'])
        g = cfg(fn)
        heads = g.loops_heads()
        consumed = False
        for bb, c in fn.calls():
            if not c['args']:
                continue
            ccs = callee_short(c)
            cname = ccs.rsplit('::', 1)[-1]
            args_t = [i for i, a in enumerate(c['args']) if a['k'] in ('copy', 'move') and a['pl']['l'] in tainted]
            if not args_t:
                continue
            if bb == self.bb and c is t:
                continue
            if cname == 'next' and 0 in args_t:
                consumed = True
                loop = self.innermost_loop(g, heads, bb)
                if loop is None:
                    self.sinks.add('first-element:next-outside-loop')
                else:
                    self.scan_blocks(fn, loop | self.early_exit_region(g, bb, loop), loop_mode=True)
                continue
            if cname in ADAPTERS and 0 in args_t:
                self.scan_closures_of_call(c)
                continue
            if cname == 'collect' or cname == 'from_iter':
                consumed = True
                self.scan_closures_of_call(c)
                dty = tyname(c.get('dty', ''))
                if dty.startswith('Result') or dty.startswith('Option'):
                    inner = c.get('dty', '')
                    dty = 'Vec' if 'alloc::vec::Vec' in inner else ('String' if 'string::String' in inner else dty)
                if dty in MAP_TYPES:
                    self.sinks.add('free:collect-into-' + dty)
                elif dty in SEQ_TYPES:
                    srt = self.reaches_sort(c['dest']['l'])
                    if srt and srt.endswith('(Ord)'):
                        self.sinks.add('free:collect-then-' + srt)
                    elif srt:
                        self.sinks.add('sorted:collect-into-%s-then-%s' % (dty, srt))
                    else:
                        self.sinks.add('seq:collect-into-' + dty)
                else:
                    self.sinks.add('unknown:collect-into-' + dty)
                continue
            if cname == 'for_each' and 0 in args_t:
                consumed = True
                self.scan_closures_of_call(c)
                continue
            if cname in ('extend', 'append') and 1 in args_t:
                consumed = True
                recv = tyname(place_ty(fn, c['args'][0]['pl'])).lstrip('&').replace('mut ', '') if c['args'][0]['k'] in ('copy', 'move') else ''
                hd = head_of(ccs)
                kind = hd if hd in MAP_TYPES + SEQ_TYPES else recv
                if kind in MAP_TYPES:
                    self.sinks.add('free:extend-' + kind)
                else:
                    self.sinks.add('seq:extend-' + kind)
                continue
            if cname in ORDER_FREE_CONSUMERS and 0 in args_t:
                consumed = True
                self.scan_closures_of_call(c)
                self.sinks.add('free:' + cname)
                if cname in ('any', 'all'):
                    # a short-circuiting consumer visits a hash-order dependent prefix of the elements: a closure that
                    # also *changes* the element it is shown (otherwise a write confined to the element is order-free)
                    # changes an order-dependent subset
                    MUT_ = ('retain', 'retain_mut', 'remove', 'swap_remove', 'push', 'insert', 'clear', 'drain', 'truncate',
                            'pop', 'extend', 'append', 'dedup', 'replace', 'set', 'take', 'push_str')
                    for cl in c['f'].get('closures') or []:
                        cf = self.prog.fns.get(cl)
                        if cf is None:
                            continue
                        for c2 in [cf] + self.prog.closures_of(cf):
                            for _, t2 in c2.calls():
                                if callee_short(t2).rsplit('::', 1)[-1] in MUT_ or is_dyn_call(t2):
                                    self.sinks.add('partial-traversal:%s-under-%s' % (callee_short(t2), cname))
                continue
            if cname in ORDER_SENS_CONSUMERS and 0 in args_t:
                consumed = True
                self.scan_closures_of_call(c)
                if cname in ('max_by', 'min_by', 'max_by_key', 'min_by_key'):
                    self.sinks.add('extreme:%s(%s)' % (cname, comparator_of(self.prog, c)))
                else:
                    self.sinks.add('first-or-extreme:' + cname)
                continue
            if cname in SORTS:
                continue
            if cname in PLUMBING or cname == 'drop':
                continue
            # iterator / collected sequence handed to something else
            g2 = self.prog.fns.get(callee(c))
            if g2 is not None:
                self.sinks.add('passed-to:' + ccs)
            elif is_dyn_call(c):
                self.sinks.add('dyn:' + ccs)
            else:
                self.sinks.add('unknown-consumer:' + ccs)
        # the iterator itself escapes to the caller
        if 0 in tainted:
            self.sinks.add('iterator-returned-to-caller')
        if not consumed and not self.sinks:
            self.sinks.add('unknown:no-consumer-found')
        return self

    def early_exit_region(self, g, next_bb, loop):
        """Blocks outside the natural loop that are reachable only through the `Some(element)` side of the
        `next()` test: early `return`/`break` paths that may carry element data out."""
        fn = self.fn
        # the switch on next()'s discriminant
        tb = fn.blocks[next_bb]['term'].get('t')
        if tb is None:
            return set()
        sw = fn.blocks[tb]['term']
        none_targets, some_targets = [], []
        if sw and sw['k'] == 'switch':
            for v, b in sw['ts']:
                (none_targets if v == 0 else some_targets).append(b)
            vals = [v for v, _ in sw['ts']]
            if 0 not in vals:
                none_targets.append(sw['else'])
            elif 1 not in vals:
                some_targets.append(sw['else'])
        else:
            return set()
        via_some = g.reachable(some_targets)
        via_none = g.reachable(none_targets)
        return {b for b in via_some if b not in via_none and b not in loop}

    def innermost_loop(self, g, heads, bb):
        best = None
        for h, tails in heads.items():
            body = g.loop_body(h, tails)
            if bb in body and (best is None or len(body) < len(best)):
                best = body
        return best

    def reaches_sort(self, local):
        fn = self.fn
        tainted = self.taint_locals(local)
        for bb, c in fn.calls():
            cn = callee_short(c).rsplit('::', 1)[-1]
            if cn in SORTS and c['args'] and c['args'][0]['k'] in ('copy', 'move') and c['args'][0]['pl']['l'] in tainted:
                return '%s(%s)' % (cn, comparator_of(self.prog, c))
        return None

    def scan_closures_of_call(self, c):
        for cl in c['f'].get('closures', []):
            cf = self.prog.fns.get(cl)
            if cf is not None:
                self.scan_blocks(cf, set(range(len(cf.blocks))), loop_mode=False)

    # ---- per-element work ---------------------------------------------------------
    def from_element(self, atoms):
        return any('Iterator>::next' in a for a in atoms)

    def scan_blocks(self, fn, blocks, loop_mode):
        """Scan the per-element work: `blocks` of fn (a loop body, or a whole closure)."""
        d = du(fn)
        blocks = {b for b in blocks if not fn.blocks[b].get('cleanup')}
        read_outside = set()
        if loop_mode:
            for bb, b in enumerate(fn.blocks):
                if bb in blocks or b.get('cleanup'):
                    continue
                read_outside |= locals_read_in_block(b)
            read_outside.add(0)
        self._loop_blocks = blocks if loop_mode else None
        for bb in sorted(blocks):
            b = fn.blocks[bb]
            for si, s in enumerate(b['st']):
                if s['k'] != 'assign':
                    continue
                pl = s['pl']
                rv = s['rv']
                if any(pe['k'] == 'deref' for pe in pl.get('p', [])):
                    if not self.root_is_iteration_local(fn, pl['l'], blocks, loop_mode):
                        self.sinks.add(self.classify_store(fn, pl, rv))
                elif loop_mode and pl['l'] in read_outside and not self.defined_only_inside(fn, pl['l'], blocks):
                    self.sinks.add(self.classify_out_assign(fn, pl['l'], rv))
            t = b['term']
            if t and t['k'] == 'call':
                self.classify_call(fn, bb, t, blocks, loop_mode)

    def defined_only_inside(self, fn, l, blocks):
        """Per-iteration temporary: every definition of the local lies inside the loop body and it is not a parameter."""
        if l == 0 or l <= fn.body['argc']:
            return False
        defs = du(fn).defs.get(l, [])
        return bool(defs) and all(df['bb'] in blocks for df in defs)

    def root_is_iteration_local(self, fn, l, blocks, loop_mode, depth=0):
        """Does the reference in local `l` point into a value created inside the current iteration
        (a per-element temporary), or into the element itself?"""
        atoms = self.tr.prov_local(fn, l)
        if self.from_element(atoms):
            return True
        if not loop_mode:
            # inside a per-element closure: its parameters ARE the elements; only captured state is outer
            return not any(a.startswith(('upvar:', 'closure_env')) for a in atoms)
        return self.is_iteration_temp(fn, l, blocks, set())

    def is_iteration_temp(self, fn, l, blocks, seen):
        if l in seen:
            return True
        seen.add(l)
        if l == 0 or l <= fn.body['argc']:
            return False
        defs = du(fn).defs.get(l, [])
        if not defs or not all(df['bb'] in blocks for df in defs):
            return False
        for df in defs:
            if df['kind'] == 'assign':
                rv = df['rv']
                src = None
                if rv['k'] in ('ref', 'rawptr'):
                    src = rv['pl']['l']
                elif rv['k'] in ('use', 'cast') and rv['op']['k'] in ('copy', 'move'):
                    src = rv['op']['pl']['l']
                if src is not None and src != l and not self.is_iteration_temp(fn, src, blocks, seen):
                    return False
            elif df['kind'] == 'call':
                t = df['term']
                name = callee_short(t).rsplit('::', 1)[-1]
                if name in ('deref', 'deref_mut', 'borrow', 'borrow_mut', 'as_mut', 'as_ref', 'index', 'index_mut',
                            'get_mut', 'unwrap', 'expect', 'as_mut_slice', 'as_mut_str') and t['args'] \
                        and t['args'][0]['k'] in ('copy', 'move'):
                    if not self.is_iteration_temp(fn, t['args'][0]['pl']['l'], blocks, seen):
                        return False
        return True

    def classify_out_assign(self, fn, l, rv):
        name = fn.local_name(l) or ('_%d' % l if l else 'return')
        if rv['k'] == 'use' and rv['op']['k'] == 'const':
            return 'free:flag-assign'
        if rv['k'] == 'agg' and all(o['k'] == 'const' for o in rv['ops']):
            return 'free:const-assign'
        ty = fn.local_ty(l)
        if is_int(ty) and self.is_accumulate(fn, rv):
            return 'free:int-accumulate'
        if fn.local_name(l) is None and l != 0:
            # unnamed MIR temporary that happens to be read after the loop (drop flags, moved temporaries)
            if ty == 'bool' or ty == '()':
                return 'free:temp'
        if l == 0:
            atoms = self.tr.prov(fn, rv['op']) if rv['k'] == 'use' else set()
            if atoms and all(a.startswith(('const:', 'agg:')) for a in atoms):
                return 'free:const-return'
            return 'element-data-escapes:return'
        return 'element-data-escapes:%s' % name

    def classify_store(self, fn, pl, rv):
        if rv['k'] == 'use' and rv['op']['k'] == 'const':
            return 'free:flag-store'
        ty = place_ty(fn, pl)
        if is_int(ty) and self.is_accumulate(fn, rv):
            return 'free:int-accumulate'
        atoms = self.tr.prov_place(fn, pl)
        fields = sorted(a[6:] for a in atoms if a.startswith('field:'))
        return 'store:%s' % (fields[-1] if fields else 'through-reference')

    def is_accumulate(self, fn, rv):
        if rv['k'] == 'binop':
            return True
        if rv['k'] == 'use' and rv['op']['k'] in ('copy', 'move'):
            for df in du(fn).defs.get(rv['op']['pl']['l'], []):
                if df['kind'] == 'assign' and df['rv']['k'] == 'binop':
                    return True
        return False

    def classify_call(self, fn, bb, t, blocks, loop_mode):
        cs = callee_short(t)
        name = cs.rsplit('::', 1)[-1]
        if is_dyn_call(t):
            tr_ = t['f'].get('trait', '')
            if tr_.rsplit('::', 1)[-1] in PURE_DYN_TRAITS:
                return
            self.sinks.add('dyn-callback:' + cs)
            return
        if name in ('from_residual', 'branch', 'from_output'):
            return
        if (t['f'].get('trait', '') or '').endswith('iter::traits::iterator::Iterator') or \
                (t['f'].get('trait', '') or '').endswith('iter::traits::collect::IntoIterator'):
            # an inner iterator over something else: only its closures can have effects
            self.scan_closures_of_call(t)
            return
        g = self.prog.fns.get(callee(t))
        if g is not None:
            for (ai, kind) in callee_writes(self.prog, g, self.tr):
                if ai is None:
                    self.sinks.add('%s<-%s' % (kind, cs))
                    continue
                if ai - 1 >= len(t['args']):
                    continue
                a = t['args'][ai - 1]
                if a['k'] not in ('copy', 'move'):
                    continue
                if self.root_is_iteration_local(fn, a['pl']['l'], blocks, loop_mode):
                    continue        # written data is the element itself / a per-iteration temporary
                if kind.startswith('free:'):
                    self.sinks.add(kind)
                else:
                    self.sinks.add('%s<-%s' % (kind, cs))
            return
        # foreign callee
        if cs.split('::')[0] in ('RefCell', 'Cell', 'OnceCell') and name in ('replace', 'swap', 'set', 'take', 'replace_with'):
            a = t['args'][0]
            if a['k'] in ('copy', 'move') and self.root_is_iteration_local(fn, a['pl']['l'], blocks, loop_mode):
                return
            self.sinks.add('interior-write:' + cs)
            return
        for i, a in enumerate(t['args']):
            if a['k'] not in ('copy', 'move'):
                continue
            ty = place_ty(fn, a['pl'])
            if not ty.startswith('&mut '):
                continue
            if name in PLUMBING or name in SORTS:
                continue
            if self.root_is_iteration_local(fn, a['pl']['l'], blocks, loop_mode):
                continue
            sink = classify_mutator(cs, ty)
            if sink.startswith('free:') and name in ('insert', 'entry') and len(t['args']) >= 3 - (name == 'entry') \
                    and sink.split(':')[1].split('::')[0] in ('HashMap', 'BTreeMap', 'Map', 'IndexMap'):
                kc = map_key_class(self.prog, fn, t['args'][1])
                if kc != 'elemkey':
                    sink = 'mapkey-%s:%s' % (kc.replace(' ', '_'), sink[5:])
            self.sinks.add(sink)


    # ---- verdict ---------------------------------------------------------------------
    def verdict(self):
        nonfree = [s for s in self.sinks if not s.startswith('free:')]
        if not nonfree:
            return 'order-free'
        if all(s.startswith('sorted:') for s in nonfree):
            return 'sorted'
        return 'order-sensitive'

    def signature(self):
        return tuple(sorted(s for s in self.sinks if not s.startswith('free:')))


PURE_DYN_TRAITS = ('RTObject', 'AsAny', 'IntoAny', 'Any', 'Display', 'Debug')
_writes_cache = {}


INJECTIVE_STEPS = {'clone', 'to_string', 'to_owned', 'deref', 'borrow', 'as_str', 'as_ref', 'into', 'copied', 'cloned',
                   'as_deref', 'unwrap', 'from', 'to_vec', 'into_iter', 'iter'}


def map_key_class(prog, fn, op, depth=0, pending=None, is_closure_elem=None):
    """Is the key operand of a map insert the WHOLE key of the iterated hash element (possibly cloned / converted by an
    injective std step)?  -> 'elemkey' or 'derived:<why>'.
    Inserting under anything else (a projection of the key, the value, an outer variable, a computed name) can collide
    for two elements, and then the last one in hash order wins."""
    pending = list(pending or [])
    if depth > 30:
        return 'derived:deep'
    if op['k'] == 'const':
        return 'derived:constant key'
    if op['k'] not in ('copy', 'move'):
        return 'derived:' + op['k']
    pl = op['pl']
    pending = [pe for pe in pl.get('p', [])] + pending
    l = pl['l']
    d = du(fn)
    defs = [x for x in d.defs.get(l, []) if x['kind'] in ('assign', 'call')]
    if 1 <= l <= d.argc and not defs:
        if fn.kind == 'closure' and l >= 2:
            return _elem_projection(fn.local_ty(l), pending, param=True)
        return 'derived:parameter'
    if len(defs) != 1:
        return 'derived:multi-def local'
    df = defs[0]
    if df['kind'] == 'assign':
        rv = df['rv']
        if rv['k'] in ('use', 'cast'):
            return map_key_class(prog, fn, rv['op'], depth + 1, pending)
        if rv['k'] in ('ref', 'rawptr'):
            return map_key_class(prog, fn, {'k': 'copy', 'pl': rv['pl']}, depth + 1, pending)
        if rv['k'] == 'agg' and rv.get('ak') == 'tuple' and pending and pending[0]['k'] == 'field':
            i = pending[0]['i']
            if i < len(rv['ops']):
                return map_key_class(prog, fn, rv['ops'][i], depth + 1, pending[1:])
        return 'derived:built by ' + rv['k']
    t = df['term']
    cs = callee_short(t)
    name = cs.rsplit('::', 1)[-1]
    if name == 'next' and (t['f'].get('trait') or '').endswith('iterator::Iterator'):
        return _elem_projection(t.get('dty', ''), pending, param=False)
    if name in INJECTIVE_STEPS and (callee(t) not in prog.fns or cs.endswith(' as Clone>::clone')) and t['args']:
        return map_key_class(prog, fn, t['args'][0], depth + 1, [pe for pe in pending if pe['k'] == 'deref'] if False else pending)
    if name in ('and_then', 'map', 'map_or', 'map_or_else', 'then', 'filter_map', 'find_map') and depth < 20:
        # Option / iterator combinator: the key is what the closure returns
        for cp in (t['f'].get('closures') or []):
            cf = prog.fns.get(cp)
            if cf is not None:
                inner = map_key_class(prog, cf, {'k': 'copy', 'pl': {'l': 0}}, depth + 1, [pe for pe in pending if pe['k'] != 'deref'][:0])
                if inner.startswith('derived:via '):
                    return inner
    return 'derived:via ' + cs


def _elem_projection(ty, pending, param):
    """pending projections applied to the iteration element (Option<elem> from next(), or the closure parameter)."""
    proj = [pe for pe in pending if pe['k'] not in ('deref',)]
    if not param:
        # Option<elem>: downcast Some, field 0
        if len(proj) < 2 or proj[0]['k'] != 'downcast' or proj[1]['k'] != 'field' or proj[1]['i'] != 0:
            return 'derived:unusual use of next()'
        proj = proj[2:]
        inner = ty[ty.find('<') + 1:ty.rfind('>')] if '<' in ty else ty
    else:
        inner = ty
    is_pair = inner.strip().startswith('(')
    if not proj:
        return 'elemkey' if not is_pair else 'derived:whole (key, value) pair'
    if proj[0]['k'] == 'field' and 'adt' not in proj[0]:
        if is_pair and proj[0]['i'] == 0 and len(proj) == 1:
            return 'elemkey'
        if is_pair and proj[0]['i'] == 1:
            return 'derived:the value, not the key'
    return 'derived:a projection of the element (%s)' % '.'.join(str(pe.get('n', pe.get('i'))) for pe in proj)


def classify_mutator(cs, ty):
    name = cs.rsplit('::', 1)[-1]
    hd = head_of(cs)
    rty = tyname(ty[5:]) if ty.startswith('&mut ') else tyname(ty)
    kind = hd if hd in MAP_TYPES + SEQ_TYPES else rty
    if kind in MAP_TYPES or hd in ('Entry', 'VacantEntry', 'OccupiedEntry'):
        return 'free:%s::%s' % (kind, name)
    if kind in SEQ_TYPES or name in ('write_str', 'write_fmt', 'push', 'push_str'):
        return 'seq:%s::%s' % (kind, name)
    if hd == 'mem' and name in ('swap', 'replace', 'take'):
        return 'store:mem::' + name
    return 'unknown-mut-call:' + cs


def callee_writes(prog, g, tr, depth=0, stack=()):
    """Summary of what a repository function can modify *outside itself*:
    list of (parameter index | None, sink kind). Data local to the callee is ignored."""
    if g.p in _writes_cache:
        return _writes_cache[g.p]
    if g.p in stack or depth > 4:
        return []
    out = set()
    fns = [g] + prog.closures_of(g)
    for fn in fns:
        is_cl = fn.kind == 'closure'

        def arg_roots(atoms):
            if is_cl:
                # captured state of the parent: attribute to "unknown parameter" of the parent
                return [None] if any(a.startswith(('upvar:', 'closure_env')) for a in atoms) else []
            return [int(a.split(':')[1]) for a in atoms if a.startswith('arg:')]

        for bb, si, s in fn.stmts():
            if s['k'] != 'assign':
                continue
            pl = s['pl']
            if not any(pe['k'] == 'deref' for pe in pl.get('p', [])):
                continue
            atoms = tr.prov_place(fn, pl)
            rv = s['rv']
            for ai in arg_roots(atoms):
                if rv['k'] == 'use' and rv['op']['k'] == 'const':
                    out.add((ai, 'free:flag-store'))
                else:
                    fields = sorted(a[6:] for a in atoms if a.startswith('field:'))
                    out.add((ai, 'store:%s' % (fields[-1] if fields else 'through-reference')))
        for bb, t in fn.calls():
            cs = callee_short(t)
            name = cs.rsplit('::', 1)[-1]
            if is_dyn_call(t):
                tr_ = t['f'].get('trait', '')
                if tr_.rsplit('::', 1)[-1] not in PURE_DYN_TRAITS:
                    out.add((None, 'dyn-callback:' + cs))
                continue
            if name in ('from_residual', 'branch', 'from_output'):
                continue
            h = prog.fns.get(callee(t))
            if h is not None:
                for (ai, kind) in callee_writes(prog, h, tr, depth + 1, stack + (g.p,)):
                    if ai is None:
                        out.add((None, kind))
                        continue
                    if ai - 1 < len(t['args']):
                        a = t['args'][ai - 1]
                        if a['k'] in ('copy', 'move'):
                            for r in arg_roots(tr.prov(fn, a)):
                                out.add((r, kind))
                continue
            if cs.split('::')[0] in ('RefCell', 'Cell', 'OnceCell') and name in ('replace', 'swap', 'set', 'take', 'replace_with'):
                for r in arg_roots(tr.prov(fn, t['args'][0])):
                    out.add((r, 'interior-write:' + cs))
                continue
            if name in PLUMBING or name in SORTS:
                continue
            if (t['f'].get('trait', '') or '').endswith('iter::traits::iterator::Iterator'):
                continue
            for a in t['args']:
                if a['k'] not in ('copy', 'move'):
                    continue
                ty = place_ty(fn, a['pl'])
                if not ty.startswith('&mut '):
                    continue
                for r in arg_roots(tr.prov(fn, a)):
                    out.add((r, classify_mutator(cs, ty)))
    res = sorted(out, key=lambda x: (x[0] is None, x[0] or 0, x[1]))
    if not stack:
        _writes_cache[g.p] = res
    return res


def comparator_of(prog, t):
    """Describe the comparator handed to sort_by / max_by / ...: 'Ord' for the comparator-less forms,
    the function item's short name, or `closure->callee,callee` (repository callees of the closure)."""
    name = callee_short(t).rsplit('::', 1)[-1]
    if name in ('sort', 'sort_unstable', 'max', 'min'):
        return 'Ord'
    for a in t['args'][1:]:
        if a['k'] == 'const' and 'fn' in a:
            return short(a['fn'])
    cl = t['f'].get('closures') or []
    if cl:
        cf = prog.fns.get(cl[0])
        if cf is not None:
            cal = sorted({callee_short(c) for _, c in cf.calls() if callee(c) in prog.fns})
            return 'closure->' + (','.join(cal) if cal else 'inline')
    return 'unknown-comparator'


def only_derefs(pl):
    return all(pe['k'] == 'deref' for pe in pl.get('p', []))


def is_int(ty):
    return ty in ('i8', 'i16', 'i32', 'i64', 'i128', 'isize', 'u8', 'u16', 'u32', 'u64', 'u128', 'usize')


def locals_read_in_block(b):
    out = set()

    def op(o):
        if isinstance(o, dict) and o.get('k') in ('copy', 'move'):
            out.add(o['pl']['l'])
            for pe in o['pl'].get('p', []):
                if pe['k'] == 'index':
                    out.add(pe['l'])

    for s in b['st']:
        if s['k'] != 'assign':
            continue
        rv = s['rv']
        for k in ('op', 'a', 'b'):
            if k in rv:
                op(rv[k])
        if 'pl' in rv:
            out.add(rv['pl']['l'])
        for o in rv.get('ops', []):
            op(o)
        if 'p' in s['pl']:
            out.add(s['pl']['l'])
    t = b['term']
    if t:
        if t['k'] == 'call':
            for a in t['args']:
                op(a)
            if 'via' in t['f']:
                out.add(t['f']['via']['l'])
        elif t['k'] == 'switch':
            op(t['d'])
        elif t['k'] == 'assert':
            op(t['cond'])
        elif t['k'] == 'drop':
            pass
    return out


def classify(prog, crates=None):
    tr = Tracer(prog)
    out = []
    for fn in sorted(prog.fns.values(), key=lambda f: f.p):
        if crates and fn.crate not in crates:
            continue
        ords = {}
        for bb, t in fn.calls():
            if not is_hash_start(t):
                continue
            cs = callee_short(t)
            root = prog.root_fn(fn)
            base = fn.short
            n = ords.get(cs, 0)
            ords[cs] = n + 1
            sa = SiteAnalysis(prog, fn, bb, t, n, tr).run()
            out.append({
                'key': '%s|%s|#%d' % (base, cs, n),
                'fn': fn, 'bb': bb, 'callee': cs, 'loc': fn.loc(bb),
                'verdict': sa.verdict(), 'sig': sa.signature(), 'sinks': sorted(sa.sinks),
            })
    return out
