"""P-CFG: per-function control-flow graph over MIR blocks (unwind edges ignored)."""
from collections import deque


def succ_of_term(t):
    if t is None:
        return []
    k = t['k']
    if k == 'goto':
        return [t['t']]
    if k == 'switch':
        out = [bb for _, bb in t['ts']]
        out.append(t['else'])
        # dedupe, keep order
        seen = []
        for b in out:
            if b not in seen:
                seen.append(b)
        return seen
    if k in ('call', 'assert', 'drop'):
        return [t['t']] if 't' in t else []
    return []


class CFG:
    def __init__(self, fn):
        self.fn = fn
        self.n = len(fn.blocks)
        self.succ = [succ_of_term(b['term']) if not b.get('cleanup') else [] for b in fn.blocks]
        self.pred = [[] for _ in range(self.n)]
        for a, ss in enumerate(self.succ):
            for s in ss:
                self.pred[s].append(a)
        self._dom = None
        self._pdom = None
        self.returns = [i for i, b in enumerate(fn.blocks)
                        if not b.get('cleanup') and b['term'] and b['term']['k'] == 'return']

    def reachable(self, starts, avoid=()):
        avoid = set(avoid)
        seen = set()
        dq = deque(s for s in starts if s not in avoid)
        seen.update(dq)
        while dq:
            b = dq.popleft()
            for s in self.succ[b]:
                if s not in seen and s not in avoid:
                    seen.add(s)
                    dq.append(s)
        return seen

    def path(self, starts, goal_pred, avoid=()):
        """Shortest path from any start to a block satisfying goal_pred, avoiding `avoid`."""
        avoid = set(avoid)
        prev = {}
        dq = deque()
        for s in starts:
            if s not in avoid and s not in prev:
                prev[s] = None
                dq.append(s)
        while dq:
            b = dq.popleft()
            if goal_pred(b):
                out = []
                while b is not None:
                    out.append(b)
                    b = prev[b]
                return out[::-1]
            for s in self.succ[b]:
                if s not in prev and s not in avoid:
                    prev[s] = b
                    dq.append(s)
        return None

    def dominators(self):
        """dom[b] = set of blocks dominating b (entry = 0)."""
        if self._dom is not None:
            return self._dom
        reach = self.reachable([0])
        order = self._rpo()
        allb = set(reach)
        dom = {b: set(allb) for b in reach}
        dom[0] = {0}
        changed = True
        while changed:
            changed = False
            for b in order:
                if b == 0:
                    continue
                ps = [p for p in self.pred[b] if p in reach]
                if not ps:
                    continue
                new = set.intersection(*[dom[p] for p in ps]) | {b}
                if new != dom[b]:
                    dom[b] = new
                    changed = True
        self._dom = dom
        return dom

    def postdominators(self, exclude_exits=()):
        """pdom[b] = set of blocks that every path from b to a return passes (b included); blocks that reach no
        return (diverging) are their own only post-dominator.  `exclude_exits`: return blocks to be treated as if the
        path died there (error returns, when only the successful runs matter)."""
        exclude_exits = frozenset(exclude_exits)
        if not exclude_exits and getattr(self, '_pdom', None) is not None:
            return self._pdom
        reach = self.reachable([0])
        exits = [r for r in self.returns if r in reach and r not in exclude_exits]
        live = set()
        work = list(exits)
        while work:
            b = work.pop()
            if b in live or b in exclude_exits:
                continue        # (a block in exclude_exits is a dead end: nothing behind it counts as reaching an exit)
            live.add(b)
            work.extend(p for p in self.pred[b] if p in reach)
        pdom = {b: set(live) for b in live}
        for e in exits:
            pdom[e] = {e}
        changed = True
        while changed:
            changed = False
            for b in live:
                if b in exits:
                    continue
                ss = [x for x in self.succ[b] if x in live]
                if not ss:
                    continue
                new = set.intersection(*[pdom[x] for x in ss]) | {b}
                if new != pdom[b]:
                    pdom[b] = new
                    changed = True
        for b in reach:
            pdom.setdefault(b, {b})
        if not exclude_exits:
            self._pdom = pdom
        return pdom

    def controllers(self, c, exclude_exits=()):
        """Blocks whose branch decides whether c executes (control dependence): c post-dominates one successor of b
        but does not post-dominate b itself."""
        pd = self.postdominators(exclude_exits)
        out = []
        for b in range(self.n):
            if len(self.succ[b]) < 2 or b == c:
                continue
            if c in pd.get(b, ()):
                continue
            if any(c in pd.get(x, ()) or x == c for x in self.succ[b]):
                out.append(b)
        return out

    def _rpo(self):
        seen = set()
        post = []
        stack = [(0, iter(self.succ[0]))]
        seen.add(0)
        while stack:
            b, it = stack[-1]
            adv = False
            for s in it:
                if s not in seen:
                    seen.add(s)
                    stack.append((s, iter(self.succ[s])))
                    adv = True
                    break
            if not adv:
                post.append(b)
                stack.pop()
        return post[::-1]

    def dominates(self, a, b):
        d = self.dominators()
        return b in d and a in d[b]

    def must_pass_through(self, start_block, required_blocks, from_successors=True):
        """Every path from start (its successors) to a Return passes a required block?
        Returns (ok, witness_path)."""
        starts = self.succ[start_block] if from_successors else [start_block]
        w = self.path(starts, lambda b: b in self.returns, avoid=required_blocks)
        return (w is None), w

    def loops_heads(self):
        """Blocks that are targets of back edges (natural loop heads)."""
        dom = self.dominators()
        heads = {}
        for a in dom:
            for s in self.succ[a]:
                if s in dom.get(a, ()):  # s dominates a -> back edge a->s
                    heads.setdefault(s, []).append(a)
        return heads

    def loop_body(self, head, tails):
        body = {head}
        st = list(tails)
        while st:
            b = st.pop()
            if b in body:
                continue
            body.add(b)
            st.extend(self.pred[b])
        return body


def cfg(fn):
    if fn._cfg is None:
        fn._cfg = CFG(fn)
    return fn._cfg
