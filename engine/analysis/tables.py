"""P-TABLE: recover finite maps / vocabularies from code (string constants by immediate use)."""
from .facts import callee_short, callee
from .defuse import Tracer, consts_of


def const_strings_of_operand(fn, o, tr):
    """String constants an operand can denote (direct, through a promoted reference, or a short local chain)."""
    out = set()
    if o['k'] == 'const':
        if 'str' in o:
            out.add(o['str'])
        elif 'promoted' in o:
            pi = o['promoted']
            if pi < len(fn.promoted):
                for b in fn.promoted[pi]['blocks']:
                    for s in b['st']:
                        if s['k'] == 'assign':
                            _consts_in_rv(s['rv'], out)
        return out
    atoms = tr.prov(fn, o)
    if any(a.startswith(('call:', 'arg:', 'field:', 'upvar:')) for a in atoms):
        return set()
    for a in atoms:
        if a.startswith('const:') and a not in ('const:promoted', 'const:?'):
            out.add(a[6:])
    return out


def _consts_in_rv(rv, out):
    def op(o):
        if o['k'] == 'const' and 'str' in o:
            out.add(o['str'])
    k = rv['k']
    if k in ('use', 'repeat', 'cast'):
        op(rv['op'])
    elif k == 'agg':
        for o in rv['ops']:
            op(o)
    elif k == 'ref':
        pass


# ---------------------------------------------------------------------------------------------
# constant tables: `[("->", false, ..), ("f()", true, ..)].into_iter().find_map(|(key, ..)| obj.get(key) ..)`
#
# The string an operand denotes may be a component of an element of a table of constants that is iterated.  The walk
# goes backwards from the operand with a stack of pending selectors - ('f', i) = field i of the value, 'elem' = an
# element of the value - through copies, references and projections, from a closure parameter to the receiver of the
# adaptor the closure is handed to (an element of it for iterator adaptors, the payload for Option / Result adaptors),
# from a captured variable to the parent's local, through iterator adaptors that hand the elements on, and from the
# result of `next` / `find` / `get` .. to an element of the receiver, until it arrives at aggregates: an array pops
# 'elem', a tuple / struct pops its field.  Only when EVERY way back ends in a string constant is the set returned.

_SAME_ELEMENTS = {      # the result holds (some of) the receiver's elements, unchanged
    'into_iter', 'iter', 'iter_mut', 'copied', 'cloned', 'by_ref', 'rev', 'skip', 'take', 'peekable', 'skip_while',
    'take_while', 'filter', 'step_by', 'fuse', 'as_slice', 'as_mut_slice', 'as_ref', 'as_mut', 'deref', 'deref_mut',
    'borrow', 'borrow_mut', 'clone', 'to_vec', 'into_vec', 'to_owned', 'into_boxed_slice', 'inspect', 'unsize', 'into',
    'from', 'new', 'unwrap', 'expect', 'as_str',
}
_ONE_ELEMENT = {        # the result is (an Option of) one element of the receiver
    'next', 'next_back', 'find', 'last', 'nth', 'first', 'get', 'peek', 'min', 'max', 'min_by', 'max_by', 'min_by_key',
    'max_by_key', 'index', 'get_unchecked', 'next_if',
}
_ACCUMULATING = {'fold', 'try_fold', 'rfold', 'try_rfold', 'scan'}     # closure(acc, element): only the last is one
_WRAPPERS = ('core::option::Option', 'core::result::Result', 'core::ops::control_flow::ControlFlow')


class _PromotedBody:
    """A promoted constant's MIR, shaped like a function for the def-use index."""
    kind = 'promoted'
    parent = None

    def __init__(self, owner, i):
        self.p = '%s::promoted[%d]' % (owner.p, i)
        self.body = owner.promoted[i]
        self.blocks = self.body['blocks']
        self.promoted = []
        self._du = None
        self.ret_locals = frozenset()

    def stmts(self):
        for i, b in enumerate(self.blocks):
            for k, s in enumerate(b['st']):
                yield i, k, s

    def terms(self):
        for i, b in enumerate(self.blocks):
            if b.get('term'):
                yield i, b['term']


def _parent_of(prog, fn):
    par = prog.fns.get(fn.parent) if fn.parent else None
    home = getattr(prog, 'helper_home', None) or {}
    p_ = fn.parent
    while par is None and p_ in home:
        p_ = home[p_]
        par = prog.fns.get(p_)
    return par


def table_element_strings(prog, fn, operand, limit=400):
    """The string constants `operand` can denote as (a component of) an element of a constant table that is iterated or
    indexed; the empty set when the operand is anything else, or when one way back does not end in a string constant."""
    from .defuse import du
    out = set()
    state = {'steps': 0, 'table': False}
    seen = set()

    class _No(Exception):
        pass

    def operand_(f, o, sel):
        if o['k'] == 'const':
            if 'str' in o:
                if sel:
                    raise _No()
                out.add(o['str'])
                return
            if 'promoted' in o and o['promoted'] < len(f.promoted):
                local_(_PromotedBody(f, o['promoted']), 0, sel)
                return
            raise _No()
        if o['k'] not in ('copy', 'move'):
            raise _No()
        place_(f, o['pl'], sel)

    def place_(f, pl, sel):
        inner = []
        upvar = None
        for pe in pl.get('p', []):
            k = pe['k']
            if k == 'field':
                if 'closure' in pe:
                    upvar = pe.get('n')
                    inner = []
                    continue
                if pe.get('adt') in _WRAPPERS:
                    continue        # the payload of Some / Ok / Continue: wrappers are looked through
                inner.append(('f', pe['i']))
            elif k in ('index', 'constindex', 'const_index', 'subslice'):
                if k != 'subslice':
                    inner.append('elem')
            elif k in ('deref', 'downcast', 'opaque', 'subtype', 'unwrap_unsafe_binder'):
                continue
            else:
                raise _No()
        sel = tuple(inner) + tuple(sel)
        if upvar is not None:
            par = _parent_of(prog, f)
            if par is None or f.kind != 'closure' or pl['l'] != 1:
                raise _No()
            name = str(upvar).lstrip('*')
            ls = [d_['pl']['l'] for d_ in par.body['dbg'] if d_['n'] == name and 'p' not in d_['pl']]
            if len(ls) != 1:
                raise _No()
            local_(par, ls[0], sel)
            return
        local_(f, pl['l'], sel)

    def closure_param_(f, l, sel):
        par = _parent_of(prog, f)
        if par is None:
            raise _No()
        # the call the closure itself is an argument of (`collect` after `map(closure)` names it in its type only)
        sites = [(bb, t) for bb, t in par.calls() if f.p in (t['f'].get('closures') or []) and t['args']
                 and any(a.get('k') in ('copy', 'move') and '{closure@' in par.local_ty(a['pl']['l'])
                         for a in t['args'][1:])]
        if len(sites) != 1:
            raise _No()
        bb, t = sites[0]
        name = t['f'].get('name') or ''
        if t['f'].get('self_adt') in _WRAPPERS:
            operand_(par, t['args'][0], sel)            # Option::map(|payload| ..): the payload of the receiver
            return
        if name in _ACCUMULATING and l != f.body['argc']:
            raise _No()
        operand_(par, t['args'][0], ('elem',) + tuple(sel))

    def local_(f, l, sel):
        state['steps'] += 1
        key = (f.p, l, sel)
        if state['steps'] > limit or len(sel) > 8:
            raise _No()
        if key in seen:
            return
        seen.add(key)
        d = du(f)
        if 1 <= l <= d.argc:
            if f.kind == 'closure' and l >= 2:
                closure_param_(f, l, sel)
                return
            raise _No()
        defs = d.defs.get(l, [])
        if not defs:
            raise _No()
        for df in defs:
            if df['kind'] in ('store', 'store_call'):
                continue
            if df['kind'] == 'assign':
                rvalue_(f, df['rv'], sel)
            elif df['kind'] == 'call':
                call_(f, df['term'], sel)
            else:
                raise _No()

    def rvalue_(f, rv, sel):
        k = rv['k']
        if k == 'use':
            operand_(f, rv['op'], sel)
        elif k in ('ref', 'rawptr'):
            place_(f, rv['pl'], sel)
        elif k == 'cast':
            if not (rv['ck'].startswith('PointerCoercion') or rv['ck'] in ('PtrToPtr', 'Transmute', 'Subtype')):
                raise _No()
            operand_(f, rv['op'], sel)
        elif k == 'repeat':
            if not sel or sel[0] != 'elem':
                raise _No()
            state['table'] = True
            operand_(f, rv['op'], sel[1:])
        elif k == 'agg':
            ak = rv.get('ak')
            if ak == 'array':
                if not sel or sel[0] != 'elem':
                    raise _No()
                state['table'] = True
                for o in rv['ops']:
                    operand_(f, o, sel[1:])
            elif ak in ('tuple', 'adt'):
                if ak == 'adt' and rv.get('adt') in _WRAPPERS:
                    if rv.get('var') in ('None',) or not rv['ops']:
                        return
                    operand_(f, rv['ops'][0], sel)
                    return
                if not sel or sel[0] == 'elem' or sel[0][1] >= len(rv['ops']):
                    raise _No()
                operand_(f, rv['ops'][sel[0][1]], sel[1:])
            else:
                raise _No()
        else:
            raise _No()

    def call_(f, t, sel):
        name = t['f'].get('name') or ''
        args = t['args']
        if not args:
            raise _No()
        if name == 'enumerate':
            # elements are (index, element of the receiver)
            if len(sel) < 2 or sel[0] != 'elem' or sel[1] != ('f', 1):
                raise _No()
            operand_(f, args[0], ('elem',) + tuple(sel[2:]))
        elif name == 'zip' and len(args) == 2:
            if len(sel) < 2 or sel[0] != 'elem' or sel[1] not in (('f', 0), ('f', 1)):
                raise _No()
            operand_(f, args[sel[1][1]], ('elem',) + tuple(sel[2:]))
        elif name == 'chain' and len(args) == 2:
            operand_(f, args[0], sel)
            operand_(f, args[1], sel)
        elif name in _ONE_ELEMENT and t['f'].get('self_adt') not in _WRAPPERS:
            operand_(f, args[0], ('elem',) + tuple(sel))
        elif name in _SAME_ELEMENTS or (t['f'].get('self_adt') in _WRAPPERS and name in (
                'copied', 'cloned', 'as_ref', 'as_mut', 'as_deref', 'unwrap', 'expect', 'unwrap_or_default', 'branch',
                'ok', 'take', 'filter')):
            operand_(f, args[0], sel)
        else:
            raise _No()

    try:
        operand_(fn, operand, ())
    except _No:
        return set()
    return out if state['table'] else set()


def string_uses(prog, fn, tr=None, with_closures=True):
    """All (string constant, callee short, arg index, bb) where a string literal is an argument of a call - the literal
    itself, or an element of a constant table of literals that is iterated (see table_element_strings)."""
    tr = tr or Tracer(prog)
    out = []
    fns = [fn] + (prog.closures_of(fn) if with_closures else [])
    for f in fns:
        for bb, t in f.calls():
            cs = callee_short(t)
            for i, a in enumerate(t['args']):
                strs = const_strings_of_operand(f, a, tr)
                if not strs and a['k'] in ('copy', 'move') and 'str' in f.local_ty(a['pl']['l']).lower():
                    strs = table_element_strings(prog, f, a)
                for s in strs:
                    out.append((s, cs, i, f, bb))
    return out


def compared_strings(prog, fn, tr=None):
    """String literals the function compares something against (==, eq, get(key), expect_obj_key, starts_with...)."""
    out = {}
    for s, cs, i, f, bb in string_uses(prog, fn, tr):
        name = cs.rsplit('::', 1)[-1]
        if name in ('eq', 'ne', 'get', 'contains_key', 'expect_obj_key', 'starts_with', 'ends_with', 'strip_prefix',
                    'get_mut', 'remove'):
            out.setdefault(s, []).append((cs, f.loc(bb)))
    return out


def emitted_strings(prog, fn, tr=None):
    """String literals handed to value constructors / inserted as keys (to_value, json!, insert key, to_owned for insert)."""
    out = {}
    for s, cs, i, f, bb in string_uses(prog, fn, tr):
        name = cs.rsplit('::', 1)[-1]
        if name in ('to_value', 'insert', 'to_owned', 'to_string', 'into', 'from', 'push_str', 'new_display'):
            out.setdefault(s, []).append((cs, f.loc(bb)))
    return out


def char_consts_compared(fn):
    """chars a function switches on / compares with (SwitchInt values on char-typed discriminants, Eq with char consts)."""
    out = set()
    for bb, t in fn.terms():
        if t['k'] == 'switch' and t.get('dty') == 'char':
            for v, _ in t['ts']:
                out.add(chr(v))
    for bb, si, s in fn.stmts():
        if s['k'] == 'assign' and s['rv']['k'] == 'binop' and s['rv']['op'] in ('Eq', 'Ne'):
            for side in ('a', 'b'):
                o = s['rv'][side]
                if o['k'] == 'const' and 'char' in o:
                    out.add(o['char'])
    return out


# ---------------------------------------------------------------------------------------------
# finite maps recovered from `match`

def _follow(fn, bb, want, limit=12):
    """Walk forward from block bb along unconditional edges (goto / call-return / drop / assert) and return the
    first item `want(block_index, block)` yields (not None)."""
    seen = set()
    while bb is not None and bb not in seen and limit > 0:
        seen.add(bb)
        limit -= 1
        b = fn.blocks[bb]
        r = want(bb, b)
        if r is not None:
            return r
        t = b['term']
        if not t:
            return None
        if t['k'] in ('goto', 'call', 'drop', 'assert') and 't' in t:
            bb = t['t']
        else:
            return None
    return None


def discr_switches(fn, adt_suffix):
    """Switch terminators whose discriminant is the discriminant of a value of enum `adt_suffix`."""
    from .defuse import du
    out = []
    for bb, t in fn.terms():
        if t['k'] != 'switch' or t['d']['k'] not in ('copy', 'move'):
            continue
        df = du(fn).single_def(t['d']['pl']['l'])
        if df and df['kind'] == 'assign' and df['rv']['k'] == 'discr' and (df['rv'].get('adt') or '').endswith(adt_suffix):
            out.append((bb, t, df['rv']))
    return out


def variant_to_value_table(prog, fn, adt_suffix):
    """For `match x { Variant => <string literal | int literal | call f(..)> }` return
    {variant name: ('str', s) | ('int', n) | ('call', callee short)} using the first such item on each arm."""
    adt = prog.adt(adt_suffix.rsplit('::', 1)[-1]) if '::' not in adt_suffix else prog.adts.get(adt_suffix)
    if adt is None:
        cands = [a for p, a in prog.adts.items() if p.endswith(adt_suffix)]
        adt = cands[0] if cands else None
    if adt is None:
        return {}
    by_discr = {v.get('discr', i): v['n'] for i, v in enumerate(adt['variants'])}
    sw = discr_switches(fn, adt['p'].rsplit('::', 1)[-1])
    if not sw:
        return {}
    bb, t, _ = max(sw, key=lambda x: len(x[1]['ts']))
    out = {}

    def want(bi, b):
        for s in b['st']:
            if s['k'] == 'assign' and s['rv']['k'] == 'use' and s['rv']['op']['k'] == 'const':
                o = s['rv']['op']
                if 'str' in o:
                    return ('str', o['str'])
                if 'int' in o and s['pl']['l'] == 0:
                    return ('int', o['int'])
        tt = b['term']
        if tt and tt['k'] == 'call':
            for a in tt['args']:
                if a['k'] == 'const' and 'str' in a:
                    return ('str', a['str'])
            c = callee(tt)
            if c in prog.fns:
                return ('call', callee_short(tt))
        return None
    listed = set()
    for v, tb in t['ts']:
        listed.add(v)
        r = _follow(fn, tb, want)
        if r is not None and v in by_discr:
            out[by_discr[v]] = r
    rest = [d for d in by_discr if d not in listed]
    if len(rest) == 1:
        r = _follow(fn, t['else'], want)
        if r is not None:
            out[by_discr[rest[0]]] = r
    return out


def string_to_variant_table(prog, fn, adt_short):
    """For `match s { "lit" => ... Enum::Variant ... }` lowered to a chain of `<str as PartialEq>::eq(s, "lit")`:
    {literal: variant name of the first aggregate of the enum on the true edge}."""
    out = {}
    dups = []
    for bb, t in fn.calls():
        cs = callee_short(t)
        if not (cs.endswith('PartialEq>::eq') or cs == '<str as PartialEq>::eq'):
            continue
        lits = [a['str'] for a in t['args'] if a['k'] == 'const' and 'str' in a]
        if not lits or 't' not in t:
            continue
        sw = fn.blocks[t['t']]['term']
        if not sw or sw['k'] != 'switch':
            continue
        true_t = [tb for v, tb in sw['ts'] if v != 0]
        if not true_t:
            true_t = [sw['else']]

        def want(bi, b):
            for s in b['st']:
                if s['k'] == 'assign' and s['rv']['k'] == 'agg' and s['rv'].get('ak') == 'adt' \
                        and s['rv']['adt'].rsplit('::', 1)[-1] == adt_short:
                    return s['rv']['var']
                if s['k'] == 'assign' and s['rv']['k'] == 'use' and s['rv']['op']['k'] == 'const' \
                        and s['rv']['op'].get('ty', '').rsplit('::', 1)[-1] == adt_short:
                    return s['rv']['op'].get('dbg', '?').rsplit('::', 1)[-1]
            return None
        r = _follow(fn, true_t[0], want)
        if r is not None:
            if lits[0] in out:
                dups.append(lits[0])
            else:
                out[lits[0]] = r
    return out, dups


def string_to_string_table(fn):
    """`match s { "A" => Some("x") | "x", ... }`: {matched literal: first string literal produced on the true edge}."""
    out = {}
    for bb, t in fn.calls():
        cs = callee_short(t)
        if not cs.endswith('PartialEq>::eq'):
            continue
        lits = [a['str'] for a in t['args'] if a['k'] == 'const' and 'str' in a]
        if not lits or 't' not in t:
            continue
        sw = fn.blocks[t['t']]['term']
        if not sw or sw['k'] != 'switch':
            continue
        true_t = [tb for v, tb in sw['ts'] if v != 0] or [sw['else']]

        def want(bi, b):
            for s in b['st']:
                if s['k'] != 'assign':
                    continue
                rv = s['rv']
                ops = rv.get('ops', []) + ([rv['op']] if 'op' in rv else [])
                for o in ops:
                    if isinstance(o, dict) and o.get('k') == 'const' and 'str' in o:
                        return o['str']
            tt = b['term']
            if tt and tt['k'] == 'switch':
                return '<branch>'
            return None
        r = _follow(fn, true_t[0], want, limit=6)
        if r is not None and r != '<branch>':
            out.setdefault(lits[0], r)
    return out


def matched_literals(fn):
    """All string literals a function compares its input with through `==` / matches!."""
    out = set()
    for bb, t in fn.calls():
        if callee_short(t).endswith('PartialEq>::eq'):
            for a in t['args']:
                if a['k'] == 'const' and 'str' in a:
                    out.add(a['str'])
    return out


def explicit_arms(prog, fn, adt_suffix):
    """Variants of enum `adt_suffix` that have their own arm (a switch target different from the wildcard target) in
    fn's largest switch on that enum's discriminant."""
    cands = [a for p, a in prog.adts.items() if p.endswith(adt_suffix)]
    if not cands:
        return None
    adt = cands[0]
    by_discr = {v.get('discr', i): v['n'] for i, v in enumerate(adt['variants'])}
    sw = discr_switches(fn, adt['p'].rsplit('::', 1)[-1])
    if not sw:
        return None
    out = set()
    for bb, t, _ in sw:
        listed = {v for v, _ in t['ts']}
        other = t['else']
        for v, tb in t['ts']:
            if tb != other and v in by_discr:
                out.add(by_discr[v])
        rest = [d for d in by_discr if d not in listed]
        # when every remaining variant falls to `otherwise` and it is a real arm for exactly one variant
        if len(rest) == 1:
            tt = fn.blocks[other]['term']
            if not (tt and tt['k'] == 'unreachable'):
                out.add(by_discr[rest[0]])
    return out
