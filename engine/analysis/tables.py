"""P-TABLE: recover finite maps / vocabularies from code (string constants by immediate use)."""
from .facts import callee_short, callee
from .defuse import Tracer, consts_of


def const_strings_of_operand(fn, o, tr):
    """String constants an operand can denote (direct, through a promoted reference, or a short local chain)."""
    out = set()
    if o['k'] == 'const':
        if 'str' in o:
            out.add(o['str'])
        elif 'promoted' in o:
            pi = o['promoted']
            if pi < len(fn.promoted):
                for b in fn.promoted[pi]['blocks']:
                    for s in b['st']:
                        if s['k'] == 'assign':
                            _consts_in_rv(s['rv'], out)
        return out
    atoms = tr.prov(fn, o)
    if any(a.startswith(('call:', 'arg:', 'field:', 'upvar:')) for a in atoms):
        return set()
    for a in atoms:
        if a.startswith('const:') and a not in ('const:promoted', 'const:?'):
            out.add(a[6:])
    return out


def _consts_in_rv(rv, out):
    def op(o):
        if o['k'] == 'const' and 'str' in o:
            out.add(o['str'])
    k = rv['k']
    if k in ('use', 'repeat', 'cast'):
        op(rv['op'])
    elif k == 'agg':
        for o in rv['ops']:
            op(o)
    elif k == 'ref':
        pass


def string_uses(prog, fn, tr=None, with_closures=True):
    """All (string constant, callee short, arg index, bb) where a string literal is an argument of a call."""
    tr = tr or Tracer(prog)
    out = []
    fns = [fn] + (prog.closures_of(fn) if with_closures else [])
    for f in fns:
        for bb, t in f.calls():
            cs = callee_short(t)
            for i, a in enumerate(t['args']):
                for s in const_strings_of_operand(f, a, tr):
                    out.append((s, cs, i, f, bb))
    return out


def compared_strings(prog, fn, tr=None):
    """String literals the function compares something against (==, eq, get(key), expect_obj_key, starts_with...)."""
    out = {}
    for s, cs, i, f, bb in string_uses(prog, fn, tr):
        name = cs.rsplit('::', 1)[-1]
        if name in ('eq', 'ne', 'get', 'contains_key', 'expect_obj_key', 'starts_with', 'ends_with', 'strip_prefix',
                    'get_mut', 'remove'):
            out.setdefault(s, []).append((cs, f.loc(bb)))
    return out


def emitted_strings(prog, fn, tr=None):
    """String literals handed to value constructors / inserted as keys (to_value, json!, insert key, to_owned for insert)."""
    out = {}
    for s, cs, i, f, bb in string_uses(prog, fn, tr):
        name = cs.rsplit('::', 1)[-1]
        if name in ('to_value', 'insert', 'to_owned', 'to_string', 'into', 'from', 'push_str', 'new_display'):
            out.setdefault(s, []).append((cs, f.loc(bb)))
    return out


def char_consts_compared(fn):
    """chars a function switches on / compares with (SwitchInt values on char-typed discriminants, Eq with char consts)."""
    out = set()
    for bb, t in fn.terms():
        if t['k'] == 'switch' and t.get('dty') == 'char':
            for v, _ in t['ts']:
                out.add(chr(v))
    for bb, si, s in fn.stmts():
        if s['k'] == 'assign' and s['rv']['k'] == 'binop' and s['rv']['op'] in ('Eq', 'Ne'):
            for side in ('a', 'b'):
                o = s['rv'][side]
                if o['k'] == 'const' and 'char' in o:
                    out.add(o['char'])
    return out


# ---------------------------------------------------------------------------------------------
# finite maps recovered from `match`

def _follow(fn, bb, want, limit=12):
    """Walk forward from block bb along unconditional edges (goto / call-return / drop / assert) and return the
    first item `want(block_index, block)` yields (not None)."""
    seen = set()
    while bb is not None and bb not in seen and limit > 0:
        seen.add(bb)
        limit -= 1
        b = fn.blocks[bb]
        r = want(bb, b)
        if r is not None:
            return r
        t = b['term']
        if not t:
            return None
        if t['k'] in ('goto', 'call', 'drop', 'assert') and 't' in t:
            bb = t['t']
        else:
            return None
    return None


def discr_switches(fn, adt_suffix):
    """Switch terminators whose discriminant is the discriminant of a value of enum `adt_suffix`."""
    from .defuse import du
    out = []
    for bb, t in fn.terms():
        if t['k'] != 'switch' or t['d']['k'] not in ('copy', 'move'):
            continue
        df = du(fn).single_def(t['d']['pl']['l'])
        if df and df['kind'] == 'assign' and df['rv']['k'] == 'discr' and (df['rv'].get('adt') or '').endswith(adt_suffix):
            out.append((bb, t, df['rv']))
    return out


def variant_to_value_table(prog, fn, adt_suffix):
    """For `match x { Variant => <string literal | int literal | call f(..)> }` return
    {variant name: ('str', s) | ('int', n) | ('call', callee short)} using the first such item on each arm."""
    adt = prog.adt(adt_suffix.rsplit('::', 1)[-1]) if '::' not in adt_suffix else prog.adts.get(adt_suffix)
    if adt is None:
        cands = [a for p, a in prog.adts.items() if p.endswith(adt_suffix)]
        adt = cands[0] if cands else None
    if adt is None:
        return {}
    by_discr = {v.get('discr', i): v['n'] for i, v in enumerate(adt['variants'])}
    sw = discr_switches(fn, adt['p'].rsplit('::', 1)[-1])
    if not sw:
        return {}
    bb, t, _ = max(sw, key=lambda x: len(x[1]['ts']))
    out = {}

    def want(bi, b):
        for s in b['st']:
            if s['k'] == 'assign' and s['rv']['k'] == 'use' and s['rv']['op']['k'] == 'const':
                o = s['rv']['op']
                if 'str' in o:
                    return ('str', o['str'])
                if 'int' in o and s['pl']['l'] == 0:
                    return ('int', o['int'])
        tt = b['term']
        if tt and tt['k'] == 'call':
            for a in tt['args']:
                if a['k'] == 'const' and 'str' in a:
                    return ('str', a['str'])
            c = callee(tt)
            if c in prog.fns:
                return ('call', callee_short(tt))
        return None
    listed = set()
    for v, tb in t['ts']:
        listed.add(v)
        r = _follow(fn, tb, want)
        if r is not None and v in by_discr:
            out[by_discr[v]] = r
    rest = [d for d in by_discr if d not in listed]
    if len(rest) == 1:
        r = _follow(fn, t['else'], want)
        if r is not None:
            out[by_discr[rest[0]]] = r
    return out


def string_to_variant_table(prog, fn, adt_short):
    """For `match s { "lit" => ... Enum::Variant ... }` lowered to a chain of `<str as PartialEq>::eq(s, "lit")`:
    {literal: variant name of the first aggregate of the enum on the true edge}."""
    out = {}
    dups = []
    for bb, t in fn.calls():
        cs = callee_short(t)
        if not (cs.endswith('PartialEq>::eq') or cs == '<str as PartialEq>::eq'):
            continue
        lits = [a['str'] for a in t['args'] if a['k'] == 'const' and 'str' in a]
        if not lits or 't' not in t:
            continue
        sw = fn.blocks[t['t']]['term']
        if not sw or sw['k'] != 'switch':
            continue
        true_t = [tb for v, tb in sw['ts'] if v != 0]
        if not true_t:
            true_t = [sw['else']]

        def want(bi, b):
            for s in b['st']:
                if s['k'] == 'assign' and s['rv']['k'] == 'agg' and s['rv'].get('ak') == 'adt' \
                        and s['rv']['adt'].rsplit('::', 1)[-1] == adt_short:
                    return s['rv']['var']
                if s['k'] == 'assign' and s['rv']['k'] == 'use' and s['rv']['op']['k'] == 'const' \
                        and s['rv']['op'].get('ty', '').rsplit('::', 1)[-1] == adt_short:
                    return s['rv']['op'].get('dbg', '?').rsplit('::', 1)[-1]
            return None
        r = _follow(fn, true_t[0], want)
        if r is not None:
            if lits[0] in out:
                dups.append(lits[0])
            else:
                out[lits[0]] = r
    return out, dups


def string_to_string_table(fn):
    """`match s { "A" => Some("x") | "x", ... }`: {matched literal: first string literal produced on the true edge}."""
    out = {}
    for bb, t in fn.calls():
        cs = callee_short(t)
        if not cs.endswith('PartialEq>::eq'):
            continue
        lits = [a['str'] for a in t['args'] if a['k'] == 'const' and 'str' in a]
        if not lits or 't' not in t:
            continue
        sw = fn.blocks[t['t']]['term']
        if not sw or sw['k'] != 'switch':
            continue
        true_t = [tb for v, tb in sw['ts'] if v != 0] or [sw['else']]

        def want(bi, b):
            for s in b['st']:
                if s['k'] != 'assign':
                    continue
                rv = s['rv']
                ops = rv.get('ops', []) + ([rv['op']] if 'op' in rv else [])
                for o in ops:
                    if isinstance(o, dict) and o.get('k') == 'const' and 'str' in o:
                        return o['str']
            tt = b['term']
            if tt and tt['k'] == 'switch':
                return '<branch>'
            return None
        r = _follow(fn, true_t[0], want, limit=6)
        if r is not None and r != '<branch>':
            out.setdefault(lits[0], r)
    return out


def matched_literals(fn):
    """All string literals a function compares its input with through `==` / matches!."""
    out = set()
    for bb, t in fn.calls():
        if callee_short(t).endswith('PartialEq>::eq'):
            for a in t['args']:
                if a['k'] == 'const' and 'str' in a:
                    out.add(a['str'])
    return out


def explicit_arms(prog, fn, adt_suffix):
    """Variants of enum `adt_suffix` that have their own arm (a switch target different from the wildcard target) in
    fn's largest switch on that enum's discriminant."""
    cands = [a for p, a in prog.adts.items() if p.endswith(adt_suffix)]
    if not cands:
        return None
    adt = cands[0]
    by_discr = {v.get('discr', i): v['n'] for i, v in enumerate(adt['variants'])}
    sw = discr_switches(fn, adt['p'].rsplit('::', 1)[-1])
    if not sw:
        return None
    out = set()
    for bb, t, _ in sw:
        listed = {v for v, _ in t['ts']}
        other = t['else']
        for v, tb in t['ts']:
            if tb != other and v in by_discr:
                out.add(by_discr[v])
        rest = [d for d in by_discr if d not in listed]
        # when every remaining variant falls to `otherwise` and it is a real arm for exactly one variant
        if len(rest) == 1:
            tt = fn.blocks[other]['term']
            if not (tt and tt['k'] == 'unreachable'):
                out.add(by_discr[rest[0]])
    return out
