"""P-TABLE: recover finite maps / vocabularies from code (string constants by immediate use)."""
from .facts import callee_short, callee
from .defuse import Tracer, consts_of


def const_strings_of_operand(fn, o, tr):
    """String constants an operand can denote (direct, through a promoted reference, or a short local chain)."""
    out = set()
    if o['k'] == 'const':
        if 'str' in o:
            out.add(o['str'])
        elif 'promoted' in o:
            pi = o['promoted']
            if pi < len(fn.promoted):
                for b in fn.promoted[pi]['blocks']:
                    for s in b['st']:
                        if s['k'] == 'assign':
                            _consts_in_rv(s['rv'], out)
        return out
    atoms = tr.prov(fn, o)
    if any(a.startswith(('call:', 'arg:', 'field:', 'upvar:')) for a in atoms):
        return set()
    for a in atoms:
        if a.startswith('const:') and a not in ('const:promoted', 'const:?'):
            out.add(a[6:])
    return out


def _consts_in_rv(rv, out):
    def op(o):
        if o['k'] == 'const' and 'str' in o:
            out.add(o['str'])
    k = rv['k']
    if k in ('use', 'repeat', 'cast'):
        op(rv['op'])
    elif k == 'agg':
        for o in rv['ops']:
            op(o)
    elif k == 'ref':
        pass


def string_uses(prog, fn, tr=None, with_closures=True):
    """All (string constant, callee short, arg index, bb) where a string literal is an argument of a call."""
    tr = tr or Tracer(prog)
    out = []
    fns = [fn] + (prog.closures_of(fn) if with_closures else [])
    for f in fns:
        for bb, t in f.calls():
            cs = callee_short(t)
            for i, a in enumerate(t['args']):
                for s in const_strings_of_operand(f, a, tr):
                    out.append((s, cs, i, f, bb))
    return out


def compared_strings(prog, fn, tr=None):
    """String literals the function compares something against (==, eq, get(key), expect_obj_key, starts_with...)."""
    out = {}
    for s, cs, i, f, bb in string_uses(prog, fn, tr):
        name = cs.rsplit('::', 1)[-1]
        if name in ('eq', 'ne', 'get', 'contains_key', 'expect_obj_key', 'starts_with', 'ends_with', 'strip_prefix',
                    'get_mut', 'remove'):
            out.setdefault(s, []).append((cs, f.loc(bb)))
    return out


def emitted_strings(prog, fn, tr=None):
    """String literals handed to value constructors / inserted as keys (to_value, json!, insert key, to_owned for insert)."""
    out = {}
    for s, cs, i, f, bb in string_uses(prog, fn, tr):
        name = cs.rsplit('::', 1)[-1]
        if name in ('to_value', 'insert', 'to_owned', 'to_string', 'into', 'from', 'push_str', 'new_display'):
            out.setdefault(s, []).append((cs, f.loc(bb)))
    return out


def char_consts_compared(fn):
    """chars a function switches on / compares with (SwitchInt values on char-typed discriminants, Eq with char consts)."""
    out = set()
    for bb, t in fn.terms():
        if t['k'] == 'switch' and t.get('dty') == 'char':
            for v, _ in t['ts']:
                out.add(chr(v))
    for bb, si, s in fn.stmts():
        if s['k'] == 'assign' and s['rv']['k'] == 'binop' and s['rv']['op'] in ('Eq', 'Ne'):
            for side in ('a', 'b'):
                o = s['rv'][side]
                if o['k'] == 'const' and 'char' in o:
                    out.add(o['char'])
    return out
