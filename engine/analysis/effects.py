"""P-EFFECT: semantic write summaries over the state types.

A *write event* in function f is
  (i)   an assignment whose place passes through a field of a state type,
  (ii)  a call of a foreign (std / serde) function that receives a `&mut` whose provenance passes through a
        field of a state type (Vec::push, HashMap::insert, String::push_str, mem::swap, Option::take, ...),
        or RefCell/Cell/OnceCell interior mutation (`replace`, `set`, `swap`, `take`) on such a field,
  (iii) a call of a repository function g with MayWrite(g) != {} (propagated: fields written through g's own
        `self`/arguments are translated to the caller's argument provenance).
MayWrite(f) is the least fixpoint over the call graph (closures are callees of their parent).
"""
from .facts import callee, callee_short, tyname, is_dyn_call
from .defuse import Tracer, TRANSPARENT_NAMES, fields_of

STATE_ADTS = {'Story', 'StoryState', 'Flow', 'CallStack', 'Thread', 'Element', 'VariablesState', 'StatePatch'}

INTERIOR_MUT = {'RefCell::replace', 'RefCell::swap', 'RefCell::take', 'RefCell::replace_with', 'Cell::set',
                'Cell::replace', 'Cell::take', 'Cell::swap', 'OnceCell::set', 'OnceCell::take'}

# foreign calls taking &mut that do not modify the referent (pure accessors / iteration starts)
NON_MUTATING = TRANSPARENT_NAMES | {'next', 'len', 'is_empty', 'contains', 'contains_key', 'fmt', 'eq', 'ne', 'hash',
                                    'is_some', 'is_none', 'peek', 'as_mut_ptr', 'map', 'and_then', 'unwrap_or_else',
                                    'values_mut', 'find', 'position', 'any', 'all', 'for_each', 'filter', 'count'}


class Effects:
    def __init__(self, prog, state_adts=STATE_ADTS, cache_fields=(), tracer=None):
        self.prog = prog
        self.state_adts = set(state_adts)
        self.cache_fields = set(cache_fields)
        self.tracer = tracer or Tracer(prog)
        self._events = {}
        self._summary = None

    def _state_fields(self, atoms):
        out = set()
        for f in fields_of(atoms):
            adt = f.split('::', 1)[0]
            if adt in self.state_adts and f not in self.cache_fields:
                out.add(f)
        return out

    # ------------------------------------------------------------------ direct events
    def events(self, fn):
        """Direct (non-propagated) events of fn: list of dicts
        {bb, si|None, kind, fields:set, args:set(arg idx whose referent is written), what, callee?}"""
        if fn.p in self._events:
            return self._events[fn.p]
        ev = []
        tr = self.tracer
        for bb, si, s in fn.stmts():
            if s['k'] != 'assign':
                continue
            pl = s['pl']
            if 'p' not in pl:
                continue
            # writes through a deref or into a field of a local struct
            atoms = tr.prov_place(fn, pl)
            fields = self._state_fields(atoms)
            args = {int(a.split(':')[1]) for a in atoms if a.startswith('arg:')}
            through_ref = any(pe['k'] == 'deref' for pe in pl['p'])
            if fields and (through_ref or args or 'closure_env' in atoms or any(a.startswith('upvar:') for a in atoms)):
                ev.append({'bb': bb, 'si': si, 'kind': 'assign', 'fields': fields, 'args': args if through_ref else set(),
                           'what': 'assignment to ' + place_text(pl)})
            elif through_ref and args:
                ev.append({'bb': bb, 'si': si, 'kind': 'assign', 'fields': set(), 'args': args,
                           'what': 'assignment through parameter ' + place_text(pl)})
        for bb, t in fn.calls():
            cp = callee(t)
            cs = callee_short(t)
            if cp in self.prog.fns:
                ev.append({'bb': bb, 'si': None, 'kind': 'repo-call', 'callee': cp, 'cs': cs, 'term': t, 'fields': set(),
                           'args': set(), 'what': 'call ' + cs})
                continue
            if is_dyn_call(t):
                continue
            name = cs.rsplit('::', 1)[-1]
            targs = t['args']
            if cs in INTERIOR_MUT or (name in ('replace', 'set', 'swap', 'take', 'get_or_init', 'get_or_try_init')
                                      and cs.split('::')[0] in ('RefCell', 'Cell', 'OnceCell')):
                if targs:
                    atoms = tr.prov(fn, targs[0])
                    fields = self._state_fields(atoms)
                    args = {int(a.split(':')[1]) for a in atoms if a.startswith('arg:')}
                    if fields or args:
                        ev.append({'bb': bb, 'si': None, 'kind': 'interior', 'fields': fields, 'args': args,
                                   'what': cs, 'cs': cs})
                continue
            if name in NON_MUTATING:
                continue
            for ai, a in enumerate(targs):
                if a['k'] not in ('copy', 'move'):
                    continue
                aty = place_ty(fn, a['pl'])
                if not aty.startswith('&mut '):
                    continue
                atoms = tr.prov(fn, a)
                fields = self._state_fields(atoms)
                args = {int(x.split(':')[1]) for x in atoms if x.startswith('arg:')}
                if fields or args:
                    ev.append({'bb': bb, 'si': None, 'kind': 'mutator', 'fields': fields, 'args': args,
                               'what': '%s(arg%d)' % (cs, ai), 'cs': cs})
        self._events[fn.p] = ev
        return ev

    # ------------------------------------------------------------------ summaries
    def summaries(self):
        """fn path -> (fields:set, args:set) least fixpoint."""
        if self._summary is not None:
            return self._summary
        prog = self.prog
        summ = {p: (set(), set()) for p in prog.fns}
        changed = True
        rounds = 0
        while changed and rounds < 50:
            changed = False
            rounds += 1
            for p, fn in prog.fns.items():
                fields, args = set(summ[p][0]), set(summ[p][1])
                for e in self.events(fn):
                    if e['kind'] == 'repo-call':
                        cf, ca = summ[e['callee']]
                        fields |= cf
                        # translate writes through callee args
                        for i in ca:
                            targs = e['term']['args']
                            if i - 1 < len(targs):
                                atoms = self.tracer.prov(fn, targs[i - 1])
                                fields |= self._state_fields(atoms)
                                args |= {int(x.split(':')[1]) for x in atoms if x.startswith('arg:')}
                                if 'closure_env' in atoms or any(a.startswith('upvar:') for a in atoms):
                                    args.add(1)
                    else:
                        fields |= e['fields']
                        args |= e['args']
                # closures are callees of their parent
                for c in prog.children.get(p, []):
                    cf, ca = summ[c.p]
                    fields |= cf
                    if ca:
                        # captured environment: writes through upvars land in the parent's state
                        args |= set()
                if fn.kind == 'closure':
                    args = {a for a in args}
                if (fields, args) != summ[p]:
                    if fields != summ[p][0] or args != summ[p][1]:
                        summ[p] = (fields, args)
                        changed = True
        self._summary = summ
        return summ

    def may_write(self, fn):
        return self.summaries()[fn.p][0]

    def event_fields(self, fn, e):
        """Fields written by event e of fn, including propagated ones for repo calls."""
        if e['kind'] != 'repo-call':
            return set(e['fields'])
        cf, ca = self.summaries()[e['callee']]
        out = set(cf)
        for i in ca:
            targs = e['term']['args']
            if i - 1 < len(targs):
                out |= self._state_fields(self.tracer.prov(fn, targs[i - 1]))
        return out


def place_text(pl):
    s = '_%d' % pl['l']
    for pe in pl.get('p', []):
        if pe['k'] == 'deref':
            s = '(*%s)' % s
        elif pe['k'] == 'field':
            s += '.' + str(pe.get('n', pe['i']))
        elif pe['k'] == 'index':
            s += '[_]'
        elif pe['k'] == 'downcast':
            s += ' as ' + pe['var']
    return s


def place_ty(fn, pl):
    proj = pl.get('p', [])
    if not proj:
        return fn.local_ty(pl['l'])
    for pe in reversed(proj):
        if pe['k'] == 'field':
            return pe.get('ty', '')
        break
    return ''
