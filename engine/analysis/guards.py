"""P-GUARD: guard-atom abstract interpretation.

A forward dataflow that carries, per block, a set of valuations  atom -> True/False  for a small set of
named boolean program facts (atoms) chosen by the rule. A SwitchInt whose discriminant traces to an atom
refines it on each outgoing edge and edges contradicting the incoming valuation are not followed; every
other switch forks without refinement. Path-sensitive for exactly the named atoms, conservative elsewhere.

Descriptors handed to the rule's `atom_of(desc)` callback:
  ('field', 'Adt::name')                     bool field read
  ('call', callee_short, frozenset(prov of arg0))   predicate call result
  ('is_some', frozenset(prov))               Option::is_some / discriminant==Some of a place
  ('is_ok', frozenset(prov))                 Result::is_ok / discriminant==Ok
  ('arg', n)                                 bool parameter n
  ('cmp', op, frozenset(prov lhs), const)    comparison against a constant
`atom_of` returns an atom name (str) or None (not tracked).
"""
from collections import deque

from .cfg import cfg
from .defuse import du, Tracer
from .facts import callee_short, tyname


class Cond:
    """Resolved discriminant: atom descriptor + how switch values map to truth."""

    def __init__(self, desc, positive=True, mode='bool', variant_true=None):
        self.desc = desc
        self.positive = positive
        self.mode = mode            # 'bool' (0 = false, else true) | 'discr' (value == variant_true -> true)
        self.variant_true = variant_true

    def truth_of_value(self, v):
        if self.mode == 'bool':
            t = (v != 0)
        else:
            t = (v == self.variant_true)
        return t if self.positive else (not t)


def resolve_cond(prog, fn, op, tracer, depth=0, seen=None):
    """Trace a switch discriminant operand to a condition descriptor."""
    if seen is None:
        seen = set()
    if depth > 12 or op['k'] not in ('copy', 'move'):
        return None
    pl = op['pl']
    proj = pl.get('p', [])
    if proj:
        last = proj[-1]
        if last['k'] == 'field' and last.get('ty') == 'bool' and 'adt' in last:
            return Cond(('field', '%s::%s' % (tyname(last['adt']), last['n'])))
        return None
    l = pl['l']
    if l in seen:
        return None
    seen.add(l)
    d = du(fn)
    if 1 <= l <= d.argc and not d.defs.get(l):
        if fn.local_ty(l) == 'bool':
            return Cond(('arg', l))
        return None
    df = d.single_def(l)
    if df is None:
        return None
    if df['kind'] == 'assign':
        rv = df['rv']
        k = rv['k']
        if k == 'use':
            return resolve_cond(prog, fn, rv['op'], tracer, depth + 1, seen)
        if k == 'unop' and rv['op'] == 'Not':
            c = resolve_cond(prog, fn, rv['a'], tracer, depth + 1, seen)
            if c:
                c.positive = not c.positive
            return c
        if k == 'discr':
            ty = rv.get('ty', '')
            prov = frozenset(tracer.prov_place(fn, rv['pl']))
            if ty.startswith('core::option::Option<'):
                return Cond(('is_some', prov), True, 'discr', 1)
            if ty.startswith('core::result::Result<'):
                return Cond(('is_ok', prov), True, 'discr', 0)
            if ty.startswith('core::ops::control_flow::ControlFlow<'):
                # `?` : Continue = 0 means the Try value was Ok/Some
                return Cond(('is_continue', prov), True, 'discr', 0)
            return Cond(('discr', tyname(rv.get('adt', ty)), prov), True, 'discr', None)
        if k == 'binop' and rv['op'] in ('Eq', 'Ne', 'Lt', 'Le', 'Gt', 'Ge'):
            a, b = rv['a'], rv['b']
            if b['k'] == 'const':
                cv = b.get('int', b.get('bool', b.get('str', b.get('char'))))
                return Cond(('cmp', rv['op'], frozenset(tracer.prov(fn, a)), cv))
            if a['k'] == 'const':
                cv = a.get('int', a.get('bool', a.get('str', a.get('char'))))
                return Cond(('cmp', 'r' + rv['op'], frozenset(tracer.prov(fn, b)), cv))
            return Cond(('cmp2', rv['op'], frozenset(tracer.prov(fn, a)), frozenset(tracer.prov(fn, b))))
        return None
    if df['kind'] == 'call':
        return cond_of_call(prog, fn, df['term'], tracer, depth, seen)
    return None


def cond_of_call(prog, fn, t, tracer, depth=0, seen=None):
    """Condition descriptor for the boolean result of a call terminator."""
    if True:
        cs = callee_short(t)
        name = cs.rsplit('::', 1)[-1]
        args = t['args']
        a0 = frozenset(tracer.prov(fn, args[0])) if args else frozenset()
        if cs in ('Option::is_some', 'Option::is_none'):
            return Cond(('is_some', a0), name == 'is_some')
        if cs in ('Result::is_ok', 'Result::is_err'):
            return Cond(('is_ok', a0), name == 'is_ok')
        if cs == '<bool as Not>::not' and args:
            c = resolve_cond(prog, fn, args[0], tracer, depth + 1, seen)
            if c:
                c.positive = not c.positive
            return c
        return Cond(('call', cs, a0))


_VARIANT_INDEX = {'Ok': 0, 'Err': 1, 'None': 0, 'Some': 1, 'Continue': 0, 'Break': 1}


class GuardFlow:
    def __init__(self, prog, fn, atom_of, tracer=None, kills=None, assume=None):
        """atom_of(desc) -> atom name or None.
        kills(fn, bb, term_or_stmt) -> iterable of atom names whose valuation becomes unknown.
        assume: dict of atom -> bool at function entry."""
        self.prog = prog
        self.fn = fn
        self.atom_of = atom_of
        self.tracer = tracer or Tracer(prog)
        self.kills = kills
        self.cfg = cfg(fn)
        self.entry = frozenset((assume or {}).items())
        self.states = None
        self.edge_states = {}
        self._conds = {}
        self._multi_def_bools = self._find_merge_bools()
        self._variant_locals = self._find_variant_locals()

    def _find_merge_bools(self):
        """bool locals whose value is tracked in the path state: those with several definitions (merge temps of `&&`,
        `||`, `match`), and - transitively - plain copies of such locals (a helper's result handed on through its return
        place when the helper has been spliced in)."""
        d = du(self.fn)
        out = set()
        for l, defs in d.defs.items():
            if self.fn.local_ty(l) == 'bool' and len([x for x in defs if x['kind'] in ('assign', 'call')]) > 1:
                out.add(l)
        changed = True
        while changed:
            changed = False
            for l, defs in d.defs.items():
                if l in out or self.fn.local_ty(l) != 'bool':
                    continue
                for x in defs:
                    if x['kind'] == 'assign' and x['rv']['k'] == 'use' and x['rv']['op'].get('k') in ('copy', 'move') \
                            and 'p' not in x['rv']['op']['pl'] and x['rv']['op']['pl']['l'] in out:
                        out.add(l)
                        changed = True
                        break
        return out

    def _find_variant_locals(self):
        """Locals whose enum variant (Ok / Err, Some / None, Continue / Break) is followed along the path: the return
        places of helpers that have been spliced in, and whatever their value is copied / `branch`ed into.  Empty for a
        function without spliced helpers, so nothing changes there."""
        fn = self.fn
        tracked = set(getattr(fn, 'ret_locals', None) or ())
        if not tracked:
            return tracked
        changed = True
        while changed:
            changed = False
            for bb, si, s in fn.stmts():
                if s['k'] == 'assign' and 'p' not in s['pl'] and s['pl']['l'] not in tracked:
                    rv = s['rv']
                    src = rv.get('op') if rv['k'] == 'use' else None
                    if src and src.get('k') in ('copy', 'move') and 'p' not in src['pl'] and src['pl']['l'] in tracked:
                        tracked.add(s['pl']['l'])
                        changed = True
            for bb, t in fn.calls():
                d = t.get('dest')
                if d and 'p' not in d and d['l'] not in tracked and t['args'] \
                        and callee_short(t).rsplit('::', 1)[-1] in ('branch', 'map_err', 'ok_or', 'ok_or_else', 'into'):
                    a = t['args'][0]
                    if a.get('k') in ('copy', 'move') and 'p' not in a['pl'] and a['pl']['l'] in tracked:
                        tracked.add(d['l'])
                        changed = True
        return tracked

    def cond_at(self, bb):
        if bb in self._conds:
            return self._conds[bb]
        t = self.fn.blocks[bb]['term']
        c = None
        if t and t['k'] == 'switch':
            c = resolve_cond(self.prog, self.fn, t['d'], self.tracer)
        self._conds[bb] = c
        return c

    def atom_for_cond(self, c):
        if c is None:
            return None
        return self.atom_of(c.desc)

    # ---- transfer -------------------------------------------------------
    def _apply_stmts(self, bb, st):
        """st: dict valuation. Handles merge-temp bool locals ('L:n') and field writes."""
        fn = self.fn
        for si, s in enumerate(fn.blocks[bb]['st']):
            if s['k'] != 'assign':
                continue
            pl = s['pl']
            rv = s['rv']
            if 'p' not in pl and pl['l'] in self._variant_locals:
                vk = 'V:%d' % pl['l']
                st.pop(vk, None)
                if rv['k'] == 'agg' and rv.get('var') in _VARIANT_INDEX:
                    st[vk] = rv['var']
                elif rv['k'] == 'use' and rv['op'].get('k') in ('copy', 'move') and 'p' not in rv['op']['pl'] \
                        and ('V:%d' % rv['op']['pl']['l']) in st:
                    st[vk] = st['V:%d' % rv['op']['pl']['l']]
            if 'p' not in pl and pl['l'] in self._multi_def_bools:
                key = 'L:%d' % pl['l']
                st.pop(key, None)
                st.pop('A:%d' % pl['l'], None)
                la = self.atom_of(('local', fn.local_name(pl['l']))) if fn.local_name(pl['l']) else None
                if la is not None:
                    st.pop(la, None)
                    if rv['k'] == 'use' and rv['op']['k'] == 'const' and 'bool' in rv['op']:
                        st[la] = rv['op']['bool']
                if rv['k'] == 'use' and rv['op']['k'] == 'const' and 'bool' in rv['op']:
                    st[key] = rv['op']['bool']
                elif rv['k'] == 'use':
                    c = resolve_cond(self.prog, fn, rv['op'], self.tracer)
                    a = self.atom_for_cond(c)
                    if a is not None and c.mode == 'bool':
                        if a in st:
                            st[key] = st[a] if c.positive else (not st[a])
                        else:
                            st['A:%d' % pl['l']] = (a, c.positive)
                    else:
                        src = rv['op']
                        if src['k'] in ('copy', 'move') and 'p' not in src['pl']:
                            if ('L:%d' % src['pl']['l']) in st:
                                st[key] = st['L:%d' % src['pl']['l']]
                            elif ('A:%d' % src['pl']['l']) in st:
                                st['A:%d' % pl['l']] = st['A:%d' % src['pl']['l']]
                            elif src['pl']['l'] in self._multi_def_bools:
                                st['A:%d' % pl['l']] = ('L:%d' % src['pl']['l'], True)
                elif rv['k'] == 'unop' and rv['op'] == 'Not':
                    c = resolve_cond(self.prog, fn, rv['a'], self.tracer)
                    a = self.atom_for_cond(c)
                    if a is not None and c.mode == 'bool':
                        if a in st:
                            v = st[a] if c.positive else (not st[a])
                            st[key] = not v
                        else:
                            st['A:%d' % pl['l']] = (a, not c.positive)
            # field writes to a tracked bool field
            proj = pl.get('p', [])
            if proj and proj[-1]['k'] == 'field' and 'adt' in proj[-1]:
                a = self.atom_of(('field', '%s::%s' % (tyname(proj[-1]['adt']), proj[-1]['n'])))
                if a is not None:
                    st['W:' + a] = True
                    if rv['k'] == 'use' and rv['op']['k'] == 'const' and 'bool' in rv['op']:
                        st[a] = rv['op']['bool']
                    else:
                        st.pop(a, None)
                        if rv['k'] == 'use':
                            c = resolve_cond(self.prog, fn, rv['op'], self.tracer)
                            a2 = self.atom_for_cond(c)
                            if a2 is not None and a2 in st and c.mode == 'bool':
                                st[a] = st[a2] if c.positive else (not st[a2])
            if self.kills:
                self._apply_kills(st, self.kills(fn, bb, s))

    @staticmethod
    def _apply_kills(st, ks):
        if not ks:
            return
        items = ks.items() if isinstance(ks, dict) else [(a, None) for a in ks]
        for a, v in items:
            st['W:' + a] = True
            if v is None:
                st.pop(a, None)
            else:
                st[a] = v

    def _out_edges(self, bb, st):
        """Yield (succ, new_state_dict) for each feasible outgoing edge."""
        fn = self.fn
        t = fn.blocks[bb]['term']
        if t is None:
            return
        k = t['k']
        if k == 'switch':
            d = t['d']
            # switch on a merge temp (possibly through a `tmp = copy x` made in this very block)?
            ml = None
            if d['k'] in ('copy', 'move') and 'p' not in d['pl']:
                ml = d['pl']['l']
                if ml not in self._multi_def_bools:
                    df = du(fn).single_def(ml)
                    ml = None
                    if df and df['kind'] == 'assign' and df['bb'] == bb and df['rv']['k'] == 'use' \
                            and df['rv']['op']['k'] in ('copy', 'move') and 'p' not in df['rv']['op']['pl'] \
                            and df['rv']['op']['pl']['l'] in self._multi_def_bools:
                        ml = df['rv']['op']['pl']['l']
            if ml is not None:
                l = ml
                key = 'L:%d' % l
                alias = st.get('A:%d' % l)
                lvals = [v for v, _ in t['ts']]
                for v, tgt in self._switch_edges(t):
                    if v is not None:
                        truth = (v != 0)
                    else:
                        rest = {0, 1} - set(lvals)
                        if len(rest) != 1:
                            yield tgt, st
                            continue
                        truth = (rest.pop() != 0)
                    if key in st and st[key] != truth:
                        continue
                    ns = dict(st)
                    ns[key] = truth
                    la = self.atom_of(('local', self.fn.local_name(l))) if self.fn.local_name(l) else None
                    if la is not None:
                        if la in ns and ns[la] != truth:
                            continue
                        ns[la] = truth
                    if alias:
                        a, pos = alias
                        av = truth if pos else (not truth)
                        if a in ns and ns[a] != av:
                            continue
                        ns[a] = av
                    yield tgt, ns
                return
            if self._variant_locals and d['k'] in ('copy', 'move') and 'p' not in d['pl']:
                df = du(fn).single_def(d['pl']['l'])
                if df and df['kind'] == 'assign' and df['rv']['k'] == 'discr' and 'p' not in df['rv']['pl'] \
                        and ('V:%d' % df['rv']['pl']['l']) in st:
                    idx = _VARIANT_INDEX[st['V:%d' % df['rv']['pl']['l']]]
                    listed = [v for v, _ in t['ts']]
                    for v, tgt in t['ts']:
                        if v == idx:
                            yield tgt, st
                    if idx not in listed:
                        yield t['else'], st
                    return
            c = self.cond_at(bb)
            a = self.atom_for_cond(c)
            if a is None:
                for s in self.cfg.succ[bb]:
                    yield s, st
                return
            vals = [v for v, _ in t['ts']]
            for v, tgt in self._switch_edges(t):
                if c.mode == 'discr' and c.variant_true is None:
                    truth = None
                elif v is None:
                    # otherwise edge: for the two-valued domains (bool, Option, Result, ControlFlow)
                    # it stands for the one value not listed
                    rest = {0, 1} - set(vals)
                    truth = c.truth_of_value(rest.pop()) if len(rest) == 1 else None
                else:
                    truth = c.truth_of_value(v)
                if truth is None:
                    yield tgt, st
                    continue
                if a in st and st[a] != truth:
                    continue
                ns = dict(st)
                ns[a] = truth
                if c.desc[0] == 'field' and ('W:' + a) not in st:
                    ns.setdefault('entry:' + a, truth)
                yield tgt, ns
            return
        if k == 'call':
            ns = st
            if self.kills:
                ks = self.kills(fn, bb, t)
                if ks:
                    ns = dict(st)
                    self._apply_kills(ns, ks)
            dst = t.get('dest')
            if dst and 'p' not in dst and dst['l'] in self._variant_locals:
                ns = dict(ns)
                vk = 'V:%d' % dst['l']
                ns.pop(vk, None)
                nm = callee_short(t).rsplit('::', 1)[-1]
                a0 = t['args'][0] if t['args'] else None
                av = ns.get('V:%d' % a0['pl']['l']) if a0 and a0.get('k') in ('copy', 'move') and 'p' not in a0['pl'] else None
                if nm == 'from_residual':
                    ns[vk] = 'Err' if 'result::Result' in fn.local_ty(dst['l']) else 'None'
                elif av is not None:
                    if nm == 'branch':
                        ns[vk] = 'Continue' if av in ('Ok', 'Some') else 'Break'
                    elif nm in ('map_err', 'into'):
                        ns[vk] = av
                    elif nm in ('ok_or', 'ok_or_else'):
                        ns[vk] = 'Ok' if av == 'Some' else 'Err'
            if dst and 'p' not in dst and dst['l'] in self._multi_def_bools:
                # a merge-temp bool defined by a call on this path (`a && x.is_some()`)
                ns = dict(ns)
                l = dst['l']
                ns.pop('L:%d' % l, None)
                ns.pop('A:%d' % l, None)
                c = cond_of_call(self.prog, fn, t, self.tracer)
                a = self.atom_for_cond(c)
                if a is not None and c.mode == 'bool':
                    if a in ns:
                        ns['L:%d' % l] = ns[a] if c.positive else (not ns[a])
                    else:
                        ns['A:%d' % l] = (a, c.positive)
            if 't' in t:
                yield t['t'], ns
            return
        for s in self.cfg.succ[bb]:
            yield s, st

    @staticmethod
    def _switch_edges(t):
        for v, bb in t['ts']:
            yield v, bb
        yield None, t['else']

    def run(self, max_states=4000):
        states = {0: {self.entry}}
        dq = deque([(0, self.entry)])
        count = 0
        while dq:
            bb, fs = dq.popleft()
            count += 1
            if count > 400000:
                raise RuntimeError('guard flow did not converge in %s' % self.fn.short)
            st = dict(fs)
            self._apply_stmts(bb, st)
            for succ, ns in self._out_edges(bb, st):
                # drop merge-temp info that is dead? keep simple: keep all
                f = frozenset(ns.items())
                self.edge_states.setdefault((bb, succ), set()).add(f)
                ss = states.setdefault(succ, set())
                if f not in ss:
                    if len(ss) > max_states:
                        raise RuntimeError('too many guard states in %s' % self.fn.short)
                    ss.add(f)
                    dq.append((succ, f))
        self.states = states
        return states

    def feasible_path(self, starts, is_target, avoid=()):
        """Is there a path, feasible under the tracked conditions, that passes one of `starts` and then reaches a block
        satisfying is_target without touching `avoid`?  Returns the list of blocks of such a path or None."""
        starts, avoid = set(starts), set(avoid)
        seen = set()
        stack = [(0, self.entry, False, (0,))]
        while stack:
            b, fs, started, pth = stack.pop()
            if started and b in avoid:
                continue
            if b in starts:
                started = True
            if started and is_target(b) and b not in starts:
                return list(pth)
            if (b, fs, started) in seen:
                continue
            seen.add((b, fs, started))
            st = dict(fs)
            self._apply_stmts(b, st)
            for succ, ns in self._out_edges(b, st):
                stack.append((succ, frozenset(ns.items()), started, pth + (succ,) if len(pth) < 60 else pth))
        return None

    def valuations_at(self, bb, atoms=None):
        """Set of valuations (as dict restricted to `atoms`) reaching block entry."""
        if self.states is None:
            self.run()
        out = []
        for f in self.states.get(bb, ()):
            d = dict(f)
            if atoms is not None:
                d = {a: d.get(a) for a in atoms}
            else:
                d = {k: v for k, v in d.items() if not k.startswith(('L:', 'A:', 'W:'))}
            if d not in out:
                out.append(d)
        return out

    def reachable(self, bb):
        if self.states is None:
            self.run()
        return bb in self.states
