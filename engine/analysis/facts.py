"""Facts: run the extractor over /repo's current working tree (content-addressed
cache) and load the resulting program model.

Nothing here executes code of /repo: `cargo +nightly check` only type-checks it;
the rustc_private driver dumps ADTs / impls / MIR as JSON.
"""
import fcntl
import glob
import hashlib
import json
import os
import re
import shutil
import subprocess
import sys
import time

VERIF = os.path.abspath(os.path.join(os.path.dirname(__file__), '..', '..'))
REPO = os.environ.get('INK_REPO', '/repo')
CACHE = os.path.join(VERIF, '.cache')
EXTRACTOR_DIR = os.path.join(VERIF, 'engine', 'extractor')
EXTRACTOR_BIN = os.path.join(EXTRACTOR_DIR, 'target', 'release', 'ink-facts')
MEMBER_CRATES = ['bladeink', 'bladeink_compiler', 'rinklecate']
MEMBER_PKGS = ['bladeink', 'bladeink-compiler', 'rinklecate', 'conformance-tests']


def tree_hash(repo=REPO):
    h = hashlib.sha256()
    files = []
    for root, dirs, fs in os.walk(repo):
        dirs[:] = sorted(d for d in dirs if d not in ('target', '.git', 'node_modules'))
        for f in sorted(fs):
            if f.endswith('.rs') or f in ('Cargo.toml', 'Cargo.lock', 'rust-toolchain.toml', 'config.toml'):
                files.append(os.path.join(root, f))
    for p in sorted(files):
        h.update(os.path.relpath(p, repo).encode())
        h.update(b'\0')
        with open(p, 'rb') as fh:
            h.update(fh.read())
        h.update(b'\0')
    with open(os.path.join(EXTRACTOR_DIR, 'src', 'main.rs'), 'rb') as fh:
        h.update(fh.read())
    return h.hexdigest()[:24], len(files)


def sysroot():
    return subprocess.check_output(['rustc', '+nightly', '--print', 'sysroot'], text=True).strip()


def build_extractor():
    if os.path.exists(EXTRACTOR_BIN) and os.path.getmtime(EXTRACTOR_BIN) >= os.path.getmtime(
            os.path.join(EXTRACTOR_DIR, 'src', 'main.rs')):
        return
    env = dict(os.environ, CARGO_NET_OFFLINE='true')
    r = subprocess.run(['cargo', '+nightly', 'build', '--release', '--offline'], cwd=EXTRACTOR_DIR, env=env,
                       stdout=subprocess.PIPE, stderr=subprocess.STDOUT, text=True)
    if r.returncode != 0:
        sys.stderr.write(r.stdout)
        raise SystemExit('extractor build failed')


def run_extractor(repo, out_dir, target_dir, extra_env=None):
    """Type-check `repo` with the facts driver as workspace wrapper."""
    build_extractor()
    os.makedirs(out_dir, exist_ok=True)
    os.makedirs(target_dir, exist_ok=True)
    # cargo's freshness cache would skip the wrapper: forget the members
    fp = os.path.join(target_dir, 'debug', '.fingerprint')
    if os.path.isdir(fp):
        for d in os.listdir(fp):
            if any(d.startswith(p + '-') for p in MEMBER_PKGS):
                shutil.rmtree(os.path.join(fp, d), ignore_errors=True)
    env = dict(os.environ)
    env.update({
        'LD_LIBRARY_PATH': os.path.join(sysroot(), 'lib'),
        'RUSTFLAGS': '-Zmir-opt-level=0 -Awarnings',
        'RUSTC_WORKSPACE_WRAPPER': EXTRACTOR_BIN,
        'INK_FACTS_DIR': out_dir,
        'CARGO_TARGET_DIR': target_dir,
        'CARGO_NET_OFFLINE': 'true',
        'CARGO_INCREMENTAL': '0',
    })
    if extra_env:
        env.update(extra_env)
    r = subprocess.run(['cargo', '+nightly', 'check', '--offline', '--workspace', '--manifest-path',
                        os.path.join(repo, 'Cargo.toml')], env=env, cwd=repo,
                       stdout=subprocess.PIPE, stderr=subprocess.STDOUT, text=True)
    return r.returncode, r.stdout


def ensure_facts(repo=REPO):
    """Return the directory holding the facts of repo's current working tree."""
    key, nfiles = tree_hash(repo)
    d = os.path.join(CACHE, 'facts', key)
    os.makedirs(os.path.join(CACHE, 'facts'), exist_ok=True)
    lock = open(os.path.join(CACHE, 'extract.lock'), 'w')
    fcntl.flock(lock, fcntl.LOCK_EX)
    try:
        if os.path.exists(os.path.join(d, 'DONE')):
            return d, key, nfiles
        tmp = d + '.tmp%d' % os.getpid()
        shutil.rmtree(tmp, ignore_errors=True)
        t0 = time.time()
        rc, out = run_extractor(repo, tmp, os.path.join(CACHE, 'target'))
        if rc != 0:
            sys.stderr.write(out[-6000:])
            shutil.rmtree(tmp, ignore_errors=True)
            raise SystemExit('FATAL: /repo does not type-check under the facts extractor (rc=%d)' % rc)
        have = {os.path.basename(p).rsplit('-', 1)[0] for p in glob.glob(os.path.join(tmp, '*.json'))}
        missing = [c for c in MEMBER_CRATES if c not in have]
        if missing:
            shutil.rmtree(tmp, ignore_errors=True)
            raise SystemExit('FATAL: extractor produced no facts for crates %s' % missing)
        with open(os.path.join(tmp, 'DONE'), 'w') as fh:
            fh.write('%.1f\n' % (time.time() - t0))
        shutil.rmtree(d, ignore_errors=True)
        os.rename(tmp, d)
        # keep the cache small: drop all but the 6 newest fact sets
        sets = sorted(glob.glob(os.path.join(CACHE, 'facts', '*')), key=os.path.getmtime, reverse=True)
        for old in sets[6:]:
            shutil.rmtree(old, ignore_errors=True)
        return d, key, nfiles
    finally:
        fcntl.flock(lock, fcntl.LOCK_UN)
        lock.close()


# ----------------------------------------------------------------------------
# program model

_GEN = re.compile(r'::<')


def strip_generics(p):
    """Remove `::<...>` and `<...>` generic argument lists (balanced), but keep
    leading `<A as B>` / `<impl A>` qualifiers."""
    out = []
    i = 0
    n = len(p)
    while i < n:
        c = p[i]
        if c == '<':
            # qualifier at segment start?  (start of string or after '::')
            at_seg = (i == 0) or p[i - 2:i] == '::'
            # find the matching '>'
            depth = 0
            j = i
            while j < n:
                if p[j] == '<':
                    depth += 1
                elif p[j] == '>' and p[j - 1] != '-':
                    depth -= 1
                    if depth == 0:
                        break
                j += 1
            inner = p[i + 1:j]
            is_qual = at_seg and (inner.startswith('impl ') or (i == 0 and split_as(inner)[1] != ''))
            is_turbofish = at_seg and not is_qual
            if is_qual:
                if inner.startswith('impl '):
                    body = inner[5:]
                    if ' for ' in body:
                        tr, ty = body.split(' for ', 1)
                        out.append('<impl %s for %s>' % (last_seg(strip_generics(tr)), last_seg(strip_generics(ty))))
                    else:
                        out.append('<impl %s>' % last_seg(strip_generics(body)))
                else:
                    a, b = split_as(inner)
                    out.append('<%s as %s>' % (tyname(a), last_seg(strip_generics(b))))
            else:
                # generic args: drop (and a preceding '::' if turbofish)
                if out and out[-1] == '::' and is_turbofish:
                    out.pop()
            i = j + 1
            continue
        if p.startswith('::', i):
            out.append('::')
            i += 2
            continue
        out.append(c)
        i += 1
    return ''.join(out)


def _is_turbofish(p, i):
    # `Foo::<T>::bar` : '<' directly after '::' and preceded by an identifier
    # (not at start of a path). `<A as B>::f` at start or after "::" following
    # nothing is a qualifier.
    k = i - 2
    if k <= 0:
        return False
    return p[k - 1].isalnum() or p[k - 1] in '_>}'


def split_as(inner):
    depth = 0
    i = 0
    while i < len(inner):
        c = inner[i]
        if c == '<':
            depth += 1
        elif c == '>' and inner[i - 1] != '-':
            depth -= 1
        elif depth == 0 and inner.startswith(' as ', i):
            return inner[:i], inner[i + 4:]
        i += 1
    return inner, ''


def tyname(t):
    """Short readable name for a type text: refs kept, paths cut to last segment."""
    t = t.strip()
    pre = ''
    while True:
        if t.startswith('&mut '):
            pre += '&mut '
            t = t[5:]
        elif t.startswith('&'):
            pre += '&'
            t = t[1:].lstrip()
            if t.startswith("'"):
                t = t.split(' ', 1)[1] if ' ' in t else t
        elif t.startswith('dyn '):
            pre += 'dyn '
            t = t[4:]
        else:
            break
    return pre + last_seg(strip_generics(t))


def last_seg(p):
    p = p.strip()
    if p.startswith('<'):
        return p
    depth = 0
    last = 0
    i = 0
    while i < len(p):
        c = p[i]
        if c in '<([':
            depth += 1
        elif c in '>)]' and p[i - 1] != '-':
            depth -= 1
        elif depth == 0 and p.startswith('::', i):
            last = i + 2
            i += 1
        i += 1
    return p[last:]


_short_cache = {}


def short(p):
    """`bladeink::story::errors::<impl bladeink::story::Story>::reset_errors` -> `Story::reset_errors`
    `bladeink::story_state::StoryState::reset_errors` -> `StoryState::reset_errors`
    `<bladeink::container::Container as bladeink::object::RTObject>::get_object` -> `<Container as RTObject>::get_object`
    `std::option::Option::<T>::unwrap` -> `Option::unwrap`
    `bladeink::json::json_read::jtoken_to_runtime_object` -> `json_read::jtoken_to_runtime_object`
    closures keep `::{closure#N}` suffixes."""
    if p in _short_cache:
        return _short_cache[p]
    s = strip_generics(p)
    segs = split_path(s)
    # trailing closure segments
    tail = []
    while segs and segs[-1].startswith('{'):
        tail.insert(0, segs.pop())
    core = segs
    # <impl X> -> X ; drop everything before
    for i, sg in enumerate(core):
        if sg.startswith('<impl '):
            inner = sg[6:-1]
            if ' for ' in inner:
                tr, ty = inner.split(' for ', 1)
                core = ['<%s as %s>' % (ty, tr)] + core[i + 1:]
            else:
                core = [inner] + core[i + 1:]
            break
    for i in range(len(core) - 1, -1, -1):
        if core[i].startswith('<') and ' as ' in core[i]:
            core = core[i:]
            break
    else:
        core = core[-2:]
    r = '::'.join(core + tail)
    _short_cache[p] = r
    return r


def split_path(s):
    segs = []
    depth = 0
    cur = ''
    i = 0
    while i < len(s):
        c = s[i]
        if c in '<([{':
            depth += 1
        elif c in '>)]}' and s[i - 1] != '-':
            depth -= 1
        if depth == 0 and s.startswith('::', i):
            segs.append(cur)
            cur = ''
            i += 2
            continue
        cur += c
        i += 1
    if cur:
        segs.append(cur)
    return segs


class Fn:
    __slots__ = ('raw', 'p', 'short', 'name', 'kind', 'pub', 'self_ty', 'self_adt', 'trait', 'crate', 'body',
                 'promoted', 'sp', 'parent', 'root', '_cfg', '_du', 'blocks', 'inlined_from', 'extra_children', 'ret_locals')

    def __init__(self, raw, crate):
        self.raw = raw
        self.p = raw['p']
        self.short = short(self.p)
        self.name = raw.get('name', '')
        self.kind = raw['kind']
        self.pub = raw.get('pub', False)
        self.self_ty = raw.get('self')
        self.self_adt = raw.get('self_adt')
        self.trait = raw.get('trait')
        self.crate = crate
        self.body = raw['body']
        self.blocks = self.body['blocks']
        self.promoted = raw.get('promoted', [])
        self.sp = raw['sp']
        self.parent = raw.get('parent')
        self.root = raw.get('root')
        self._cfg = None
        self._du = None
        self.ret_locals = frozenset()
        self.inlined_from = None
        self.extra_children = None

    def __repr__(self):
        return 'Fn(%s)' % self.short

    @property
    def file(self):
        return self.sp['f']

    def terms(self):
        for i, b in enumerate(self.blocks):
            if b.get('cleanup'):
                continue
            t = b['term']
            if t:
                yield i, t

    def calls(self):
        for i, t in self.terms():
            if t['k'] == 'call':
                yield i, t

    def stmts(self):
        for i, b in enumerate(self.blocks):
            if b.get('cleanup'):
                continue
            for k, s in enumerate(b['st']):
                yield i, k, s

    def local_ty(self, l):
        return self.body['locals'][l]['ty']

    def local_name(self, l):
        for d in self.body['dbg']:
            if d['pl']['l'] == l and 'p' not in d['pl']:
                return d['n']
        return None

    def loc(self, bb, si=None):
        b = self.blocks[bb]
        if si is not None and si < len(b['st']):
            sp = b['st'][si]['sp']
        else:
            sp = b['term']['sp']
        return '%s:%d' % (sp['f'], sp['l'])


class Program:
    def __init__(self, facts_dir):
        self.crates = {}
        self.fns = {}
        self.adts = {}
        self.impls = []
        self.by_short = {}
        for f in sorted(glob.glob(os.path.join(facts_dir, '*.json'))):
            with open(f) as fh:
                d = json.load(fh)
            cr = d['crate']
            self.crates[cr] = d
            for a in d['adts']:
                a['crate'] = cr
                self.adts[a['p']] = a
            for im in d['impls']:
                im['crate'] = cr
                self.impls.append(im)
            for raw in d['fns']:
                fn = Fn(raw, cr)
                self.fns[fn.p] = fn
                self.by_short.setdefault(fn.short, []).append(fn)
        self.children = {}
        for fn in self.fns.values():
            if fn.parent:
                self.children.setdefault(fn.parent, []).append(fn)

    # ---- lookup
    def fn(self, short_name, crate=None):
        """Unique function by short name; None if absent; raises if ambiguous."""
        c = [f for f in self.by_short.get(short_name, []) if crate is None or f.crate == crate]
        if not c:
            return None
        if len(c) > 1:
            raise KeyError('ambiguous fn %s: %s' % (short_name, [f.p for f in c]))
        return c[0]

    # ---- normalisation: "extract method" refactorings are undone before any rule looks at the program
    def normalise(self, known):
        """Splice every NEW helper (a function that is not in `known`, not pub, not a closure / trait method, called from
        exactly one place in its own crate) into its only caller, repeatedly, and drop it from the function table.  The
        rules then see the program as if the helper had never been extracted.  With no new helper this is the identity."""
        if known is None or getattr(self, 'normalised', False):
            return
        self.normalised = True
        from .inline import inlined, is_new_helper, drop_cyclic
        helpers = drop_cyclic(self, {f.p: f for f in self.fns.values() if is_new_helper(self, f, known)})
        self.inlined_helpers = sorted(short(p_) for p_ in helpers)
        if not helpers:
            return
        self.all_fns = dict(self.fns)
        home = {}
        absorbers = {}
        new_fns = {}
        for p_, f in self.fns.items():
            if p_ in helpers:
                continue
            nf = inlined(self, f, helpers)
            new_fns[p_] = nf
            for h in (nf.inlined_from or []):
                home.setdefault(h, p_)
                absorbers.setdefault(h, []).append(p_)
        # closures of helpers move to the unit(s) that absorbed the helper (a shared helper has several)
        self.helper_home = home
        self.fns = new_fns
        self.by_short = {}
        for f in self.fns.values():
            self.by_short.setdefault(f.short, []).append(f)
        self.children = {}

        def _roots(par, depth=0):
            if par in absorbers and depth < 8:
                out = []
                for a in absorbers[par]:
                    out.extend(_roots(a, depth + 1))
                return out
            return [par]
        for f in self.fns.values():
            if f.parent:
                for par in dict.fromkeys(_roots(f.parent)):
                    self.children.setdefault(par, []).append(f)
        self._cidx = None

    def fns_named(self, short_name):
        return list(self.by_short.get(short_name, []))

    def adt(self, suffix):
        c = [a for p, a in self.adts.items() if p == suffix or p.endswith('::' + suffix)]
        if len(c) == 1:
            return c[0]
        if not c:
            return None
        raise KeyError('ambiguous adt %s' % suffix)

    def closures_of(self, fn, recursive=True):
        out = []
        for c in self.children.get(fn.p, []):
            out.append(c)
            if recursive:
                out.extend(self.closures_of(c))
        return out

    def with_closures(self, fn):
        return [fn] + self.closures_of(fn)

    def call_index(self):
        """callee short name -> [(caller Fn, bb, terminator)] over all analysed functions."""
        if getattr(self, '_cidx', None) is None:
            idx = {}
            for fn in self.fns.values():
                for bb, t in fn.calls():
                    idx.setdefault(callee_short(t), []).append((fn, bb, t))
                    ds = callee_def_short(t)
                    if ds != callee_short(t):
                        idx.setdefault(ds, []).append((fn, bb, t))
            self._cidx = idx
        return self._cidx

    def callers(self, short_name):
        return self.call_index().get(short_name, [])

    def root_fn(self, fn):
        """The named function a closure belongs to (itself for named functions)."""
        home = getattr(self, 'helper_home', None) or {}
        while fn.parent:
            par = fn.parent
            while par in home:
                par = home[par]
            if par not in self.fns:
                break
            fn = self.fns[par]
        return fn

    def impls_of_trait(self, trait_suffix):
        return [im for im in self.impls if im.get('trait') and (
            im['trait'] == trait_suffix or im['trait'].endswith('::' + trait_suffix))]


def callee(t):
    """Canonical (resolved if possible) callee path of a call terminator."""
    f = t['f']
    return f.get('res') or f.get('def') or ''


def callee_short(t):
    return short(callee(t))


def callee_def_short(t):
    return short(t['f'].get('def', '') or '')


def is_dyn_call(t):
    return t['f'].get('rk') == 'virtual'


_program_cache = {}


KNOWN_FUNCTIONS = os.path.join(os.path.dirname(os.path.dirname(os.path.abspath(__file__))), 'known_functions.txt')


def anchor_names():
    """Functions that are never spliced into their caller: every function that existed when the rules were confirmed
    (engine/known_functions.txt, regenerated with `./check --known-functions`).  Only a function that is NEW relative to
    that list, private and called from exactly one place - the product of an "extract method" refactoring - is
    inlined, so on the tree the rules were written for the analysed bodies are exactly rustc's."""
    try:
        return {l.strip() for l in open(KNOWN_FUNCTIONS) if l.strip()}
    except OSError:
        return None


def write_known_functions(prog):
    # from the program as extracted: a new helper with a single caller has already been spliced into that caller in
    # `prog` (normalise) and would never be recorded
    raw = Program(prog.facts_dir)
    names = sorted({f.short for f in raw.fns.values() if not f.parent})
    with open(KNOWN_FUNCTIONS, 'w') as fh:
        fh.write('\n'.join(names) + '\n')
    return len(names)


def load_program(repo=REPO):
    d, key, nfiles = ensure_facts(repo)
    if key not in _program_cache:
        _program_cache[key] = Program(d)
    prog = _program_cache[key]
    prog.key = key
    prog.nfiles = nfiles
    prog.facts_dir = d
    prog.normalise(anchor_names())
    return prog
