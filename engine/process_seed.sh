#!/bin/bash
# process_seed.sh <Cxx> <sub-agent worktree> : take the patch and the demonstration out of a sub-agent's worktree,
# confirm them in a fresh scratch worktree (engine/confirm_seed.sh) and ask the current rules for a first-run verdict
# on a scratch copy (engine/scratch_verdict.py).  Output under /tmp/seedproc/<Cxx>/.
set -u
P=$1; WT=$2
O=/tmp/seedproc/$P; mkdir -p $O
git -C $WT diff -- . ':!conformance-tests/tests/seeded_demo.rs' > $O/patch.diff
cp $WT/conformance-tests/tests/seeded_demo.rs $O/demo.rs 2>/dev/null || { echo "no demo in $WT"; exit 2; }
cp $WT/SEED_REPORT.md $O/ 2>/dev/null
echo "patch: $(grep -c '^[-+][^-+]' $O/patch.diff) changed lines in $(grep -c '^diff' $O/patch.diff) files"
/verif/engine/confirm_seed.sh b13-$P $O/patch.diff $O/demo.rs > $O/confirm.out 2>&1
cp /tmp/cf-b13-$P.log $O/confirm.log 2>/dev/null
tail -12 $O/confirm.out
python3 /verif/engine/scratch_verdict.py $O/patch.diff all --slot ${3:-91} > $O/verdict.out 2>&1
tail -12 $O/verdict.out | cut -c1-400
