"""Rule framework: obligations, findings, known-findings file, evidence, exit status."""
import json
import os
import re
import sys
import time

VERIF = os.path.abspath(os.path.join(os.path.dirname(__file__), '..', '..'))
KNOWN_FILE = os.path.join(VERIF, 'known_findings.txt')


def sanitize(key):
    return re.sub(r'[^A-Za-z0-9_.#-]+', '_', key)[:180]


def load_known(pid):
    """known: property=Cxx <key> — <what fails>   (exact key match only)
       fixed: property=Cxx <commit> <what failed> (documentation, suppresses nothing)"""
    known = {}
    if not os.path.exists(KNOWN_FILE):
        return known
    for line in open(KNOWN_FILE):
        line = line.strip()
        if not line.startswith('known:'):
            continue
        m = re.match(r'known:\s+property=(C\d+)\s+(\S+)\s*(?:—|--|-)?\s*(.*)$', line)
        if m and m.group(1) == pid:
            known[m.group(2)] = m.group(3)
    return known


class Check:
    def __init__(self, pid, tier='quick', prog=None):
        self.pid = pid
        self.tier = tier
        self.prog = prog
        self.t0 = time.time()
        self.obligations = []      # dicts: rule,key,ok,detail,loc
        self.findings = []         # dicts: rule,key,what,loc,detail
        self.notes = []
        self.samples = []
        self.rules = {}
        self.not_decided = []
        self.assumptions = []
        self.extra_cov = {}
        self.sensitivity = []

    # ------------------------------------------------------------------
    def rule(self, rid, text):
        self.rules[rid] = text

    def key(self, *parts):
        return '|'.join(str(p).replace(' ', '_') for p in parts)

    def ok(self, rule, key, detail, loc=None):
        self.obligations.append({'rule': rule, 'key': key, 'ok': True, 'detail': detail, 'loc': loc})

    def fail(self, rule, key, what, loc=None, detail=None):
        """A violated obligation (finding)."""
        self.obligations.append({'rule': rule, 'key': key, 'ok': False, 'detail': what, 'loc': loc})
        self.findings.append({'rule': rule, 'key': key, 'what': what, 'loc': loc, 'detail': detail})

    def decide(self, rule, key, cond, ok_detail, fail_what, loc=None, detail=None):
        if cond:
            self.ok(rule, key, ok_detail, loc)
        else:
            self.fail(rule, key, fail_what, loc, detail)
        return cond

    def anchor(self, rule, name, obj):
        """Fail closed when an anchor (function / field / trait) is missing."""
        if obj is None or obj == [] or obj is False:
            self.fail(rule, self.key(rule, 'anchor-missing', name),
                      'anchor missing: %s (the rule cannot be evaluated; failing closed)' % name)
            return False
        return True

    def floor(self, rule, name, count, minimum):
        """Vacuity guard.  `minimum` is the number of instances confirmed by hand when the rule was written; the check
        fails closed only when fewer than about half of them are left (a rule that matches nothing passes forever),
        not when an ordinary change removes a few instances."""
        self.extra_cov.setdefault('instance_counts', {})['%s: %s' % (rule, name)] = {'found': count, 'confirmed': minimum}
        minimum = max(1, (minimum + 1) // 2)
        if count < minimum:
            self.fail(rule, self.key(rule, 'count-below-floor', name),
                      'instance count of %s is %d, below half of the hand-confirmed count (floor %d) '
                      '(rule would pass vacuously; failing closed)' % (name, count, minimum))
            return False
        return True

    def note(self, text):
        self.notes.append(text)

    def sample(self, obj):
        if len(self.samples) < 40:
            self.samples.append(obj)

    # ------------------------------------------------------------------
    def finish(self):
        pid = self.pid
        known = load_known(pid)
        rep_dir = os.path.join(VERIF, 'reports', pid)
        os.makedirs(rep_dir, exist_ok=True)
        # clear stale reports of this property
        for f in os.listdir(rep_dir):
            if f.endswith('.json'):
                try:
                    os.remove(os.path.join(rep_dir, f))
                except OSError:
                    pass
        new = []
        kn = []
        seen_keys = set()
        for f in self.findings:
            if f['key'] in seen_keys:
                continue
            seen_keys.add(f['key'])
            if f['key'] in known:
                kn.append(f)
            else:
                new.append(f)
        for f in kn:
            print('KNOWN-FINDING: property=%s %s %s%s' % (
                pid, f['key'], f['what'], (' [' + f['loc'] + ']') if f['loc'] else ''))
        stale = [k for k in known if k not in seen_keys]
        for k in stale:
            print('note: known finding no longer reported (stale entry): property=%s %s' % (pid, k))
        for f in new:
            path = os.path.join(rep_dir, sanitize(f['key']) + '.json')
            with open(path, 'w') as fh:
                json.dump({'property': pid, 'rule': f['rule'], 'rule_text': self.rules.get(f['rule'], ''),
                           'key': f['key'], 'what': f['what'], 'location_today': f['loc'],
                           'detail': f['detail']}, fh, indent=1)
            print('  %s: %s%s' % (f['key'], f['what'], (' [' + f['loc'] + ']') if f['loc'] else ''))
            print('VIOLATION property=%s replay=%s' % (pid, path))
        for n in self.notes:
            print('note: ' + n)
        nob = len(self.obligations)
        ndis = sum(1 for o in self.obligations if o['ok'])
        distinct = len({o['key'] for o in self.obligations})
        samples = list(self.samples)
        for o in self.obligations:
            if len(samples) >= 12:
                break
            samples.append({'rule': o['rule'], 'obligation': o['key'], 'verdict': 'discharged' if o['ok'] else 'finding',
                            'detail': o['detail'], 'at': o['loc']})
        cov = {
            'explanation': 'Static analysis of the type-checked program (MIR + ADT definitions dumped by a '
                           'rustc_private driver from /repo\'s current working tree). Each rule enumerates its '
                           'instances in the code (obligations) and decides each one by the structural rule given '
                           'under "rules"; nothing of /repo is executed. Clauses not decided: '
                           + ('; '.join(self.not_decided) if self.not_decided else 'see DESIGN.md'),
            'evaluations': max(nob, 1),
            'distinct_nontrivial': distinct,
            'rule': 'one obligation per rule instance found in the analysed program (call site, field, table row, '
                    'path); distinct = distinct obligation keys; non-trivial = anchored in real code of /repo',
            'obligations': nob,
            'discharged': ndis,
            'findings_known': len(kn),
            'findings_new': len(new),
            'rules': self.rules,
            'samples': samples,
            'checker_cmd': './check %s --tier %s' % (pid, self.tier),
            'trusted_base': ['rustc nightly type checker + MIR construction', 'callee resolution (Instance::try_resolve)',
                             'engine/extractor serialisation', 'hand-confirmed instance tables in engine/rules (each with reason)'],
            'not_decided': self.not_decided,
            'exhaustive': True,
        }
        if self.prog is not None:
            cov['analysed'] = {
                'crates': sorted(self.prog.crates),
                'functions': len(self.prog.fns),
                'adts': len(self.prog.adts),
                'source_files_hashed': getattr(self.prog, 'nfiles', None),
                'tree_key': getattr(self.prog, 'key', None),
            }
        if self.sensitivity:
            cov['sensitivity'] = self.sensitivity
        cov.update(self.extra_cov)
        ev = {
            'property_id': pid,
            'tier': self.tier,
            'seed': int(os.environ.get('VERIF_SEED', '0') or 0),
            'level': 'other',
            'coverage': cov,
            'assumptions': self.assumptions + [
                'analysed configuration: default features, debug profile (overflow checks on), non-test code of '
                'bladeink, bladeink-compiler, rinklecate; #[cfg(test)] code and conformance-tests are not subjects',
                'nightly rustc MIR is taken as representative of the pinned stable toolchain (same language semantics)',
            ],
            'wall_s': round(time.time() - self.t0, 2),
            'violations': len(new),
        }
        os.makedirs(os.path.join(VERIF, 'evidence'), exist_ok=True)
        with open(os.path.join(VERIF, 'evidence', pid + '.json'), 'w') as fh:
            json.dump(ev, fh, indent=1, default=str)
        print('%s: %d obligations, %d discharged, %d known findings, %d new violations (%.1fs)' % (
            pid, nob, ndis, len(kn), len(new), time.time() - self.t0))
        return 1 if new else 0
