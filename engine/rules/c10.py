"""C10 — flows are independent except for global variables and counts (three structural clauses)."""
from analysis.facts import callee, callee_short, tyname
from analysis.cfg import cfg
from analysis.defuse import Tracer, fields_of
from analysis.effects import place_ty


def fields_of_place(pl):
    return [(tyname(pe['adt']), pe.get('n')) for pe in pl.get('p', []) if pe['k'] == 'field' and 'adt' in pe]


def run(chk, prog):
    tr = Tracer(prog)
    chk.not_decided += ['independence of transcripts over all interleavings of host operations (dynamic)',
                        'that the evaluation stack (shared by design, as in the reference engine) is empty at every '
                        'flow switch']
    RA = 'C10.variables-callstack-follows-current-flow'
    chk.rule(RA, 'Every function that replaces StoryState::current_flow (assignment, mem::swap) or the call stack of the '
             'current flow reaches, on every path to a return, VariablesState::set_callstack / an assignment of '
             'VariablesState::callstack whose value derives from current_flow.callstack.')
    RB = 'C10.parked-map-has-no-current-flow'
    chk.rule(RB, 'The parked-flow map never holds a second copy of the current flow: no insert into named_flows has a '
             'key or value derived from StoryState::current_flow of the same state, and when the current flow is taken '
             'from a map entry that entry is removed on every path.')
    RC = 'C10.switch-swaps-whole-flows'
    chk.rule(RC, 'switch_flow_internal exchanges whole Flow values with one mem::swap on current_flow, and the '
             'swapped-out flow reaches named_flows.insert on every path (a flow switched away from is parked, never dropped).')

    # ---- (a)
    n_inst = 0
    for fn in sorted(prog.fns.values(), key=lambda f: f.p):
        if fn.crate != 'bladeink' or fn.kind == 'closure':
            continue
        g = cfg(fn)
        wblocks = []
        for bb, si, s in fn.stmts():
            if s['k'] != 'assign':
                continue
            fl = fields_of_place(s['pl'])
            if not fl:
                continue
            # whole current_flow assigned, or current_flow.callstack assigned
            if fl[-1] == ('StoryState', 'current_flow') or (
                    fl[-1] == ('Flow', 'callstack') and ('StoryState', 'current_flow') in fl):
                wblocks.append((bb, 'assignment to %s' % '.'.join(n for _, n in fl)))
        for bb, t in fn.calls():
            cs = callee_short(t)
            if cs in ('mem::swap', 'mem::replace', 'mem::take'):
                for a in t['args']:
                    at = tr.prov(fn, a)
                    fs = fields_of(at)
                    if 'StoryState::current_flow' in fs and not (fs - {'StoryState::current_flow', 'Story::state'}):
                        wblocks.append((bb, '%s on current_flow' % cs))
        if not wblocks:
            continue
        # is the written state object `self`/a local whose variables_state we can follow? re-point events:
        rep = []
        for bb, t in fn.calls():
            if callee_short(t) == 'VariablesState::set_callstack':
                at = tr.prov(fn, t['args'][1])
                if 'field:Flow::callstack' in at or any('get_callstack' in a for a in at):
                    rep.append(bb)
        for bb, si, s in fn.stmts():
            if s['k'] == 'assign':
                fl = fields_of_place(s['pl'])
                if fl and fl[-1] == ('VariablesState', 'callstack'):
                    at = tr.prov(fn, s['rv']['op']) if s['rv']['k'] == 'use' else set()
                    if 'field:Flow::callstack' in at or any('get_callstack' in a for a in at):
                        rep.append(bb)
        for bb, what in wblocks:
            n_inst += 1
            key = chk.key(RA, fn.short, what.replace(' ', '_'))
            from analysis.wbf import err_exits
            errs = [b for b, d, s in err_exits(prog, fn)]
            w = g.path(g.succ[bb], lambda b: b in g.returns, avoid=rep + errs) if bb not in rep else None
            # same block re-point after the write is fine
            chk.decide(RA, key, w is None,
                       'every successful path from the replacement to a return re-points variables_state.callstack',
                       '%s replaces the current flow (%s) but a path to a successful return never re-points '
                       'variables_state.callstack at the new flow\'s call stack: temporary variables would be looked up '
                       'in another flow' % (fn.short, what), fn.loc(bb), {'witness_blocks': w})
    chk.floor(RA, 'functions replacing the current flow / its call stack', n_inst, 3)

    # ---- (a1) the look-ahead copy carries the parked flows
    save_names_the_current_flow(chk, prog)
    switch_changes_the_flow_only(chk, prog, tr)
    RE = 'C10.look-ahead-copy-keeps-the-parked-flows'
    chk.rule(RE, 'The state the engine runs a look-ahead on replaces the live state when the look-ahead is committed: '
             'copy_and_start_patching fills the copy\'s named_flows from the original\'s on every path on which the '
             'original has some (shared with C01.snapshot-copies-whole-state), so committing a look-ahead in one flow '
             'never drops the flows that are parked.')
    cps = prog.fn('StoryState::copy_and_start_patching')
    if chk.anchor(RE, 'StoryState::copy_and_start_patching', cps):
        gcp = cfg(cps)
        ins = [bb for bb, t in cps.calls() if callee_short(t) in ('HashMap::insert', 'HashMap::extend', 'HashMap::clone_from')
               and 'field:StoryState::named_flows' in tr.prov(cps, t['args'][0])]
        whole = [bb for bb, si, s_ in cps.stmts() if s_['k'] == 'assign' and fields_of_place(s_['pl'])
                 and fields_of_place(s_['pl'])[-1] == ('StoryState', 'named_flows')]
        src_ok = any('field:StoryState::named_flows' in tr.prov(cps, t['args'][2]) or
                     'field:StoryState::named_flows' in tr.prov(cps, t['args'][1])
                     for bb, t in cps.calls() if bb in ins and len(t['args']) > 2) or \
            any(s_['rv']['k'] == 'use' and 'field:StoryState::named_flows' in tr.prov(cps, s_['rv']['op'])
                for bb, si, s_ in cps.stmts() if bb in whole and s_['k'] == 'assign'
                and fields_of_place(s_['pl']) and fields_of_place(s_['pl'])[-1] == ('StoryState', 'named_flows'))
        chk.decide(RE, chk.key(RE, 'parked-flows-copied'), (bool(whole) or bool(ins)) and src_ok,
                   'the copy receives a map filled from the original\'s parked flows',
                   'copy_and_start_patching no longer fills the copy\'s named_flows from the original\'s: when the '
                   'look-ahead copy becomes the live state (every committed look-ahead) the parked flows are gone',
                   cps.loc(0))

    # ---- (a2) the text/tag caches follow the output stream
    RD = 'C10.output-caches-follow-the-stream'
    chk.rule(RD, 'current_text / current_tags are caches of the current flow\'s output stream, refreshed only when '
             'the dirty flags say so. Every function that replaces the current flow as a whole (assignment, mem::swap / '
             'replace) or writes Flow::output_stream (assignment, push, remove, drain, clear) reaches '
             'output_stream_dirty() - or sets both dirty flags - on every path to a successful return: otherwise '
             'get_current_text after a flow switch / load / rewind answers with the text of the other flow.')
    from analysis.wbf import err_exits as _err_exits
    from analysis.effects import Effects as _Effects
    eff_ = _Effects(prog, tracer=tr)
    n_out = 0
    for fn in sorted(prog.fns.values(), key=lambda f: f.p):
        if fn.crate != 'bladeink' or '::tests::' in fn.p:
            continue
        writes = []
        for bb, si, s_ in fn.stmts():
            if s_['k'] != 'assign':
                continue
            fl = fields_of_place(s_['pl'])
            if fl and (fl[-1] == ('StoryState', 'current_flow') or fl[-1] == ('Flow', 'output_stream')):
                writes.append((bb, 'assignment to %s' % '.'.join(n for _, n in fl)))
        for e in eff_.events(fn):
            if e['kind'] in ('mutator', 'interior') and 'Flow::output_stream' in e['fields'] \
                    and not (set(e['fields']) & {'Flow::current_choices', 'Flow::callstack', 'Flow::name'}):
                writes.append((e['bb'], e['what']))
        for bb, t in fn.calls():
            if callee_short(t) in ('mem::swap', 'mem::replace', 'mem::take'):
                for a in t['args']:
                    fs = fields_of(tr.prov(fn, a))
                    if 'StoryState::current_flow' in fs and not (fs - {'StoryState::current_flow', 'Story::state'}):
                        writes.append((bb, '%s on current_flow' % callee_short(t)))
        if not writes:
            continue
        g = cfg(fn)
        dirty = [bb for bb, t in fn.calls() if callee_short(t) == 'StoryState::output_stream_dirty']
        td = [bb for bb, si, s_ in fn.stmts() if s_['k'] == 'assign' and fields_of_place(s_['pl'])
              and fields_of_place(s_['pl'])[-1] == ('StoryState', 'output_stream_text_dirty')]
        gd = [bb for bb, si, s_ in fn.stmts() if s_['k'] == 'assign' and fields_of_place(s_['pl'])
              and fields_of_place(s_['pl'])[-1] == ('StoryState', 'output_stream_tags_dirty')]
        if td and gd:
            dirty += [b for b in td if b in gd] or (td if all(any(g.dominates(x, y) or g.dominates(y, x) for y in gd)
                                                             for x in td) else [])
        errs = [b for b, d_, s_ in _err_exits(prog, fn)]
        root = prog.root_fn(fn).short
        ords = {}
        for bb, what in writes:
            n_out += 1
            i_ = ords.get(what, 0)
            ords[what] = i_ + 1
            w = None if bb in dirty else g.path(g.succ[bb], lambda b: b in g.returns, avoid=dirty + errs)
            chk.decide(RD, chk.key(RD, root, what.replace(' ', '_')[:60], '#%d' % i_), w is None,
                       'the dirty flags are set on every successful path after the write',
                       '%s changes what the output stream of the current flow is (%s) and can return without marking the '
                       'text / tag caches dirty: get_current_text keeps answering with the cached text of the stream as it '
                       'was before' % (root, what), fn.loc(bb), {'witness_blocks': w})
    chk.floor(RD, 'writes of the current flow / its output stream', n_out, 8)
    # constructor: both from the same call stack
    sn = prog.fn('StoryState::new')
    if chk.anchor(RA, 'StoryState::new', sn):
        ok = False
        for bb, t in sn.calls():
            if callee_short(t) == 'VariablesState::new':
                at = tr.prov(sn, t['args'][0])
                ok = 'field:Flow::callstack' in at
        chk.decide(RA, chk.key(RA, 'StoryState::new', 'ctor'), ok,
                   'the fresh VariablesState is built on the fresh flow\'s call stack',
                   'StoryState::new builds VariablesState on a call stack that is not the new flow\'s', sn.loc(0))

    # ---- (b)
    nins = 0
    for fn in sorted(prog.fns.values(), key=lambda f: f.p):
        if fn.crate != 'bladeink':
            continue
        for bb, t in fn.calls():
            if callee_short(t) != 'HashMap::insert' or len(t['args']) < 3:
                continue
            recv = tr.prov(fn, t['args'][0])
            if 'field:StoryState::named_flows' not in recv and not _is_flow_map(fn, t):
                continue
            nins += 1
            kp, vp = tr.prov(fn, t['args'][1]), tr.prov(fn, t['args'][2])
            root = prog.root_fn(fn).short
            bad = [x for x in ('key' if 'field:StoryState::current_flow' in kp else None,
                               'value' if 'field:StoryState::current_flow' in vp else None) if x]
            chk.decide(RB, chk.key(RB, root, 'insert#%d' % nins), not bad,
                       'neither key nor value derives from the current flow',
                       '%s inserts into named_flows a %s derived from current_flow: the map then holds a second, soon '
                       'stale copy of the live flow (saved under the same key as the live one)'
                       % (root, ' and '.join(bad)), fn.loc(bb))
    chk.floor(RB, 'inserts into named_flows', nins, 2)
    check_load_parks_no_current_flow(chk, prog, tr, RB)
    check_load_replaces_parked_flows(chk, prog, tr, RB)

    # ---- (c)
    sw = prog.fn('StoryState::switch_flow_internal')
    if chk.anchor(RC, 'StoryState::switch_flow_internal', sw):
        g = cfg(sw)
        # the exchange: mem::swap(&mut current_flow, &mut other) or `let old = mem::replace(&mut current_flow, new)`
        swaps = [(bb, t) for bb, t in sw.calls() if callee_short(t) in ('mem::swap', 'mem::replace')]
        good = []
        for bb, t in swaps:
            refs = [a for a in t['args'] if a['k'] in ('copy', 'move') and place_ty(sw, a['pl']).startswith('&')]
            on_cur = any('StoryState::current_flow' in fields_of(tr.prov(sw, a)) and not (
                fields_of(tr.prov(sw, a)) - {'StoryState::current_flow', 'Story::state'}) for a in refs)
            whole = all(tyname(place_ty(sw, a['pl'])).lstrip('&').replace('mut ', '') == 'Flow'
                        for a in t['args'] if a['k'] in ('copy', 'move'))
            if on_cur and whole:
                good.append(bb)
        # no field-wise assignments into current_flow
        fieldwise = [sw.loc(bb, si) for bb, si, s in sw.stmts() if s['k'] == 'assign'
                     and ('StoryState', 'current_flow') in fields_of_place(s['pl'])
                     and fields_of_place(s['pl'])[-1] != ('StoryState', 'current_flow')]
        chk.decide(RC, chk.key(RC, 'whole-swap'), len(good) == 1 and not fieldwise,
                   'one exchange of whole Flow values (mem::swap / mem::replace), no field-wise update',
                   'switch_flow_internal no longer exchanges whole Flow values (swaps on current_flow: %d, field-wise '
                   'writes: %s): per-flow data would leak between flows' % (len(good), fieldwise), sw.loc(0))
        ins = [bb for bb, t in sw.calls() if callee_short(t) == 'HashMap::insert']
        if good:
            ok, w = g.must_pass_through(good[0], ins)
            chk.decide(RC, chk.key(RC, 'parked'), ok,
                       'the swapped-out flow is inserted into named_flows on every path',
                       'after the swap a path to return does not park the previous flow: it is dropped', sw.loc(good[0]),
                       {'witness_blocks': w})


def check_load_parks_no_current_flow(chk, prog, tr, RB):
    """After load_json_obj the current flow is not also an entry of named_flows (shared by C10 and C02)."""
    # current flow taken from a map entry -> entry removed
    from rules.c02 import flow_loader
    lj = flow_loader(prog, tr)      # by role: the function that parks the flows decoded from a save
    if chk.anchor(RB, 'StoryState::load_json_obj', lj):
        g = cfg(lj)
        took = []
        for bb, si, s in lj.stmts():
            if s['k'] == 'assign':
                fl = fields_of_place(s['pl'])
                if fl and fl[-1] == ('StoryState', 'current_flow') and s['rv']['k'] == 'use':
                    at = tr.prov(lj, s['rv']['op'])
                    if 'field:StoryState::named_flows' in at:
                        took.append(bb)
        rem = [bb for bb, t in lj.calls() if callee_short(t) == 'HashMap::remove'
               and 'field:StoryState::named_flows' in tr.prov(lj, t['args'][0])]
        # or: assigned and inserted on one and the same path (`current_flow = flow.clone(); map.insert(name, flow)`)
        ins_l = [bb for bb, t in lj.calls() if callee_short(t) == 'HashMap::insert' and len(t['args']) >= 3 and (
            'field:StoryState::named_flows' in tr.prov(lj, t['args'][0]) or _is_flow_map(lj, t))]
        heads = g.loops_heads()
        for bb, si, s in lj.stmts():
            if s['k'] == 'assign':
                fl = fields_of_place(s['pl'])
                if fl and fl[-1] == ('StoryState', 'current_flow') and bb not in took:
                    for ib in ins_l:
                        same_iter = g.path([bb], lambda b, ib=ib: b == ib, avoid=list(heads)) is not None or \
                            g.path([ib], lambda b, bb=bb: b == bb, avoid=list(heads)) is not None
                        if same_iter:
                            took.append(bb)
                            break
        if chk.anchor(RB, 'load_json_obj fills named_flows and sets the current flow', ins_l):
            if not took:
                chk.ok(RB, chk.key(RB, 'load_json_obj', 'entry-removed'),
                       'no flow is both made current and parked on the same path', lj.loc(ins_l[0]))
            for bb in took:
                ok, w = g.must_pass_through(bb, rem)
                same = bb in rem
                chk.decide(RB, chk.key(RB, 'load_json_obj', 'entry-removed'), ok or same,
                           'the entry the current flow was copied from is removed on every path',
                           'after loading, the current flow also stays parked in named_flows (it is copied from / inserted '
                           'beside its map entry and the entry is not removed on every path): the map keeps a second copy '
                           'that goes stale and is saved over the live flow under the same key', lj.loc(bb))



def check_load_replaces_parked_flows(chk, prog, tr, RB):
    """On the way to the first insert into named_flows, load_json_obj has created the map afresh or cleared it."""
    from rules.c02 import flow_loader
    lj = flow_loader(prog, tr)      # by role: the function that parks the flows decoded from a save
    if not chk.anchor(RB, 'StoryState::load_json_obj', lj):
        return
    g = cfg(lj)
    ins = [bb for bb, t in lj.calls() if callee_short(t) == 'HashMap::insert' and len(t['args']) >= 3 and (
        'field:StoryState::named_flows' in tr.prov(lj, t['args'][0]) or _is_flow_map(lj, t))]
    # `opt.get_or_insert_with(HashMap::new)` (get_or_insert, get_or_insert_default, insert) hands out the map that is
    # inside the option afterwards - the old one when there was one.  By itself that empties nothing; `clear()` on the
    # reference it returns empties the parked map whichever of the two it is.
    trm = Tracer(prog, extra_transparent=('Option::get_or_insert_with', 'Option::get_or_insert',
                                          'Option::get_or_insert_default', 'Option::insert'))
    fresh = []
    for bb, t in lj.calls():
        if callee_short(t) in ('HashMap::clear', 'HashMap::drain', 'HashMap::retain') and t['args'] \
                and 'field:StoryState::named_flows' in trm.prov(lj, t['args'][0]):
            fresh.append(bb)
    for bb, si, s_ in lj.stmts():
        if s_['k'] == 'assign':
            fl = fields_of_place(s_['pl'])
            if fl and fl[-1] == ('StoryState', 'named_flows'):
                fresh.append(bb)
    if chk.anchor(RB, 'inserts into named_flows in load_json_obj', ins):
        w = g.path([0], lambda b: b in ins, avoid=fresh)
        chk.decide(RB, chk.key(RB, 'load_json_obj', 'parked-set-replaced'), w is None,
                   'the map is new or cleared before the saved flows are inserted',
                   'load_json_obj can insert the saved flows into named_flows without having emptied it: a flow parked '
                   'before the load and absent from the save survives loading it (stale position, text and choices)',
                   lj.loc(ins[0]), {'witness_blocks': w})


def _is_flow_map(fn, t):
    ts = ' '.join(t['f'].get('targs', []))
    return 'flow::Flow' in ts and 'String' in ts


OPTIONAL_KEYS = {
    ('StoryState::write_json', 'currentDivertTarget'): 'written only for a pending divert; the loader starts from a null diverted pointer',
    ('Flow::write_json', 'choiceThreads'): 'written only when some choice\'s thread is no longer on the call stack',
}


def save_names_the_current_flow(chk, prog):
    from analysis.defuse import consts_of
    from analysis.wbf import err_exits
    RF = 'C10.save-names-every-flow-and-the-current-one'
    chk.rule(RF, 'The keys StoryState::write_json and Flow::write_json put into a save are written on every successful '
             'path, except the tabled optional ones (currentDivertTarget, choiceThreads): in particular "flows" and '
             '"currentFlowName", whose value is the name of StoryState::current_flow. The loader tells the current flow '
             'from the parked ones only by that name: a save that leaves it out (say, for the default flow) is loaded '
             'with whatever flow the loading story happened to be in as the current one and every saved flow parked.')
    lt = Tracer(prog, transparent=lambda cs: True, use_summaries=False)
    n = 0
    for nm in ('StoryState::write_json', 'Flow::write_json'):
        f = prog.fn(nm)
        if not chk.anchor(RF, nm, f):
            continue
        g = cfg(f)
        errs = [b for b, d_, s_ in err_exits(prog, f)]
        pd = g.postdominators(errs).get(0, ())
        seen = set()
        for h in prog.with_closures(f):
            for bb, t in h.calls():
                if not callee_short(t).endswith('Map::insert') or len(t['args']) < 3:
                    continue
                for k in sorted(consts_of(lt.prov(h, t['args'][1]))):
                    n += 1
                    seen.add(k)
                    always = h is f and bb in pd
                    if (nm, k) in OPTIONAL_KEYS:
                        chk.ok(RF, chk.key(RF, nm, k), 'tabled optional key: ' + OPTIONAL_KEYS[(nm, k)], h.loc(bb))
                        continue
                    chk.decide(RF, chk.key(RF, nm, k), always, 'written on every successful path',
                               '%s writes the save key "%s" only under a condition: a loader that does not find it keeps '
                               'what the loading story had (the key is not one of the tabled optional keys %s)'
                               % (nm, k, sorted(x[1] for x in OPTIONAL_KEYS)), h.loc(bb))
                    if k == 'currentFlowName':
                        at = lt.prov(h, t['args'][2])
                        chk.decide(RF, chk.key(RF, nm, k, 'value'), 'field:Flow::name' in at and
                                   'field:StoryState::current_flow' in at, 'the value is current_flow.name',
                                   'the value written under "currentFlowName" is not StoryState::current_flow.name (%s)'
                                   % sorted(a for a in at if a.startswith('field:'))[:4], h.loc(bb))
        if nm == 'StoryState::write_json':
            for k in ('flows', 'currentFlowName'):
                chk.decide(RF, chk.key(RF, nm, k, 'present'), k in seen, 'the key is written',
                           'StoryState::write_json no longer writes "%s"' % k, f.loc(0))
    chk.floor(RF, 'constant keys written by the state and flow writers', n, 16)


# what a flow operation may change, and why (seed C10-6)
SWITCH_MAY_WRITE = {
    'StoryState::current_flow': 'the flow that becomes current',
    'StoryState::named_flows': 'the flow switched away from is parked here',
    'StoryState::alive_flow_names_dirty': 'cache flag of the alive-flow-names list',
    'StoryState::output_stream_text_dirty': 'cache flag: the text cache must not answer for the other flow',
    'StoryState::output_stream_tags_dirty': 'cache flag: the tag cache must not answer for the other flow',
    'StoryState::variables_state': 'only to re-point its call stack (next line)',
    'VariablesState::callstack': 'temporary variables are looked up in the call stack of the current flow',
    'CallStack::threads': 'the fresh call stack of a newly created flow',
    'Thread::callstack': 'the fresh call stack of a newly created flow',
    'Story::state': 'the receiver through which the state is reached',
}


def switch_changes_the_flow_only(chk, prog, tr):
    R = 'C10.switch-changes-the-flow-only'
    chk.rule(R, 'Switching to a flow, switching back to the default flow and removing a flow change which flow is current '
             'and where the others are parked - nothing else: the write effects (assignments, std mutators, interior '
             'mutation, through every callee) of the three state functions and of their public entry points stay inside a '
             'tabled set of fields. Anything else they wrote - the evaluation stack (arguments of a pending '
             'choose_path_string wait there for the next continue), the diverted pointer, globals, counts, the turn '
             'index, seeds, messages - would be one flow reaching into what another flow, or a save, depends on.')
    from analysis.effects import Effects
    ef = Effects(prog, tracer=tr)
    want = ('StoryState::switch_flow_internal', 'StoryState::switch_to_default_flow_internal',
            'StoryState::remove_flow_internal', 'Story::switch_flow', 'Story::switch_to_default_flow', 'Story::remove_flow')
    found = [fn for fn in prog.fns.values() if fn.short in want and fn.kind != 'closure']
    chk.floor(R, 'flow operations examined', len(found), 6)
    culprits = {}
    for fn in sorted(found, key=lambda f: f.p):
        mw = ef.may_write(fn)
        extra = sorted(mw - set(SWITCH_MAY_WRITE))
        if fn.short.endswith('_internal') and fn.short != 'StoryState::switch_to_default_flow_internal':
            chk.floor(R, 'fields written by ' + fn.short, len(mw), 4)
        # name the construct: the first direct event (here or in a callee) that writes the extra field
        loc, via = None, ''
        if extra:
            seen, work = set(), [fn]
            while work and loc is None:
                g = work.pop(0)
                if g.p in seen:
                    continue
                seen.add(g.p)
                for e in ef.events(g):
                    if e['kind'] == 'repo-call':
                        if set(extra) & ef.event_fields(g, e):
                            work.append(prog.fns[e['callee']])
                    elif set(extra) & set(e['fields']):
                        loc, via = g.loc(e['bb']), '%s in %s' % (e['what'], g.short)
                        break
        if not extra:
            chk.ok(R, chk.key(R, fn.short), 'writes only %s' % ', '.join(sorted(mw)))
        else:
            culprits.setdefault((via or fn.short, tuple(extra)), [loc or fn.loc(0), []])[1].append(fn.short)
    for (via, extra), (loc, entries) in sorted(culprits.items()):
        holder = via.rsplit(' in ', 1)[-1]
        chk.fail(R, chk.key(R, holder, '+'.join(x.split('::')[-1] for x in extra)),
                 '%s changes %s (%s; reached from %s): a flow operation must leave everything but the choice of the '
                 'current flow alone - state kept outside the flows is shared by all of them and by every save'
                 % (holder, ', '.join(extra), via, ', '.join(sorted(entries))), loc)
