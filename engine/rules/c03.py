"""C03 — play is a deterministic function of program, seed and host calls (no unordered iteration, no ambient entropy)."""
from analysis.cfg import cfg
from analysis.facts import callee, callee_short, short, tyname
from analysis.hashorder import classify
from analysis.defuse import Tracer, fields_of

# Frozen, hand-confirmed table of the hash-iteration sites whose per-element work is not order-free by
# construction.  key -> (expected signature, verdict, reason).  The signature is re-validated on every run:
# a site whose sinks changed is reported again.  'total:<cmp>' verdicts additionally require the named
# comparator to compare the whole key (re-validated from its MIR).
SITE_TABLE = {
    'InkList::get_ordered_items|HashMap::iter|#0':
        (('sorted:collect-into-Vec-then-sort_by(InkList::cmp_items)',), 'total:InkList::cmp_items',
         'sorted with the total entry order (value, origin, item)'),
    'InkList::get_max_item|HashMap::iter|#0':
        (('extreme:max_by(InkList::cmp_items)',), 'total:InkList::cmp_items',
         'unique maximum under the total entry order'),
    'InkList::get_min_item|HashMap::iter|#0':
        (('extreme:min_by(InkList::cmp_items)',), 'total:InkList::cmp_items',
         'unique minimum under the total entry order'),
    'Story::perform_logic_and_flow_control|HashMap::iter|#0':
        (('sorted:collect-into-Vec-then-sort_by(closure->InkList::cmp_items)',), 'total:InkList::cmp_items',
         'LIST_RANDOM indexes into the entries sorted by the (reversed) total entry order'),
    'json_read_stream::jtoken_to_runtime_object|<HashMap as IntoIterator>::into_iter|#0':
        (('mapkey-derived:via_InkListItem::from_full_name:HashMap::insert',), 'ok',
         'key = InkListItem::from_full_name(full name): injective on the "origin.item" names of one saved list'),
    'json_write::write_ink_list|HashMap::iter|#0':
        (('mapkey-derived:via_String::new:Map::insert',), 'ok',
         'key = "<origin>.<item>" built from the element\'s own key: injective, items are unique per (origin, item)'),
    'ListDefinition::get_items|<&HashMap as IntoIterator>::into_iter|#0':
        (('mapkey-derived:via_InkListItem::new:HashMap::insert',), 'ok',
         'key = InkListItem(this list\'s name, item name): injective in the iterated item name'),
    'ListDefinitionsOrigin::new|<&HashMap as IntoIterator>::into_iter|#0':
        (('mapkey-derived:via_InkListItem::get_full_name:HashMap::insert',
          'mapkey-derived:via_InkListItem::get_item_name:HashMap::insert'), 'ok',
         'the hash iteration is over the items of ONE list, whose full names and item names are unique; collisions of '
         'bare item names ACROSS lists are resolved by the enclosing loop, which walks the caller\'s Vec in document '
         'order (it is not a hash iteration: any such site would be a new, unclassified entry)'),
    'NativeFunctionCall::call_list_increment_operation|HashMap::iter|#0':
        (('mapkey-derived:via_ListDefinition::get_item_with_value:HashMap::insert',), 'ok',
         'two elements map to the same incremented item only when they share origin and value, and then the inserted '
         'value (value +/- n) is the same too: identical (key, value) pairs'),
    'InkList::get_origin_names|HashMap::keys|#0':
        (('seq:Vec::push',), 'ok',
         'the names are used as a set by both consumers (StoryState::push_evaluation_stack rebuilds `origins`, which '
         'is only searched by name / iterated into maps; Value::retain_list_origins_for_assignment stores them as '
         'initial origin names, read back through this same function)'),
    'Story::continue_internal|<HashMap as IntoIterator>::into_iter|#0':
        (('dyn-callback:VariableObserver::changed<-Story::notify_variable_changed',), 'ok',
         'order of observer callbacks across *distinct* variables is not among C03\'s observables (text, tags, '
         'choices, variable values, visit counts, saves); each variable still gets exactly one call (C11)'),
    'Container::build_string_of_hierarchy|HashMap::values|#0':
        (('seq:String::push', 'seq:String::push<-Container::build_string_of_hierarchy',
          'seq:String::push_str<-Container::build_string_of_hierarchy'), 'ok',
         'debug dump of the content tree (diagnostic text, not story output, not part of any save)'),
}

# (root function, callee) pairs allowed to touch an entropy source
ENTROPY_ALLOWED = {
    ('StoryState::new', 'thread::rng'): 'the story seed itself is drawn here (the documented entropy input)',
    ('StoryState::new', 'RngExt::random_range'): 'the story seed itself is drawn here',
    ('Story::continue_internal', 'Instant::now'): 'stopwatch of the time-limited continue; must be guarded by async_continue_active',
    ('Story::continue_internal', 'Instant::elapsed'): 'stopwatch of the time-limited continue',
}
import re
# matched against the callee's definition path (no generic arguments) ...
ENTROPY_DEF_RE = re.compile(
    r'^rand::rngs::thread::|^rand::random$|^rand::rng$|::from_os_rng$|::from_entropy$|::try_from_os_rng$|^getrandom::|'
    r'^std::time::SystemTime::|^std::time::Instant::(now|elapsed)$|^web_time::|^std::env::(var|vars|args|var_os|args_os)|'
    r'^std::process::id$|^std::thread::current$|RandomState::new$|DefaultHasher::new$|::hash_one$')
# ... and against its receiver type
ENTROPY_SELF_RE = re.compile(r'^(&mut |&)?(rand::rngs::thread::ThreadRng|rand::rngs::OsRng|rand::rngs::SysRng|'
                             r'std::time::SystemTime|std::hash::random::RandomState)\b')
ENTROPY_RE = re.compile(r'ThreadRng|OsRng|SysRng|SystemTime|Instant|RandomState|DefaultHasher|hash_one|getrandom|env::')


def is_entropy_call(t):
    f = t['f']
    d = f.get('def', '') or ''
    sf = f.get('self', '') or ''
    return bool(ENTROPY_DEF_RE.search(d) or ENTROPY_SELF_RE.search(sf))


def comparator_fields(prog, fn, tr):
    """Fields read by a comparator function (directly, or through the getters it calls)."""
    out = set()
    for f in [fn] + prog.closures_of(fn):
        for bb, si, s in f.stmts():
            if s['k'] == 'assign':
                rv = s['rv']
                for key in ('op', 'a', 'b'):
                    o = rv.get(key)
                    if isinstance(o, dict) and o.get('k') in ('copy', 'move'):
                        out |= fields_of(tr.prov(f, o))
                if 'pl' in rv:
                    out |= fields_of(tr.prov_place(f, rv['pl']))
        for bb, t in f.calls():
            for a in t['args']:
                out |= fields_of(tr.prov(f, a))
            out |= fields_of(tr.prov_place(f, t['dest']))
            g = prog.fns.get(callee(t))
            if g is not None and len(g.blocks) <= 8:
                sm = tr.summary(g.p)
                if sm:
                    out |= {a[6:] for a in sm[1] if a.startswith('field:')}
    return out


def _canon(sig):
    """Sink signatures up to idiom: a sequence filled by push in a loop and one collected from the iterator are the
    same sink (elements land in a Vec in iteration order)."""
    return tuple(sorted({x.replace('seq:collect-into-Vec', 'seq:Vec::push') for x in sig}))


def run(chk, prog):
    tr = Tracer(prog)
    chk.not_decided += ['float formatting / arithmetic agreement between debug and release builds (values)',
                        'byte-identity of compiler output beyond "no unordered iteration reaches the emitter"',
                        ]
    R1 = 'C03.hash-order'
    chk.rule(R1, 'Every iteration over a HashMap/HashSet in bladeink, bladeink-compiler and rinklecate is either '
             'order-free by construction (per-element work only inserts/removes/looks up in maps and sets, accumulates '
             'integers, sets constant flags, uses plain Ord min/max/sort), or appears in the frozen table with the exact '
             'sink signature it had when it was confirmed by reading; comparators named there must compare the whole key.')
    R2 = 'C03.entropy'
    chk.rule(R2, 'The only calls reaching ambient entropy (thread RNG, wall clock, environment, process id, '
             'RandomState, pointer-to-integer exposure) are the story-seed draw in StoryState::new, the guarded stopwatch '
             'of the time-limited continue, and rinklecate\'s argument/timing code.')
    R3 = 'C03.seeding'
    chk.rule(R3, 'Every StdRng::seed_from_u64 seed derives only from story_seed, previous_random, evaluation-stack '
             'integers, loop indices and the container path text.')
    R4 = 'C03.compiler-unordered'
    chk.rule(R4, 'No HashMap/HashSet iteration in the compiler feeds anything but an ordered set.')

    sites = classify(prog)
    chk.floor(R1, 'hash-collection iteration sites', len(sites), 40)
    seen = set()
    for r in sites:
        key = chk.key(R1, r['key'])
        seen.add(r['key'])
        if r['verdict'] == 'order-free':
            chk.ok(R1, key, 'order-free by construction: ' + (', '.join(r['sinks']) or 'no effects'), r['loc'])
            continue
        ent = SITE_TABLE.get(r['key'])
        if ent is None:
            chk.fail(R1, key, 'iteration over a hash collection whose per-element work is order-sensitive (%s) and '
                     'that is not in the confirmed table: the result can differ from run to run'
                     % ', '.join(r['sig']), r['loc'], {'sinks': r['sinks']})
            continue
        sig, verdict, reason = ent
        if _canon(sig) != _canon(r['sig']):
            chk.fail(R1, key + '|changed', 'hash-iteration site changed since it was classified: sinks now %s, '
                     'confirmed as %s' % (list(r['sig']), list(sig)), r['loc'])
            continue
        if verdict.startswith('total:'):
            cname = verdict[6:]
            cf = prog.fn(cname)
            if cf is None:
                chk.fail(R1, key + '|comparator-missing', 'comparator %s not found' % cname, r['loc'])
                continue
            fr = comparator_fields(prog, cf, tr)
            item = prog.adt('InkListItem')
            need = {'InkListItem::' + f['n'] for f in item['variants'][0]['fields']}
            missing = sorted(need - fr)
            chk.decide(R1, key, not missing, 'table: %s; comparator %s reads the whole key %s' % (reason, cname, sorted(need)),
                       'comparator %s does not compare key field(s) %s: entries that tie are ordered by hash order'
                       % (cname, missing), r['loc'])
        else:
            chk.ok(R1, key, 'table: ' + reason, r['loc'])
    for k in SITE_TABLE:
        if k not in seen:
            chk.note('C03 table entry no longer matches any site (stale): ' + k)

    # ---- compiler: the one site must feed an ordered set
    comp = [r for r in sites if r['fn'].crate == 'bladeink_compiler']
    for r in comp:
        chk.decide(R4, chk.key(R4, r['key']), r['verdict'] == 'order-free',
                   'compiler site is order-free (%s)' % ', '.join(r['sinks']),
                   'compiler iterates a hash collection order-sensitively: output may differ between runs', r['loc'])
    chk.floor(R4, 'compiler hash-iteration sites', len(comp), 1)

    # ---- entropy who-may-call
    nent = 0
    for fn in prog.fns.values():
        root = prog.root_fn(fn).short
        for bb, t in fn.calls():
            full = t['f'].get('full', '') or ''
            cs = callee_short(t)
            if not is_entropy_call(t):
                continue
            nent += 1
            key = chk.key(R2, root, cs)
            if fn.crate == 'rinklecate':
                chk.ok(R2, key, 'rinklecate front-end (arguments / verbose timing), not the engine', fn.loc(bb))
            elif (root, cs) in ENTROPY_ALLOWED:
                chk.ok(R2, key, 'allowed: ' + ENTROPY_ALLOWED[(root, cs)], fn.loc(bb))
            else:
                chk.fail(R2, key, '%s calls %s: ambient entropy reaches the engine outside the story seed'
                         % (root, full), fn.loc(bb))
        for bb, si, s in fn.stmts():
            if s['k'] == 'assign' and s['rv']['k'] == 'cast' and s['rv']['ck'] in ('PointerExposeProvenance',):
                if s['sp'].get('mac'):
                    continue
                nent += 1
                chk.fail(R2, chk.key(R2, root, 'ptr-to-int'), '%s converts a pointer to an integer (address-dependent value)'
                         % root, fn.loc(bb, si))
    chk.floor(R2, 'entropy call sites (seed draw + stopwatch)', nent, 2)
    # the drawn number must flow into the story_seed field and nowhere else
    sn = prog.fn('StoryState::new')
    if chk.anchor(R2, 'StoryState::new', sn):
        draws = [t['dest']['l'] for bb, t in sn.calls() if is_entropy_call(t) and 'ThreadRng' in (t['f'].get('self') or '')
                 and not (t['f'].get('dty') or t.get('dty', '')).startswith('rand::')]
        draws = [l for l in draws if sn.local_ty(l) in ('i32', 'u32', 'i64', 'u64', 'usize')]
        uses = []
        for bb, si, st in sn.stmts():
            if st['k'] != 'assign':
                continue
            rv = st['rv']
            if rv['k'] == 'agg' and rv.get('ak') == 'adt' and rv['adt'].endswith('::StoryState'):
                for fname, o in zip(rv['fields'], rv['ops']):
                    if o['k'] in ('copy', 'move') and (tr.prov(sn, o) & {'call:RngExt::random_range'}):
                        uses.append(fname)
        chk.decide(R2, chk.key(R2, 'StoryState::new', 'seed-flows-to-story_seed-only'),
                   bool(draws) and uses == ['story_seed'],
                   'the thread-RNG draw initialises exactly the field story_seed',
                   'the ambient random draw in StoryState::new initialises %s (expected exactly story_seed)' % uses,
                   sn.loc(0))
    # the stopwatch must be guarded by async_continue_active
    ci = prog.fn('Story::continue_internal')
    if chk.anchor(R2, 'Story::continue_internal', ci):
        from analysis.guards import GuardFlow

        def atom(desc):
            return 'async' if desc == ('field', 'Story::async_continue_active') else None
        gf = GuardFlow(prog, ci, atom, tracer=tr)
        gf.run()
        for bb, t in ci.calls():
            if callee_short(t) == 'Instant::now':
                vals = gf.valuations_at(bb, ['async'])
                chk.decide(R2, chk.key(R2, 'continue_internal', 'Instant::now', 'guarded'),
                           vals and all(v.get('async') is True for v in vals),
                           'clock read only when async_continue_active is true',
                           'the wall clock is read on a path where async_continue_active is not known to be true: '
                           'a blocking continue would depend on time', ci.loc(bb))

    # the clock decides only WHERE a time-limited continue pauses, never what the story does
    if ci is not None:
        from analysis.effects import Effects as _Eff
        from analysis.wbf import CACHE_FIELDS as _CF
        eff_ = _Eff(prog, cache_fields=_CF, tracer=tr)
        g_ = cfg(ci)
        timed = []
        for bb, t in ci.terms():
            if t['k'] == 'switch' and t['d'].get('k') in ('copy', 'move'):
                at = tr.prov(ci, t['d'])
                if any('Instant::elapsed' in a or 'Duration::as_millis' in a or 'Duration::as_secs' in a for a in at):
                    timed.append((bb, t))
        if chk.anchor(R2, 'branch on the elapsed time in continue_internal', timed):
            for i, (bb, t) in enumerate(timed):
                succs = [tb for _, tb in t['ts']] + [t['else']]
                loops = {x: bb in g_.reachable([x]) for x in succs}
                reach = {x: g_.reachable([x], avoid=[bb]) for x in succs}
                bad = []
                for x in succs:
                    if loops[x]:
                        continue        # this side stays in the loop (time is not up): it goes on as it would anyway
                    others = set().union(*[reach[y] for y in succs if y != x]) if len(succs) > 1 else set()
                    only = reach[x] - others
                    for e in eff_.events(ci):
                        if e['bb'] not in only:
                            continue
                        if e['kind'] == 'repo-call':
                            h = prog.fns.get(e['callee'])
                            w = (eff_.summaries()[h.p][0] - _CF) if h is not None else set()
                            if w:
                                bad.append((ci.loc(e['bb']), 'call ' + h.short))
                        elif set(e['fields']) - _CF:
                            bad.append((ci.loc(e['bb']), e['what']))
                    # locals that later decide the flow (e.g. the "line ended" flag) must not be set there either
                    for b2 in only:
                        for si, st in enumerate(ci.blocks[b2]['st']):
                            if st['k'] == 'assign' and 'p' not in st['pl'] and ci.local_ty(st['pl']['l']) == 'bool' \
                                    and st['rv']['k'] == 'use' and st['rv']['op'].get('k') == 'const':
                                from analysis.defuse import du as _du
                                if len(_du(ci).defs.get(st['pl']['l'], [])) > 1:
                                    bad.append((ci.loc(b2, si), 'assignment to a flag read after the loop'))
                chk.decide(R2, chk.key(R2, 'continue_internal', 'elapsed-time-only-pauses', '#%d' % i), not bad,
                           'the side of the test taken only when time has run out changes nothing',
                           'what the story does now depends on the wall clock: on the out-of-time side of the elapsed-time '
                           'test continue_internal performs %s, which the in-time side does not: text, tags or line '
                           'boundaries differ with the speed of the machine' % '; '.join(x[1] for x in bad[:3]),
                           bad[0][0] if bad else ci.loc(bb))

    thread_state_restored(chk, prog)
    random_draws_read_saved_state_only(chk, prog)

    # ---- seeding provenance
    ALLOWED_SEED = ('field:StoryState::story_seed', 'field:StoryState::previous_random')
    nseed = 0
    for fn in prog.fns.values():
        if fn.crate != 'bladeink':
            continue
        for bb, t in fn.calls():
            cs = callee_short(t)
            if not cs.endswith('seed_from_u64'):
                continue
            nseed += 1
            atoms = tr.prov(fn, t['args'][0])
            bad = sorted(a for a in atoms if a.startswith(('call:', 'via:')) and (
                ENTROPY_RE.search(a) or re.search(r'\bhash\b|Hash>|as_ptr|addr\b', a)))
            bad += sorted(a for a in atoms if a.startswith('cast:Pointer'))
            has_seed = 'field:StoryState::story_seed' in atoms
            root = prog.root_fn(fn).short
            chk.decide(R3, chk.key(R3, root, 'seed_from_u64'), has_seed and not bad,
                       'seed derives from story_seed (+ previous_random / stack ints / path text)',
                       'RNG seed in %s does not derive from the story seed only (story_seed present: %s; foreign '
                       'sources: %s)' % (root, has_seed, bad), fn.loc(bb), {'provenance': sorted(atoms)})
    chk.floor(R3, 'StdRng::seed_from_u64 call sites', nseed, 3)


CELL_WRITES = ('Cell::set', 'Cell::replace', 'Cell::update', 'Cell::take', 'Cell::swap', 'RefCell::borrow_mut',
               'RefCell::replace', 'RefCell::take', 'RefCell::replace_with')
LOCAL_KEY = ('LocalKey::with', 'LocalKey::try_with', 'LocalKey::with_borrow_mut', 'LocalKey::set', 'LocalKey::replace',
             'LocalKey::take', 'LocalKey::update')


def thread_state_restored(chk, prog):
    """State kept between calls on one thread (thread-local cells of the compiler) must be back where it was when a
    compilation ends, whichever way it ends: otherwise what the next compilation on the thread produces depends on what
    was compiled before it."""
    from analysis.wbf import err_exits
    R5 = 'C03.thread-state-restored'
    chk.rule(R5, 'Every function of the compiler that writes a thread-local cell (LocalKey::with(|c| c.set(..)) and the '
             'like) is either the Drop of a guard type, or hands such a guard to its caller: no error exit is reachable '
             'once the cell has been written (in the closure that writes it, and - when that closure writes on all its '
             'paths - in the function that calls it, other than by returning the closure\'s own result), and the '
             'function\'s return type carries a type whose Drop writes the cell back. A refused compilation that leaves a '
             'counter raised makes a later compilation on the same thread refuse (or accept) differently from a fresh '
             'process: the output would no longer be a function of the source.')
    writers = []            # (root fn, body containing the LocalKey call, block, [closures that write])
    for fn in sorted(prog.fns.values(), key=lambda f: f.p):
        if fn.crate != 'bladeink_compiler':
            continue
        for bb, t in fn.calls():
            cs = callee_short(t)
            if cs not in LOCAL_KEY:
                continue
            if cs in ('LocalKey::set', 'LocalKey::replace', 'LocalKey::take', 'LocalKey::update', 'LocalKey::with_borrow_mut'):
                writers.append((prog.root_fn(fn), fn, bb, []))
                continue
            cls = [prog.fns[c] for c in (t['f'].get('closures') or []) if c in prog.fns]
            wcl = [c for c in cls if any(callee_short(t2) in CELL_WRITES for g in prog.with_closures(c) for _, t2 in g.calls())]
            if wcl:
                writers.append((prog.root_fn(fn), fn, bb, wcl))
    guards = set()
    for root, fn, bb, wcl in writers:
        if root.short.endswith('as Drop>::drop'):
            guards.add(root.short.split(' as Drop')[0].lstrip('<'))
    n = 0
    for root, fn, bb, wcl in writers:
        if root.short.endswith('as Drop>::drop'):
            chk.ok(R5, chk.key(R5, root.short, 'restores'), 'the guard\'s Drop writes the cell back', fn.loc(bb))
            continue
        n += 1
        bad = []
        for c in wcl:
            g = cfg(c)
            wb = [b2 for b2, t2 in c.calls() if callee_short(t2) in CELL_WRITES]
            errs = [b for b, d_, s_ in err_exits(prog, c)]
            if wb and errs and g.path([s for b2 in wb for s in g.succ[b2]], lambda b: b in errs) is not None:
                bad.append('the closure that raises the cell can still fail after the write')
            always = bool(wb) and g.path([0], lambda b: b in g.returns, avoid=wb + errs) is None
            if always:
                gp = cfg(fn)
                perr = [b for b, d_, s_ in err_exits(prog, fn) if not (s_ is not None and s_[0] == bb) and b != bb]
                if perr and gp.path(gp.succ[bb], lambda b: b in perr) is not None:
                    bad.append('%s can return an error after the cell has been raised, with no guard to lower it again'
                               % root.short)
        if not wcl:
            bad.append('the cell is overwritten directly')
        rty = root.body['locals'][0]['ty']
        has_guard = any(gname and gname.rsplit('::', 1)[-1] in rty for gname in guards)
        if not has_guard:
            bad.append('%s does not return a guard whose Drop restores the cell (returns %s)' % (root.short, rty[:60]))
        chk.decide(R5, chk.key(R5, root.short), not bad,
                   'written only on the way to handing a restoring guard to the caller',
                   'thread-local state of the compiler is left changed when a compilation fails: %s. The next compilation '
                   'on the same thread starts from a different count than a fresh process, so the same source compiles to '
                   'a different result depending on what the thread compiled before' % '; '.join(bad), fn.loc(bb))
    chk.floor(R5, 'functions that raise a thread-local cell of the compiler', n, 1)
    chk.floor(R5, 'guard types restoring a thread-local cell', len(guards), 1)


def _story_fields_touched(fn):
    from analysis.facts import tyname
    out = {}

    def pl_fields(pl, bb):
        for pe in (pl or {}).get('p', []):
            if pe['k'] == 'field' and 'adt' in pe and tyname(pe['adt']) == 'Story':
                out.setdefault(pe['n'], bb)
    for bb, si, s in fn.stmts():
        if s['k'] != 'assign':
            continue
        pl_fields(s['pl'], bb)
        rv = s['rv']
        pl_fields(rv.get('pl'), bb)
        for k in ('op', 'a', 'b'):
            o = rv.get(k)
            if isinstance(o, dict):
                pl_fields(o.get('pl'), bb)
        for o in rv.get('ops', []):
            pl_fields(o.get('pl'), bb)
    for bb, t in fn.calls():
        for a in t['args']:
            pl_fields(a.get('pl'), bb)
    return out


def random_draws_read_saved_state_only(chk, prog):
    """Seeds C03-6 / C17-6: a memo of shuffle orders kept on the Story, outside the state that load and reset replace."""
    R = 'C03.random-draws-read-saved-state-only'
    chk.rule(R, 'The initial seed is the one piece of ambient entropy; load_state, reset_state and SEED_RANDOM replace it, and '
             'with it everything that was derived from it - provided that lives in StoryState. So the functions that draw '
             'random numbers (they read StoryState::story_seed / previous_random) touch, of the Story object, only fields '
             'with a settled class: the state itself, the immutable program, host registrations, and the fields that are '
             'neutral at every host-call boundary (the table is shared with C17.every-field-classified). A field outside '
             'that table touched where randomness is drawn - a memo of shuffle orders, a cached generator - survives a load '
             'that changes the seed, and what is played afterwards depends on the entropy of the object\'s first seed.')
    from analysis.facts import tyname
    from rules.c17 import CLASS
    drawers = []
    for fn in sorted(prog.fns.values(), key=lambda f: f.p):
        if fn.crate != 'bladeink' or '::tests::' in fn.p:
            continue
        reads_seed = False
        for bb, si, s in fn.stmts():
            if s['k'] != 'assign':
                continue
            pls = [s['rv'].get('pl')] + [o.get('pl') for o in ([s['rv'].get(k) for k in ('op', 'a', 'b')] + s['rv'].get('ops', []))
                                         if isinstance(o, dict)]
            for pl in pls:
                for pe in (pl or {}).get('p', []):
                    if pe['k'] == 'field' and 'adt' in pe and tyname(pe['adt']) == 'StoryState' \
                            and pe['n'] in ('story_seed', 'previous_random'):
                        reads_seed = True
        if not reads_seed:
            for bb, t in fn.calls():
                for a in t['args']:
                    for pe in (a.get('pl') or {}).get('p', []):
                        if pe['k'] == 'field' and 'adt' in pe and tyname(pe['adt']) == 'StoryState' \
                                and pe['n'] in ('story_seed', 'previous_random'):
                            reads_seed = True
        if reads_seed and (prog.root_fn(fn).self_adt or '').rsplit('::', 1)[-1] == 'Story':
            drawers.append(fn)
    chk.floor(R, 'Story functions that read the seed', len(drawers), 2)
    roots = sorted({prog.root_fn(f).p: prog.root_fn(f) for f in drawers}.values(), key=lambda f: f.p)
    for root in roots:
        touched = {}
        for g in prog.with_closures(root):
            for n, bb in _story_fields_touched(g).items():
                touched.setdefault(n, (g, bb))
        unknown = sorted(n for n in touched if n not in CLASS)
        g, bb = touched[unknown[0]] if unknown else (root, 0)
        chk.decide(R, chk.key(R, root.short), not unknown,
                   'touches only classified Story fields (%s)' % ', '.join(sorted(touched)),
                   '%s draws random numbers from the seed and also uses Story::%s, a field outside the state that '
                   'load_state / reset_state replace (and outside the table of settled fields): what it keeps there survives '
                   'a change of the seed, so play after a load depends on the entropy of the earlier seed'
                   % (root.short, ', Story::'.join(unknown)), g.loc(bb))
