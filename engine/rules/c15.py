"""C15 — malformed story / save input is rejected with an error, not a crash (panic discipline of the decoders)."""
from analysis.facts import callee, callee_short
from analysis.cfg import cfg
from analysis.defuse import Tracer
from analysis.panics import sites, guard_dominated
from analysis.guards import resolve_cond

JSON_TYPES = ('serde_json::', 'JsonTokenizer', 'JsonValue', 'json_tokenizer::Number')
ENTRY = ('Story::new', 'Story::load_state')
# leaf decoders that take input text but no JSON-typed value
DOC_PRIMITIVES = ('StoryState::pop_evaluation_stack', 'StoryState::pop_evaluation_stack_multiple',
                  'StoryState::peek_evaluation_stack', 'StoryState::push_evaluation_stack',
                  'CallStack::get_temporary_variable_with_name', 'CallStack::set_temporary_variable')
EXTRA_DECODERS = ('Path::new_with_components_string', 'InkListItem::from_full_name', 'PushPopType::from_value',
                  'StoryState::load_json', 'json_read::load_from_string', 'json_read_stream::load_from_string')

# sites whose receiver cannot depend on the input document (confirmed by reading)
TABLE = {
    'CallStack::get_temporary_variable_with_name|assert:overflow:Add|call:CallStack::get_current_element_index':
        'call-stack height (len as i32 - 1) + 1: the height is bounded by memory (each frame holds a map), far below i32::MAX',
    'CallStack::set_temporary_variable|assert:overflow:Add|call:CallStack::get_current_element_index':
        'call-stack height + 1, as above',
}


def reach(prog, starts):
    seen = set()
    st = [prog.fn(s) for s in starts if prog.fn(s) is not None]
    while st:
        f = st.pop()
        if f.p in seen:
            continue
        seen.add(f.p)
        st.extend(prog.children.get(f.p, []))
        for bb, t in f.calls():
            g = prog.fns.get(callee(t))
            if g is not None:
                st.append(g)
            for cl in t['f'].get('closures') or []:
                if cl in prog.fns:
                    st.append(prog.fns[cl])
    return seen


def decoder_set(prog):
    R = reach(prog, ENTRY)
    D = {}
    for p in R:
        f = prog.fns[p]
        if any(any(j in l['ty'] for j in JSON_TYPES) for l in f.body['locals']):
            D[p] = f
    for s in EXTRA_DECODERS:
        f = prog.fn(s)
        if f is not None:
            D[f.p] = f
    # closures of decoders
    for p in list(D):
        for c in prog.closures_of(D[p]):
            D[c.p] = c
    # the JSON *writers* share the types but never read the document
    for p in list(D):
        f = D[p]
        root = prog.root_fn(f)
        if root.name.startswith(('write_', 'to_json')) or '::json_write::' in root.p or root.name in ('save_state',):
            del D[p]
    return D


def _edge_targets(t, c, want):
    """Successors of switch terminator t on which condition c has truth value `want`."""
    vals = [v for v, _ in t['ts']]
    out = []
    for v, tb in t['ts']:
        if c.truth_of_value(v) == want:
            out.append(tb)
    rest = {0, 1} - set(vals)
    if len(rest) == 1 and c.truth_of_value(rest.pop()) == want:
        out.append(t['else'])
    return out


def bounded_by_dominating_cmp(prog, fn, site, tr):
    """(1) `x + const` where x is a parameter that a dominating `x > K` / `x >= K` test (false edge) bounds;
       (2) `v[k]` with constant k where a dominating `v.len() > c` (c >= k) / `>= c` (c > k) test holds."""
    t = site['term']
    g = cfg(fn)
    dom = g.dominators()
    if site['bb'] not in dom:
        return None
    kind = site['kind']
    if kind.startswith('assert:overflow:Add') or kind.startswith('assert:overflow:Sub'):
        pa, pb = tr.prov(fn, t['a']), tr.prov(fn, t['b'])
        var = pa if any(x.startswith('arg:') for x in pa) else pb
        other = pb if var is pa else pa
        if not (other and all(x.startswith('const:') for x in other)):
            return None
        args = {x for x in var if x.startswith('arg:')}
        if not args or any(not x.startswith(('arg:', 'via:')) for x in var):
            return None
        for b in dom[site['bb']]:
            tt = fn.blocks[b]['term']
            if not tt or tt['k'] != 'switch':
                continue
            c = resolve_cond(prog, fn, tt['d'], tr)
            if c and c.desc[0] == 'cmp' and c.desc[1] in ('Gt', 'Ge') and isinstance(c.desc[3], int) \
                    and args <= set(c.desc[2]):
                false_t = _edge_targets(tt, c, False)
                true_t = [x for x in _edge_targets(tt, c, True) if x not in false_t]
                if false_t and site['bb'] not in g.reachable(true_t):
                    return 'parameter bounded by the dominating test `%s %s %s` (false edge)' % (
                        sorted(args)[0], c.desc[1], c.desc[3])
        return None
    if kind.startswith('index:') and t['k'] == 'call' and len(t['args']) == 2:
        idx = tr.prov(fn, t['args'][1])
        if not (len(idx) == 1 and list(idx)[0].startswith('const:')):
            return None
        try:
            k = int(list(idx)[0][6:])
        except ValueError:
            return None
        recv = {a for a in tr.prov(fn, t['args'][0]) if not a.startswith('via:')}
        for b in dom[site['bb']]:
            tt = fn.blocks[b]['term']
            if not tt or tt['k'] != 'switch':
                continue
            c = resolve_cond(prog, fn, tt['d'], tr)
            if c and c.desc[0] == 'cmp' and isinstance(c.desc[3], int) and c.desc[1] in ('Gt', 'Ge'):
                lhs = set(c.desc[2])
                if not any(a.endswith('::len') for a in lhs):
                    continue
                lrecv = len_receiver(prog, fn, tt['d'], tr)
                if lrecv is None or not (recv <= lrecv or lrecv <= recv):
                    continue
                need_ok = (c.desc[1] == 'Gt' and c.desc[3] >= k) or (c.desc[1] == 'Ge' and c.desc[3] > k)
                if not need_ok:
                    continue
                true_t = _edge_targets(tt, c, True)
                false_t = [x for x in _edge_targets(tt, c, False) if x not in true_t]
                if true_t and site['bb'] not in g.reachable(false_t):
                    return 'index %d guarded by the dominating test len() %s %d' % (k, c.desc[1], c.desc[3])
    return None


def len_receiver(prog, fn, discr, tr, depth=0):
    """For a switch discriminant computed as `x.len() <op> const`, the provenance of x."""
    from analysis.defuse import du
    if discr['k'] not in ('copy', 'move') or depth > 6:
        return None
    df = du(fn).single_def(discr['pl']['l'])
    if df is None:
        return None
    if df['kind'] == 'assign':
        rv = df['rv']
        if rv['k'] == 'use':
            return len_receiver(prog, fn, rv['op'], tr, depth + 1)
        if rv['k'] == 'binop':
            for side in ('a', 'b'):
                r = len_receiver(prog, fn, rv[side], tr, depth + 1) if rv[side]['k'] != 'const' else None
                if r is not None:
                    return r
        return None
    if df['kind'] == 'call':
        t = df['term']
        if callee_short(t).endswith('::len') and t['args']:
            return {a for a in tr.prov(fn, t['args'][0]) if not a.startswith('via:')}
    return None


def sccs(nodes, edges):
    index = {}
    low = {}
    stack = []
    on = set()
    out = []
    counter = [0]

    def strong(v):
        work = [(v, iter(edges.get(v, ())))]
        index[v] = low[v] = counter[0]
        counter[0] += 1
        stack.append(v)
        on.add(v)
        while work:
            node, it = work[-1]
            adv = False
            for w in it:
                if w not in index:
                    index[w] = low[w] = counter[0]
                    counter[0] += 1
                    stack.append(w)
                    on.add(w)
                    work.append((w, iter(edges.get(w, ()))))
                    adv = True
                    break
                elif w in on:
                    low[node] = min(low[node], index[w])
            if adv:
                continue
            work.pop()
            if work:
                low[work[-1][0]] = min(low[work[-1][0]], low[node])
            if low[node] == index[node]:
                comp = []
                while True:
                    w = stack.pop()
                    on.discard(w)
                    comp.append(w)
                    if w == node:
                        break
                out.append(comp)
    for v in nodes:
        if v not in index:
            strong(v)
    return out


def judge_sites(chk, prog, tr, RULE, D, used):
    nsites = 0
    ords = {}
    for p in sorted(D):
        fn = D[p]
        for s in sites(prog, fn):
            nsites += 1
            t = s['term']
            kind = s['kind']
            base = '%s|%s' % (fn.short, kind)
            n = ords.get(base, 0)
            ords[base] = n + 1
            key = chk.key(RULE, fn.short, kind, '#%d' % n)
            loc = fn.loc(s['bb'])
            # constant in-range indexing of a fixed-size array
            if kind == 'assert:bounds' and t['a']['k'] == 'const' and t['b']['k'] == 'const' \
                    and t['b'].get('int', 1) < t['a'].get('int', 0):
                chk.ok(RULE, key, 'constant index within a fixed-size array', loc)
                continue
            if kind == 'assert:bounds':
                pa, pb = tr.prov(fn, t['a']), tr.prov(fn, t['b'])
                if len(pa) == 1 and len(pb) == 1 and all(x.startswith('const:') for x in pa | pb):
                    try:
                        if int(list(pb)[0][6:]) < int(list(pa)[0][6:]):
                            chk.ok(RULE, key, 'constant index within a fixed-size array', loc)
                            continue
                    except ValueError:
                        pass
            if kind == 'method:Vec::drain' and len(t['args']) > 1:
                ra = tr.prov(fn, t['args'][1])
                if 'agg:RangeFrom::RangeFrom' in ra and 'op:checked_sub' in ra and 'field:Option::Some.0' in ra \
                        and 'call:Vec::len' in ra:
                    chk.ok(RULE, key, 'drain(start..) with start = len.checked_sub(n) taken on its Some side', loc)
                    continue
            bd = bounded_by_dominating_cmp(prog, fn, s, tr)
            if bd:
                chk.ok(RULE, key, 'guard-dominated: ' + bd, loc)
                continue
            gd = guard_dominated(prog, fn, s, tr)
            if gd:
                chk.ok(RULE, key, 'guard-dominated: ' + gd['guard'], loc)
                continue
            atoms = set()
            if t['k'] == 'call' and t['args']:
                atoms = tr.prov(fn, t['args'][0])
            elif t['k'] == 'assert':
                atoms = tr.prov(fn, t['a']) | (tr.prov(fn, t['b']) if 'b' in t else set())
            hit = None
            for a in sorted(atoms):
                tk = '%s|%s|%s' % (fn.short, kind, a)
                if tk in TABLE:
                    hit = tk
                    break
            if hit:
                used.add(hit)
                chk.ok(RULE, key, 'table: ' + TABLE[hit], loc)
                continue
            chk.fail(RULE, key, '%s in %s can panic on malformed input (operand provenance: %s); use `?` with '
                     'StoryError::BadJson' % (kind, fn.short, sorted(a for a in atoms if not a.startswith('via:'))[:4]),
                     loc)
    return nsites


def run(chk, prog):
    tr = Tracer(prog)
    chk.not_decided += ['"within bounded time": termination of the tokenizer / decoder loops',
                        'panics after a successful load caused by a structurally valid but semantically impossible save '
                        '(e.g. an empty thread list) — they are reached later, outside the decoders',
                        '"after a failed load, reset plays like fresh" beyond C17\'s clause']
    R1 = 'C15.decoder-panic'
    chk.rule(R1, 'In every decoder function (reachable from Story::new / Story::load_state and handling serde_json '
             'values, the streaming tokenizer or its tokens, plus the text-level leaf decoders) each panic-capable '
             'construct — unwrap/expect, panic!/todo!, indexing and slicing, len()-1 arithmetic, Vec::remove — is an '
             'obligation: it must be dominated by a success test on the same value, or its operand must not derive '
             'from the input document (frozen table); everything else must use `?` / ok_or(BadJson).')
    R2 = 'C15.bounded-recursion'
    chk.rule(R2, 'Every call-graph cycle among the decoder functions carries a depth bound (a usize parameter compared '
             'with a constant, incremented on the recursive call) or recurses only over a serde_json::Value obtained from '
             'serde_json::from_str (whose depth serde_json limits to 128).')
    R3 = 'C15.error-channel'
    chk.rule(R3, 'StoryError is constructible from io::Error (tokenizer errors surface as Err(BadJson)).')

    D = decoder_set(prog)
    chk.floor(R1, 'decoder functions', len(D), 40)
    chk.extra_cov['decoder_functions'] = sorted(f.short for f in D.values())
    used = set()
    nsites = judge_sites(chk, prog, tr, R1, D, used)
    chk.extra_cov['panic_sites_in_decoders'] = nsites

    # ---- the interpreter primitives a story document drives directly
    R4 = 'C15.construction-runs-the-document'
    chk.rule(R4, 'Story::new runs the document\'s global-declaration container through the interpreter, so the document decides '
             'the sequence of pushes and pops of the evaluation stack: the evaluation-stack accessors (pop, pop-multiple, '
             'peek, push) contain no unguarded panic-capable construct - an underflow or an unknown list is an Err.')
    prim = {}
    for nm in DOC_PRIMITIVES:
        f_ = prog.fn(nm)
        if chk.anchor(R4, nm, f_):
            prim[f_.p] = f_
            for c_ in prog.closures_of(f_):
                prim[c_.p] = c_
    np_ = judge_sites(chk, prog, tr, R4, prim, used)
    chk.extra_cov['panic_sites_in_document_driven_primitives'] = np_
    snew = prog.fn('Story::new')
    if chk.anchor(R4, 'Story::new', snew):
        reach, work = set(), [snew]
        while work:
            f_ = work.pop()
            if f_.p in reach:
                continue
            reach.add(f_.p)
            for g_ in prog.with_closures(f_):
                reach.add(g_.p)
                for bb, t in g_.calls():
                    h_ = prog.fns.get(callee(t))
                    if h_ is not None and h_.p not in reach:
                        work.append(h_)
        runs = any(prog.fns[p_].short == 'Story::continue_internal' for p_ in reach)
        chk.extra_cov['construction_reaches_interpreter'] = runs
        rest = 0
        for p_ in reach:
            f_ = prog.fns[p_]
            if f_.crate == 'bladeink' and p_ not in D and p_ not in prim:
                rest += sum(1 for s_ in sites(prog, f_) if not guard_dominated(prog, f_, s_, tr))
        chk.extra_cov['undecided_panic_capable_sites_reachable_from_construction'] = rest

    for k in TABLE:
        if k not in used:
            chk.note('C15 table entry matches no site (stale): ' + k)

    # ---- optionals the document decides (shared with C04)
    from rules.docopt import check_document_decided_options
    check_document_decided_options(chk, prog, 'C15.document-decided-options-not-unwrapped',
                                   ' Story::new runs the global declarations through the interpreter and load_state '
                                   'is followed by ordinary play, so these sites are reachable from a document.')

    # ---- what the decoders call on the state they are filling
    R5 = 'C15.decoders-call-no-panicking-accessor'
    chk.rule(R5, 'A decoder that calls a function of the engine which is not itself a decoder hands it state that comes '
             'straight from the document. Such a callee contains no unguarded unwrap / index / slice / remove, or is in the '
             'table below with the reason why the document cannot reach it (e.g. an accessor that unwraps "the current '
             'thread" is fine during play, where a thread always exists, and aborts on a save whose thread list is empty).')
    ACCESSOR_TABLE = {
        'Container::new': 'the name of a child is unwrapped only under has_valid_name() (which tests name.is_some())',
        'Container::content_at_path': 'the unwrap is on the path component at an index below the path length (loop bound)',
        'Story::pointer_at_path': 'get_last_component() is unwrapped after the early return for an empty path; the index '
                                  'of an index component is unwrapped under is_index()',
    }
    n_acc, seen_acc = 0, set()
    for p_, fn in sorted(D.items()):
        for bb, t in fn.calls():
            g_ = prog.fns.get(callee(t))
            if g_ is None or g_.p in D or g_.p in prim or g_.crate != 'bladeink' or g_.parent:
                continue
            ss = [s_ for h_ in prog.with_closures(g_) for s_ in sites(prog, h_)
                  if s_['kind'].startswith(('unwrap', 'index', 'method', 'slice', 'assert:bounds'))
                  and not guard_dominated(prog, h_, s_, tr)]
            if not ss or (fn.short, g_.short) in seen_acc:
                continue
            seen_acc.add((fn.short, g_.short))
            n_acc += 1
            chk.decide(R5, chk.key(R5, prog.root_fn(fn).short, g_.short), g_.short in ACCESSOR_TABLE,
                       'table: ' + ACCESSOR_TABLE.get(g_.short, ''),
                       'decoder %s calls %s, which contains %s not guarded inside it: on a document that leaves the state in '
                       'a shape play never produces (an empty thread list, ...) the load aborts instead of returning Err'
                       % (prog.root_fn(fn).short, g_.short, ', '.join(sorted({s_['kind'] for s_ in ss}))[:120]), fn.loc(bb))
    chk.extra_cov['decoder_calls_into_panicking_accessors'] = n_acc

    # ---- recursion
    edges = {}
    for p, fn in D.items():
        outs = set()
        for bb, t in fn.calls():
            c = callee(t)
            if c in D:
                outs.add(c)
            for cl in t['f'].get('closures') or []:
                if cl in D:
                    outs.add(cl)
        for c in prog.children.get(p, []):
            if c.p in D:
                outs.add(c.p)
        edges[p] = outs
    comps = [c for c in sccs(list(D), edges) if len(c) > 1 or c[0] in edges.get(c[0], ())]
    chk.floor(R2, 'recursive cycles among decoders', len(comps), 2)
    for comp in comps:
        names = sorted(D[p].short for p in comp)
        key = chk.key(R2, '+'.join(names))
        bounded = False
        why = ''
        why_not = ''
        for p in comp:
            fn = D[p]
            for bb, t in fn.terms():
                if t['k'] != 'switch':
                    continue
                c = resolve_cond(prog, fn, t['d'], tr)
                if c and c.desc[0] == 'cmp' and any(a.startswith('arg:') for a in c.desc[2]) \
                        and isinstance(c.desc[3], int) and c.desc[1].lstrip('r') in ('Gt', 'Ge', 'Lt', 'Le'):
                    argn = [int(a.split(':')[1]) for a in c.desc[2] if a.startswith('arg:')][0]
                    if fn.local_ty(argn) == 'usize':
                        # the recursive calls must pass that parameter + constant
                        inc = False
                        for q in comp:
                            g = D[q]
                            for b2, t2 in g.calls():
                                if callee(t2) in comp:
                                    for a in t2['args']:
                                        at = tr.prov(g, a)
                                        if any(x.startswith('op:Add') for x in at) and 'const:1' in at:
                                            inc = True
                        # the side of the test on which the bound is exceeded must not reach a recursive call
                        exceeded = _edge_targets(t, c, True)
                        gg = cfg(fn)
                        rec_blocks = {b3 for b3, t3 in fn.calls() if callee(t3) in comp}
                        stops = bool(exceeded) and not (gg.reachable(exceeded) & rec_blocks)
                        # every cycle of the recursion must pass an edge that increments the depth: remove the
                        # incrementing call edges and look for a remaining cycle
                        plain = {q: set() for q in comp}
                        for q in comp:
                            gq = D[q]
                            for b2, t2 in gq.calls():
                                c2 = callee(t2)
                                if c2 in comp:
                                    incs = False
                                    for a in t2['args']:
                                        at = tr.prov(gq, a)
                                        if any(x.startswith('op:Add') for x in at) and 'const:1' in at and \
                                                any(x.startswith('arg:') for x in at):
                                            incs = True
                                    if not incs:
                                        plain[q].add(c2)
                        rest = [c for c in sccs(list(comp), plain) if len(c) > 1 or c[0] in plain.get(c[0], ())]
                        if inc and stops and not rest:
                            bounded = True
                        elif inc and stops and rest:
                            why_not = 'a recursion path that never increments the depth remains: ' + \
                                ' -> '.join(sorted(D[x].short for x in rest[0]))
                            why = 'depth parameter of %s compared with %s and incremented on the recursive call' % (
                                fn.short, c.desc[3])
        if not bounded:
            # recursion over a serde_json::Value parsed by serde_json::from_str
            over_value = all(any('serde_json::value::Value' in l['ty'] or 'serde_json::map::Map' in l['ty']
                                 for l in D[p].body['locals'][1:D[p].body['argc'] + 1]) for p in comp)
            if over_value:
                entries = set()
                for p in comp:
                    for fn2, bb2, t2 in prog.callers(D[p].short):
                        if fn2.p not in comp:
                            entries.add(prog.root_fn(fn2).short)
                parsed = [e for e in ('json_read::load_from_string', 'StoryState::load_json')
                          if prog.fn(e) is not None and any('serde_json::de::from_str' in (t['f'].get('def') or '')
                                                            for _, t in prog.fn(e).calls())]
                if len(parsed) == 2:
                    bounded = True
                    why = 'recurses over a serde_json::Value; both documents are parsed by serde_json::from_str ' \
                          '(depth limit 128) in %s' % parsed
        chk.decide(R2, key, bounded, why, 'decoder recursion %s has no depth bound%s: a deeply nested document overflows '
                   'the stack' % (names, (' (' + why_not + ')') if why_not else ''), D[comp[0]].loc(0))

    # ---- error channel
    ok = any((im.get('trait') or '').endswith('convert::From') and im['self'].endswith('StoryError')
             and 'io::error::Error' in (im.get('trait_full') or '') for im in prog.impls)
    chk.decide(R3, chk.key(R3, 'From<io::Error>'), ok, 'impl From<io::Error> for StoryError present',
               'StoryError no longer implements From<io::Error>: tokenizer errors cannot surface as Err', None)
