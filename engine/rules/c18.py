"""C18 — dropping a story releases its memory: the content tree has no strong back/cross edges."""
from analysis.facts import last_seg, tyname, callee_short
from analysis.typegraph import field_reach

ALLOWED_CHILD_EDGES = {
    ('Container', 'content'): 'the tree\'s own child list (parent -> child)',
    ('Container', 'named_content'): 'the tree\'s own named children (parent -> child)',
}
STATE_TYPES = ('Story', 'StoryState', 'Flow', 'CallStack', 'VariablesState', 'StatePatch')


def run(chk, prog):
    chk.rule('C18.strong-edge', 'Among the impl RTObject types, the only fields that can hold a strong Rc (through any '
             'nesting of Option/Vec/RefCell/HashMap/Box and owned structs; Weak contributes nothing) to a runtime '
             'object or container are Container::content and Container::named_content. Any other such field can close '
             'a reference cycle (e.g. a divert inside the container it targets) which Rc never frees.')
    chk.rule('C18.choice-not-content', 'Choice holds a Thread (strong pointers into the tree) but is state, not content: '
             'Choice::new (the only constructor that fills the thread) is called only from the choice generator, and the '
             'field thread_at_generation is written only by Choice constructors and the flow loader.')
    chk.rule('C18.no-state-in-tree', 'No impl RTObject type owns (strongly) a state type (Story, StoryState, Flow, '
             'CallStack, VariablesState, StatePatch): the tree never points back at the state that points at it.')
    chk.not_decided += ['heap growth of repeated reset/load beyond the size of the state (a quantity)',
                        'cycles created through host-provided trait objects (observers, externals)']

    # content objects are not appended to while playing: the one interior-mutable collection of a content node that play
    # writes (the origins of a list literal) is rebuilt, not grown
    from rules.c07 import origins_rebuilt_on_push
    from analysis.defuse import Tracer as _Tr
    origins_rebuilt_on_push(chk, prog, _Tr(prog), 'C18.content-nodes-do-not-grow',
                            'A list literal in the content tree is the very object pushed on the evaluation stack, and it '
                            'survives reset_state and load_state. push_evaluation_stack writes its interior-mutable origins: '
                            'every push there is preceded by a clear, so repeated play / reset / load of one story instance '
                            'does not append definition clones to content nodes for ever (same clause as '
                            'C07.origins-recomputed-on-push).')
    no_state_outside_the_story(chk, prog)
    impls = prog.impls_of_trait('bladeink::object::RTObject')
    if not chk.anchor('C18.strong-edge', 'impls of bladeink::object::RTObject', impls):
        return
    chk.floor('C18.strong-edge', 'impl RTObject types', len(impls), 12)
    node_types = {im['self_adt'] for im in impls if im.get('self_adt')}
    node_short = {last_seg(p) for p in node_types}

    def is_node_target(t):
        return t in node_types or t == 'dyn:bladeink::object::RTObject'

    seen_allowed = set()
    nfields = 0
    for tp in sorted(node_types):
        adt = prog.adts.get(tp)
        if adt is None:
            chk.anchor('C18.strong-edge', 'ADT ' + tp, None)
            continue
        T = last_seg(tp)
        for v in adt['variants']:
            for f in v['fields']:
                nfields += 1
                reach = field_reach(prog, f)
                strong = sorted({(t, tuple(path)) for (t, via_rc, path) in reach if via_rc and is_node_target(t)})
                state = sorted({last_seg(t) for (t, _, _) in reach if last_seg(t) in STATE_TYPES})
                key = chk.key('C18.strong-edge', T, f['n'])
                loc = '%s:%s' % (adt['sp']['f'], adt['sp']['l'])
                if strong:
                    tgt = sorted({last_seg(t) for t, _ in strong})
                    via = ' -> '.join(strong[0][1])
                    if (T, f['n']) in ALLOWED_CHILD_EDGES:
                        seen_allowed.add((T, f['n']))
                        chk.ok('C18.strong-edge', key, 'allowed child edge: ' + ALLOWED_CHILD_EDGES[(T, f['n'])], loc)
                    elif (T, f['n']) == ('Choice', 'thread_at_generation'):
                        check_choice_exemption(chk, prog, key, loc)
                    else:
                        chk.fail('C18.strong-edge', key,
                                 'field %s::%s : %s can hold a strong Rc to %s (via %s): a content node pointing '
                                 'strongly at a container/object can close a cycle that is never freed'
                                 % (T, f['n'], f['ty'], ','.join(tgt), via), loc,
                                 {'type': tp, 'field': f['n'], 'field_type': f['ty'],
                                  'strong_paths': [{'target': t, 'path': list(p)} for t, p in strong]})
                else:
                    chk.ok('C18.strong-edge', key, 'no strong Rc to a runtime object reachable from this field', loc)
                k2 = chk.key('C18.no-state-in-tree', T, f['n'])
                if state and (T, f['n']) != ('Choice', 'thread_at_generation'):
                    chk.fail('C18.no-state-in-tree', k2, 'content type %s owns state type(s) %s through field %s'
                             % (T, state, f['n']), loc)
                else:
                    chk.ok('C18.no-state-in-tree', k2, 'no state type owned', loc)
    chk.floor('C18.strong-edge', 'fields of RTObject types', nfields, 40)
    for e in ALLOWED_CHILD_EDGES:
        if e not in seen_allowed:
            chk.note('allowed edge %s::%s no longer present (table entry stale)' % e)


def check_choice_exemption(chk, prog, key, loc):
    callers = prog.callers('Choice::new')
    roots = sorted({prog.root_fn(fn).short for fn, _, _ in callers})
    okc = bool(callers) and set(roots) <= {'Story::process_choice'}
    # writers of Choice::thread_at_generation
    writers = set()
    for fn in prog.fns.values():
        if fn.crate != 'bladeink':
            continue
        for bb, si, s in fn.stmts():
            if s['k'] != 'assign':
                continue
            for pl in places_of_stmt(s):
                for pe in pl.get('p', []):
                    if pe['k'] == 'field' and pe.get('n') == 'thread_at_generation' and tyname(pe.get('adt', '')) == 'Choice':
                        writers.add(prog.root_fn(fn).short)
        for bb, t in fn.calls():
            for a in t['args']:
                if a['k'] in ('copy', 'move'):
                    for pe in a['pl'].get('p', []):
                        if pe['k'] == 'field' and pe.get('n') == 'thread_at_generation':
                            writers.add(prog.root_fn(fn).short)
    allowed = {'Choice::new', 'Choice::new_from_json', 'Choice::get_thread_at_generation',
               'Choice::set_thread_at_generation', '<Choice as Clone>::clone', 'Choice::clone'}
    extra = sorted(w for w in writers if w not in allowed)
    if okc and not extra:
        chk.ok('C18.choice-not-content', key,
               'exempt: Choice is state, not content — Choice::new called only from %s; field touched only by %s'
               % (roots, sorted(writers)), loc)
    else:
        chk.fail('C18.choice-not-content', chk.key('C18.choice-not-content', 'Choice', 'thread_at_generation'),
                 'Choice holds a Thread (strong pointers into the tree); the exemption "Choice is never a content '
                 'node" no longer re-validates: Choice::new callers=%s, unexpected functions touching the field=%s'
                 % (roots, extra), loc)


def no_state_outside_the_story(chk, prog):
    RS = 'C18.nothing-outlives-the-story'
    chk.rule(RS, 'Everything the runtime allocates while playing hangs off the Story value (so dropping or resetting the '
             'story gives it back): no function of the runtime touches a thread-local, a static or a lazily initialised '
             'global cell. Such a cell is a memo that is never emptied - it grows with every story created or reset on '
             'the thread, and no Rc / Weak analysis of the content tree can see it.')
    SHARED = ('LocalKey::with', 'LocalKey::try_with', 'LocalKey::with_borrow', 'LocalKey::with_borrow_mut', 'LocalKey::set',
              'LocalKey::replace', 'LocalKey::take', 'OnceLock::get_or_init', 'LazyLock::force', 'Lazy::force',
              'OnceLock::get', 'OnceLock::set', 'LazyCell::force')
    ALLOWED = {}      # root function -> reason (none today)
    n, bad = 0, []
    for fn in sorted(prog.fns.values(), key=lambda f: f.p):
        if fn.crate != 'bladeink' or '::tests::' in fn.p:
            continue
        n += 1
        for bb, t in fn.calls():
            cs = callee_short(t)
            d = t['f'].get('def') or ''
            if cs in SHARED or 'thread::local::LocalKey' in d or d.startswith('std::sync::once_lock') \
                    or d.startswith('std::sync::lazy_lock'):
                bad.append((fn, bb, cs))
        # a `static` with interior mutability is reached through a constant that names the item
        for bb, si, st in fn.stmts():
            if st['k'] == 'assign' and st['rv']['k'] in ('use', 'ref', 'cast'):
                o = st['rv'].get('op') if isinstance(st['rv'].get('op'), dict) else None
                if o and o.get('k') == 'const' and o.get('static') and any(
                        x in (o.get('ty') or '') for x in ('Mutex', 'RwLock', 'RefCell', 'Cell<', 'Atomic')):
                    bad.append((fn, bb, 'static ' + str(o.get('static'))))
    chk.floor(RS, 'runtime functions examined', n, 600)
    if not bad:
        chk.ok(RS, chk.key(RS, 'no-global-cells'), 'no runtime function touches a thread-local / static / lazy global cell')
    for fn, bb, cs in bad:
        root = prog.root_fn(fn).short
        chk.decide(RS, chk.key(RS, root, cs), root in ALLOWED, 'table: ' + ALLOWED.get(root, ''),
                   '%s keeps data in a cell that lives outside every Story (%s): what it stores is not released when the '
                   'story is dropped or reset, and it grows with every story played on the thread' % (root, cs), fn.loc(bb))

    # --- every destructor runs: nothing is deliberately taken out of Rust's ownership -----------------------------------
    RF = 'C18.no-destructor-is-skipped'
    chk.rule(RF, 'Releasing memory on drop relies on every owner running its destructor: no function of the runtime calls '
             'mem::forget, ManuallyDrop::new, Box::leak / Vec::leak / String::leak, Rc::into_raw / Box::into_raw or '
             'Rc::increment_strong_count. A forgotten guard that holds an Rc of the call stack keeps the call stack, and '
             'through its start-of-root pointer the whole content tree, alive for ever - no cycle and no global cell '
             'involved (seed C18-6).')
    LEAKS = ('mem::forget', 'ManuallyDrop', '::leak', '::into_raw', 'increment_strong_count', 'into_raw_with_allocator')
    n, bad = 0, []
    for fn in sorted(prog.fns.values(), key=lambda f: f.p):
        if fn.crate != 'bladeink' or '::tests::' in fn.p:
            continue
        n += 1
        for bb, t in fn.calls():
            d = (t['f'].get('def') or '') + ' ' + (t['f'].get('full') or '')
            if t.get('macro') and any(m in str(t.get('macro')) for m in ('format', 'write', 'json', 'vec', 'println')):
                continue
            hit = [x for x in LEAKS if x in d]
            if hit:
                bad.append((fn, bb, callee_short(t)))
    chk.floor(RF, 'runtime functions examined', n, 600)
    if not bad:
        chk.ok(RF, chk.key(RF, 'no-leaking-call'), 'no runtime function takes a value out of ownership (forget / leak / into_raw)')
    for fn, bb, cs in bad:
        root = prog.root_fn(fn).short
        chk.fail(RF, chk.key(RF, root, cs),
                 '%s calls %s: the value handed over is never dropped, and every Rc it holds keeps its target (call stack, '
                 'content tree) allocated after the story is gone' % (root, cs), fn.loc(bb))


def places_of_stmt(s):
    out = [s['pl']]
    rv = s['rv']
    if 'pl' in rv:
        out.append(rv['pl'])
    for k in ('op', 'a', 'b'):
        o = rv.get(k)
        if isinstance(o, dict) and o.get('k') in ('copy', 'move'):
            out.append(o['pl'])
    for o in rv.get('ops', []):
        if o.get('k') in ('copy', 'move'):
            out.append(o['pl'])
    return out
