"""C19 — every piece of content is addressable by its own path (Hash/Eq agreement, text<->path symmetry, naming agreement)."""
from analysis.facts import callee, callee_short, tyname
from analysis.cfg import cfg
from analysis.defuse import Tracer, fields_of
from analysis.guards import GuardFlow, resolve_cond
from analysis.fieldcov import fields_read, _places_read, fields_in_place
from analysis.tables import const_strings_of_operand


def chars_used(prog, fn, callee_names, tr=None):
    """Characters handed to the named calls in fn and its closures: char constants, and one-character string
    constants (`join(".")`, `push_str(".")`)."""
    out = set()
    for g in prog.with_closures(fn):
        for bb, t in g.calls():
            if callee_short(t).rsplit('::', 1)[-1] in callee_names:
                for a in t['args']:
                    if a['k'] == 'const' and 'char' in a:
                        out.add(a['char'])
                    elif tr is not None:
                        for sc in const_strings_of_operand(g, a, tr):
                            if len(sc) == 1:
                                out.add(sc)
    return out


def dot_emissions(prog, fn, tr):
    """Blocks (in the closures of fn) where a literal "." is put in front of / between text: a "." string constant
    passed to a call, or a format template that contains one."""
    out = []
    for c in prog.closures_of(fn):
        for bb, t in c.calls():
            hit = False
            for a in t['args']:
                if any(sc == '.' for sc in const_strings_of_operand(c, a, tr)):
                    hit = True
                if callee_short(t) == 'Arguments::new':
                    from rules.c20 import producer
                    pr = producer(c, a)
                    if pr[0] == 'const' and '.' in (pr[1].get('bytes') or pr[1].get('str') or ''):
                        hit = True
            if hit and callee_short(t).rsplit('::', 1)[-1] not in ('join',):
                out.append((c, bb))
    return out


def run(chk, prog):
    tr = Tracer(prog)
    chk.not_decided += ['that every object of every story resolves back to itself (depends on story data: duplicate names, '
                        'named-only content)', 'relative paths between pairs of objects']
    RA = 'C19.hash-agrees-with-eq'
    chk.rule(RA, 'For Path and Component the fields Hash::hash depends on are a subset of those PartialEq::eq compares. '
             'Path::hash goes through the cached text form: the cache Path::components_string counts as depending on '
             'fields only if every producer computes it from those fields - the only producer is the get_or_init closure '
             'of get_components_string (reads components and is_relative); any OnceCell::set on it, or a Path built with a '
             'pre-filled cache, is a second, unchecked producer (expected count zero).')
    RB = 'C19.text-path-symmetry'
    chk.rule(RB, 'Renderer and parser agree: the leading "." is emitted under is_relative and sets is_relative when '
             'parsed; the separator is the same character on both sides; the parent token is the same constant; a '
             'component prints its index iff it has one and the parser builds an index component iff parse::<usize> '
             'succeeds.')
    RC = 'C19.naming-agreement'
    chk.rule(RC, 'Object::get_path produces a name component exactly when has_valid_name() holds (index otherwise), '
             'Container::new registers exactly the has_valid_name() children in named_content, and '
             'content_with_path_component looks names up in named_content.')

    # ---------------- (a)
    for T in ('Path', 'Component'):
        h = prog.fn('<%s as Hash>::hash' % T)
        e = prog.fn('<%s as PartialEq>::eq' % T)
        if not (chk.anchor(RA, '<%s as Hash>::hash' % T, h) and chk.anchor(RA, '<%s as PartialEq>::eq' % T, e)):
            continue
        # follow Display / to_string / getters to depth 4 within the type
        def deps(fn):
            seen, work, out = set(), [(fn, 0)], set()
            while work:
                f, d = work.pop()
                if f.p in seen:
                    continue
                seen.add(f.p)
                out |= set(fields_read(prog, [f], T, depth=0))
                for g in prog.with_closures(f):
                    for bb, t in g.calls():
                        hh = prog.fns.get(callee(t))
                        if hh is not None and d < 4 and (tyname(hh.self_adt or '') == T):
                            work.append((hh, d + 1))
                        # `self.to_string()` runs the type's Display implementation
                        if callee_short(t) == '<T as ToString>::to_string' and any(
                                tyname(x) == T for x in t['f'].get('targs', [])):
                            disp = prog.fn('<%s as Display>::fmt' % T)
                            if disp is not None:
                                work.append((disp, d + 1))
            return out
        hd, ed = deps(h), deps(e)
        cache = {'components_string'} if T == 'Path' else set()
        extra = sorted(hd - ed - cache)
        chk.decide(RA, chk.key(RA, T, 'hash-subset-of-eq'), not extra and bool(hd),
                   'hash depends on %s, eq compares %s' % (sorted(hd), sorted(ed)),
                   '<%s as Hash>::hash depends on field(s) %s that <%s as PartialEq>::eq does not compare: equal values '
                   'can hash differently' % (T, extra, T), h.loc(0))
    # producers of the cache
    nset = 0
    gcs = prog.fn('Path::get_components_string')
    for fn in prog.fns.values():
        if fn.crate != 'bladeink':
            continue
        for bb, t in fn.calls():
            cs = callee_short(t)
            if cs in ('OnceCell::set', 'OnceCell::get_or_init', 'OnceCell::get_mut', 'OnceCell::take') and t['args']:
                at = tr.prov(fn, t['args'][0])
                local_cell = 'call:OnceCell::new' in at
                if 'field:Path::components_string' in at or (local_cell and cs == 'OnceCell::set'):
                    root = prog.root_fn(fn).short
                    if cs == 'OnceCell::get_or_init' and root == 'Path::get_components_string':
                        chk.ok(RA, chk.key(RA, 'cache-producer', root), 'the sanctioned producer (get_or_init)', fn.loc(bb))
                    elif cs == 'OnceCell::get_or_init':
                        chk.fail(RA, chk.key(RA, 'cache-producer', root), 'second get_or_init producer of the path text '
                                 'cache in %s' % root, fn.loc(bb))
                    else:
                        nset += 1
                        chk.fail(RA, chk.key(RA, 'cache-producer', root, cs),
                                 '%s fills the cached text form of a Path through %s: a producer that is not checked to '
                                 'agree with the components (hash / display could disagree with eq)' % (root, cs),
                                 fn.loc(bb))
        for bb, si, s in fn.stmts():
            if s['k'] == 'assign' and s['rv']['k'] == 'agg' and s['rv'].get('ak') == 'adt' \
                    and tyname(s['rv']['adt']) == 'Path':
                i = s['rv']['fields'].index('components_string')
                at = tr.prov(fn, s['rv']['ops'][i])
                fresh = any(a in ('call:OnceCell::new',) for a in at) or any(
                    'Default' in a or 'default' in a for a in at) or 'field:Path::components_string' in at
                filled = any(a.startswith('call:') and a not in ('call:OnceCell::new',) and 'efault' not in a
                             and 'clone' not in a.lower() for a in at)
                root = prog.root_fn(fn).short
                chk.decide(RA, chk.key(RA, 'cache-initialiser', root), fresh and not filled,
                           'Path built with an empty (or cloned) cache',
                           '%s builds a Path with a pre-filled text cache (%s)' % (root, sorted(at)[:4]), fn.loc(bb, si))
    if chk.anchor(RA, 'Path::get_components_string', gcs):
        cl = prog.closures_of(gcs)
        reads = set()
        for c in cl:
            reads |= set(fields_read(prog, [c], 'Path', depth=1))
        eq = prog.fn('<Path as PartialEq>::eq')
        eqr = set(fields_read(prog, [eq], 'Path', depth=1)) if eq else set()
        chk.decide(RA, chk.key(RA, 'cache-computed-from-eq-fields'), bool(reads) and reads <= eqr | {'components_string'},
                   'the cache is computed from %s (eq compares %s)' % (sorted(reads), sorted(eqr)),
                   'the text cache is computed from %s but eq compares %s' % (sorted(reads), sorted(eqr)), gcs.loc(0))

    # a path whose components (or relativity) are changed after it was built must not carry a text cache filled for
    # the old components: the changed value is one the function has just built fresh, or the cache is reset
    n_mut = 0
    for fn in sorted(prog.fns.values(), key=lambda f: f.p):
        if fn.crate != 'bladeink':
            continue
        resets = set()
        sites_ = []
        for bb, si, s in fn.stmts():
            if s['k'] != 'assign':
                continue
            cands = [('assigned', s['pl'])]
            if s['rv']['k'] == 'ref' and s['rv'].get('mut'):
                cands.append(('borrowed mutably', s['rv']['pl']))
            for kind, pl in cands:
                for pr in pl.get('p', []):
                    if pr.get('k') == 'field' and pr.get('adt', '').endswith('path::Path'):
                        if pr.get('n') == 'components_string' and kind == 'assigned':
                            resets.add(pl['l'])
                        elif pr.get('n') in ('components', 'is_relative'):
                            sites_.append((bb, si, kind, pr['n'], pl['l']))
        for bb, si, kind, fld, l in sites_:
            n_mut += 1
            at = tr.prov_local(fn, l)
            stale = sorted(a for a in at if a.startswith(('arg:', 'field:', 'upvar:')) or 'Clone' in a or 'clone' in a)
            chk.decide(RA, chk.key(RA, 'changed-after-build', prog.root_fn(fn).short, fld), not stale or l in resets,
                       'the path being changed was built in place (empty cache)',
                       '%s changes Path::%s of a path that may already carry its cached text form (the value comes from %s) '
                       'without resetting Path::components_string: the text, and the hash computed from it, stay those of '
                       'the old components - the position reported for a pointer reads back as its container'
                       % (prog.root_fn(fn).short, fld, stale[:3]), fn.loc(bb, si))
    chk.floor(RA, 'places that change a Path after it was built', n_mut, 1)

    # the cache is not observable: nothing but its producer (and Clone) reads it, in particular not eq / cmp
    CACHE_READERS = {'Path::get_components_string': 'the producer', '<Path as Clone>::clone': 'copies the cache with the value',
                     '<Path as Default>::default': 'empty cache'}
    n_readers = 0
    for fn in prog.fns.values():
        if fn.crate != 'bladeink' or fn.parent:
            continue
        # reads of the cache through a value the function was given (not through one it has just built)
        where = None
        for g in prog.with_closures(fn):
            for bb, si, st in g.stmts():
                if st['k'] != 'assign':
                    continue
                for pl in _places_read(st):
                    if 'components_string' in fields_in_place(pl, 'Path'):
                        base = {'k': 'copy', 'pl': {'l': pl['l']}}
                        if g.parent or pl['l'] <= g.body['argc'] or any(a.startswith('arg:') for a in tr.prov(g, base)):
                            where = where or g.loc(bb, si)
        if where:
            n_readers += 1
            chk.decide(RA, chk.key(RA, 'cache-reader', fn.short), fn.short in CACHE_READERS,
                       CACHE_READERS.get(fn.short, ''),
                       '%s reads the lazily filled text cache Path::components_string: whether the cache has been filled '
                       'depends on the history of the value (printing, saving, hashing), so two paths denoting the same '
                       'position can be told apart (a derived PartialEq compares it: a path no longer equals the path '
                       'parsed back from its own text)' % fn.short, where)
    chk.floor(RA, 'readers of the path text cache', n_readers, 1)

    # ---------------- (b)
    parser = prog.fn('Path::new_with_components_string')
    if chk.anchor(RB, 'Path::new_with_components_string', parser) and chk.anchor(RB, 'Path::get_components_string', gcs):
        # separator
        psep = chars_used(prog, parser, ('split', 'split_terminator', 'rsplit'))
        rsep = chars_used(prog, gcs, ('push', 'push_str', 'join'), tr)
        chk.decide(RB, chk.key(RB, 'separator'), bool(psep) and psep == rsep,
                   'parser splits on %s, renderer joins with %s' % (sorted(psep), sorted(rsep)),
                   'path separator differs: parser splits on %s, renderer joins with %s' % (sorted(psep), sorted(rsep)),
                   parser.loc(0))
        # leading dot
        pdot = chars_used(prog, parser, ('strip_prefix', 'starts_with'))
        rdot = {'.'} if dot_emissions(prog, gcs, tr) else set()
        chk.decide(RB, chk.key(RB, 'relative-marker'), pdot == {'.'} and rdot == {'.'},
                   'both sides use "." as the relative marker',
                   'relative marker differs: parser tests %s, renderer emits %s' % (sorted(pdot), sorted(rdot)),
                   parser.loc(0))
        # renderer emits it only under is_relative; parser sets is_relative = true only when it was stripped
        for c in prog.closures_of(gcs):
            def atom(desc):
                return 'rel' if desc == ('field', 'Path::is_relative') else None
            gf = GuardFlow(prog, c, atom, tracer=tr)
            gf.run()
            for c2, bb in dot_emissions(prog, gcs, tr):
                if c2 is not c:
                    continue
                if True:
                    vs = gf.valuations_at(bb, ['rel'])
                    chk.decide(RB, chk.key(RB, 'dot-emitted-iff-relative'),
                               bool(vs) and all(v['rel'] is True for v in vs),
                               'the leading "." is emitted only when is_relative',
                               'the renderer emits the leading "." under %s' % vs, c.loc(bb))
        # the local(s) that end up in the is_relative field of the Path the parser builds (found through the aggregate,
        # not by name)
        from analysis.defuse import du as _du
        rel_locals, direct_cond, tuple_consts = set(), [], []
        for bb, si, s in parser.stmts():
            if s['k'] == 'assign' and s['rv']['k'] == 'agg' and s['rv'].get('ak') == 'adt' \
                    and tyname(s['rv']['adt']) == 'Path' and 'is_relative' in s['rv']['fields']:
                o = s['rv']['ops'][s['rv']['fields'].index('is_relative')]
                if o['k'] in ('copy', 'move') and 'p' not in o['pl']:
                    work = [o['pl']['l']]
                    while work:
                        l_ = work.pop()
                        if l_ in rel_locals:
                            continue
                        rel_locals.add(l_)
                        for df in _du(parser).defs.get(l_, []):
                            if df['kind'] == 'assign' and df['rv']['k'] == 'use' and df['rv']['op']['k'] in ('copy', 'move') \
                                    and 'p' not in df['rv']['op']['pl']:
                                work.append(df['rv']['op']['pl']['l'])
                            # `let (is_relative, rest) = match .. { Some(r) => (true, r), None => (false, text) }`
                            elif df['kind'] == 'assign' and df['rv']['k'] == 'use' and df['rv']['op']['k'] in ('copy', 'move') \
                                    and len(df['rv']['op']['pl'].get('p', [])) == 1 \
                                    and df['rv']['op']['pl']['p'][0]['k'] == 'field' and 'adt' not in df['rv']['op']['pl']['p'][0]:
                                tup, idx = df['rv']['op']['pl']['l'], df['rv']['op']['pl']['p'][0]['i']
                                for d2 in _du(parser).defs.get(tup, []):
                                    if d2['kind'] == 'assign' and d2['rv']['k'] == 'agg' and d2['rv'].get('ak') == 'tuple' \
                                            and idx < len(d2['rv']['ops']):
                                        o2 = d2['rv']['ops'][idx]
                                        if o2.get('k') == 'const' and 'bool' in o2:
                                            tuple_consts.append((d2['bb'], o2['bool']))
                                        elif o2.get('k') in ('copy', 'move') and 'p' not in o2['pl']:
                                            work.append(o2['pl']['l'])
                    direct_cond.append(o)
        tr_assign = list(tuple_consts)
        for bb, si, s in parser.stmts():
            if s['k'] == 'assign' and 'p' not in s['pl'] and s['pl']['l'] in rel_locals and s['rv']['k'] == 'use' \
                    and 'bool' in s['rv']['op']:
                tr_assign.append((bb, s['rv']['op']['bool']))
        def atom2(desc):
            if desc[0] == 'is_some' and any('strip_prefix' in a for a in desc[1]):
                return 'dot'
            if desc[0] == 'call' and desc[1].rsplit('::', 1)[-1] == 'starts_with':
                return 'dot'
            return None
        gp = GuardFlow(prog, parser, atom2, tracer=tr)
        gp.run()
        okrel = bool(tr_assign)
        for bb, val in tr_assign:
            vs = gp.valuations_at(bb, ['dot'])
            if not vs or any(v['dot'] is not val for v in vs):
                okrel = False
        if not tr_assign and direct_cond:
            # `is_relative: text.starts_with('.')` / a local holding that test
            okrel = True
            for o in direct_cond:
                c_ = resolve_cond(prog, parser, o, tr)
                if c_ is None or atom2(c_.desc) != 'dot' or not c_.positive:
                    okrel = False
        chk.decide(RB, chk.key(RB, 'parser-sets-relative-iff-dot'), okrel,
                   'is_relative is set true exactly on the stripped-prefix path',
                   'the parser does not set is_relative exactly when the leading "." was present (%s)' % tr_assign,
                   parser.loc(0))
        # index components
        # the function that turns one piece of text into a component: the parser itself, one of its closures, or a
        # function it hands to an iterator adaptor as a function item (`.map(Path::parse_component)`)
        import re as _re
        cands = list(prog.with_closures(parser))
        for g_ in list(cands):
            for _, t in g_.calls():
                for ta in t['f'].get('targs') or []:
                    for m_ in _re.findall(r'\{([A-Za-z0-9_:<> ]+)\}', ta):
                        if m_ in prog.fns and prog.fns[m_].crate == 'bladeink':
                            cands.append(prog.fns[m_])
        pc = next((g_ for g_ in cands if any(callee_short(t) == 'Component::new_i' for _, t in g_.calls())), parser)
        parser_whole = parser
        parser = pc
        newi = [bb for bb, t in parser.calls() if callee_short(t) == 'Component::new_i']
        newn = [bb for bb, t in parser.calls() if callee_short(t) == 'Component::new']
        parses = [bb for bb, t in parser.calls() if callee_short(t).endswith('::parse') and 'usize' in ' '.join(t['f'].get('targs', []))]
        def atom3(desc):
            if desc[0] == 'is_ok' and any('parse' in a for a in desc[1]):
                return 'num'
            return None
        g3 = GuardFlow(prog, parser, atom3, tracer=tr)
        g3.run()
        ok3 = bool(newi) and bool(newn) and bool(parses) and \
            all(v['num'] is True for b in newi for v in g3.valuations_at(b, ['num'])) and \
            all(v['num'] is False for b in newn for v in g3.valuations_at(b, ['num']))
        chk.decide(RB, chk.key(RB, 'index-iff-number'), ok3,
                   'an index component is built iff parse::<usize> succeeds',
                   'the parser does not build index components exactly for numeric text', parser.loc(0))
        parser = parser_whole
    cd = prog.fn('<Component as Display>::fmt')
    if chk.anchor(RB, '<Component as Display>::fmt', cd):
        def atom4(desc):
            if desc[0] == 'is_some' and 'field:Component::index' in desc[1]:
                return 'idx'
            return None
        g4 = GuardFlow(prog, cd, atom4, tracer=tr)
        g4.run()
        reads_name = [bb for bb, si, s in cd.stmts() if s['k'] == 'assign' and 'pl' in s['rv']
                      and any(pe.get('n') == 'name' for pe in s['rv']['pl'].get('p', []) if pe['k'] == 'field')]
        okd = bool(reads_name) and all(v['idx'] is False for b in reads_name for v in g4.valuations_at(b, ['idx']))
        chk.decide(RB, chk.key(RB, 'component-prints-index-iff-present'), okd,
                   'the name is printed only when there is no index',
                   'Component::fmt prints the name although an index is present (or never prints it)', cd.loc(0))
    tp = prog.fn('Component::to_parent')
    ip = prog.fn('Component::is_parent')
    if chk.anchor(RB, 'Component::to_parent', tp) and chk.anchor(RB, 'Component::is_parent', ip):
        def consts(fn):
            out = set()
            for bb, t in fn.calls():
                for a in t['args']:
                    if a['k'] == 'const' and 'item' in a:
                        out.add(a['item'].rsplit('::', 1)[-1])
                    out |= const_strings_of_operand(fn, a, tr)
            for bb, si, s in fn.stmts():
                if s['k'] == 'assign':
                    for k in ('op',):
                        o = s['rv'].get(k)
                        if isinstance(o, dict) and o.get('k') == 'const' and 'item' in o:
                            out.add(o['item'].rsplit('::', 1)[-1])
                        if isinstance(o, dict) and o.get('k') == 'const' and 'str' in o:
                            out.add(o['str'])
            return out
        a, b = consts(tp), consts(ip)
        chk.decide(RB, chk.key(RB, 'parent-token'), bool(a & b), 'to_parent and is_parent use the same token %s' % sorted(a & b),
                   'the parent token differs between to_parent (%s) and is_parent (%s)' % (sorted(a), sorted(b)), tp.loc(0))

    # ---------------- (c)
    gp_ = prog.fn('Object::get_path')
    if chk.anchor(RC, 'Object::get_path', gp_):
        fns = prog.with_closures(gp_)
        for f in fns:
            def atom5(desc):
                if desc[0] == 'call' and desc[1] == 'Container::has_valid_name':
                    return 'named'
                return None
            g5 = GuardFlow(prog, f, atom5, tracer=tr)
            g5.run()
            names = [bb for bb, t in f.calls() if callee_short(t) == 'Component::new']
            idxs = [bb for bb, t in f.calls() if callee_short(t) == 'Component::new_i']
            if not names and not idxs:
                continue
            okn = bool(names) and all(v['named'] is True for b in names for v in g5.valuations_at(b, ['named']))
            chk.decide(RC, chk.key(RC, 'get_path', 'name-iff-valid-name'), okn,
                       'a name component is produced only under has_valid_name()',
                       'Object::get_path produces a name component without has_valid_name() holding', f.loc(names[0]) if names else f.loc(0))
            chk.decide(RC, chk.key(RC, 'get_path', 'index-otherwise'), bool(idxs),
                       'an index component is produced otherwise', 'Object::get_path no longer produces index components',
                       f.loc(0))
    cn = prog.fn('Container::new')
    if chk.anchor(RC, 'Container::new', cn):
        okc = False
        for f in prog.with_closures(cn):
            def atom6(desc):
                if desc[0] == 'call' and desc[1] == 'Container::has_valid_name':
                    return 'named'
                return None
            g6 = GuardFlow(prog, f, atom6, tracer=tr)
            g6.run()
            ins = [bb for bb, t in f.calls() if callee_short(t) == 'HashMap::insert']
            for b in ins:
                vs = g6.valuations_at(b, ['named'])
                if vs and all(v['named'] is True for v in vs):
                    okc = True
        chk.decide(RC, chk.key(RC, 'Container::new', 'registers-valid-names'), okc,
                   'children are registered in named_content under has_valid_name()',
                   'Container::new no longer registers exactly the validly named children in named_content', cn.loc(0))
    cw = prog.fn('Container::content_with_path_component')
    if chk.anchor(RC, 'Container::content_with_path_component', cw):
        look = any(callee_short(t) == 'HashMap::get' and 'field:Container::named_content' in tr.prov(cw, t['args'][0])
                   for bb, t in cw.calls())
        chk.decide(RC, chk.key(RC, 'content_with_path_component', 'looks-up-named_content'), look,
                   'name components are resolved through named_content',
                   'content_with_path_component no longer resolves names through named_content', cw.loc(0))

    # ---------------- (d) a saved position is read back, not judged
    RE = 'C19.zero-components-is-not-the-whole-path'
    chk.rule(RE, 'Container::content_at_path takes a length of the path to use; Story::pointer_at_path passes len - 1 for a '
             'path that ends in an index, which is 0 for a position directly in the root ("0", "1"). The test that turns '
             'the "whole path" sentinel into path.len() must therefore be false for 0: otherwise "k" of the root resolves '
             'to the k-th child itself instead of (root, k), and every saved position in the root reads back as another one.')
    cap = prog.fn('Container::content_at_path')
    if chk.anchor(RE, 'Container::content_at_path', cap):
        from analysis.guards import resolve_cond as _rc
        found = []
        for bb, t in cap.terms():
            if t['k'] != 'switch':
                continue
            c_ = _rc(prog, cap, t['d'], tr)
            if c_ is None or c_.desc[0] != 'cmp' or 'arg:4' not in c_.desc[2] or not isinstance(c_.desc[3], int):
                continue
            # does the side that is taken for the value 0 assign path.len() to the length?
            op_, k_ = c_.desc[1], c_.desc[3]
            rel = op_[1:] if op_.startswith('r') else op_
            a_, b_ = (k_, 0) if op_.startswith('r') else (0, k_)
            truth0 = {'Eq': a_ == b_, 'Ne': a_ != b_, 'Lt': a_ < b_, 'Le': a_ <= b_, 'Gt': a_ > b_, 'Ge': a_ >= b_}[rel]
            if not c_.positive:
                truth0 = not truth0
            tgt = [tb for v, tb in t['ts'] if c_.truth_of_value(v) == truth0]
            if len(t['ts']) == 1 and c_.truth_of_value(1 - t['ts'][0][0]) == truth0:
                tgt.append(t['else'])
            g_ = cfg(cap)
            assigns = [b2 for b2, t2 in cap.calls() if callee_short(t2) == 'Path::len']
            # the assignment `partial_path_length = path.len()` sits in a block reached only from one side of the test
            other = [x for x in ([tb for _, tb in t['ts']] + [t['else']]) if x not in tgt]
            only_here = [a for a in assigns if a in g_.reachable(tgt, avoid=[bb]) and a not in g_.reachable(other, avoid=[bb])]
            found.append((bb, bool(only_here)))
        if chk.anchor(RE, 'test of the length parameter against a constant in content_at_path', found):
            bad = [bb for bb, taken in found if taken]
            chk.decide(RE, chk.key(RE, 'Container::content_at_path'), not bad,
                       'a length of 0 is kept as 0',
                       'content_at_path replaces a length of 0 by the whole length of the path: pointer_at_path("k") for a '
                       'position directly in the root resolves to the child itself, not to (root, k)',
                       cap.loc(bad[0]) if bad else cap.loc(0))

    RD = 'C19.saved-position-read-back-total'
    chk.rule(RD, 'In Thread::from_json, once the saved container path has been resolved (Container::content_at_path) the '
             'reconstruction of the frame\'s pointer cannot fail by a decision of the reader: the only error exits after '
             'the resolution are propagated JSON-shape errors (`?` on ok_or / typed accessors), never an error generated '
             'from the outcome of the resolution. Every container - the root included, which the writer saves as the '
             'empty path - is a position the writer can produce.')
    tfj = prog.fn('Thread::from_json')
    if chk.anchor(RD, 'Thread::from_json', tfj):
        from analysis.wbf import err_exits
        gt = cfg(tfj)
        res = [bb for bb, t in tfj.calls() if callee_short(t) == 'Container::content_at_path']
        if chk.anchor(RD, 'resolution of cPath in Thread::from_json', res):
            bad = []
            for g_ in prog.with_closures(tfj):
                if g_ is not tfj:
                    continue
                for bb, desc, src in err_exits(prog, g_):
                    if src is None and any(gt.dominates(rb, bb) for rb in res):
                        bad.append((bb, desc))
            chk.decide(RD, chk.key(RD, 'no-generated-error-after-resolution'), not bad,
                       'after the resolution only JSON-shape errors can be returned',
                       'Thread::from_json generates an error (%s) after it has resolved the saved container path: a position '
                       'the writer produced (for instance the root container, saved as the empty path before the first '
                       'continue or in a fresh flow) is refused when the save is read back'
                       % ', '.join(d for _, d in bad), tfj.loc(bad[0][0]) if bad else None)
    index_component_is_the_position_in_content(chk, prog, tr)


SELECTING_ADAPTORS = ('filter', 'filter_map', 'skip', 'skip_while', 'step_by', 'rev', 'chain', 'flat_map', 'flatten',
                      'take_while', 'map_while', 'scan', 'peekable', 'zip', 'dedup', 'retain')


def index_component_is_the_position_in_content(chk, prog, tr):
    """Seed C19-5: the index written into a path was the rank among the unnamed children (filter before enumerate)."""
    R = 'C19.index-component-is-the-position-in-content'
    chk.rule(R, 'A path addresses an unnamed child by a number that content_with_path_component uses as an index into the whole '
             'of Container::content. So the number Object::get_path writes is the child\'s position in that very vector: it '
             'comes from Iterator::position over Container::content, or - when it is remembered in a field - every value '
             'stored there comes from enumerate() applied to the iteration of Container::content with no selecting adaptor '
             '(filter, skip, rev, chain, ...) between the vector and the enumerate. A rank among some of the children agrees '
             'with the position only until a named container precedes the child.')
    from analysis.defuse import full_lineage
    gp = prog.fn('Object::get_path')
    if not chk.anchor(R, 'Object::get_path', gp):
        return
    sites = [(g, bb, t) for g in prog.with_closures(gp) for bb, t in g.calls() if callee_short(t) == 'Component::new_i']
    if not chk.anchor(R, 'Component::new_i in Object::get_path', sites):
        return
    chk.floor(R, 'index components built by Object::get_path', len(sites), 1)

    def lineage_ok(at):
        names = {x[4:].rsplit('::', 1)[-1] for x in at if x.startswith('via:')} | \
                {x[5:].rsplit('::', 1)[-1] for x in at if x.startswith('call:')}
        sel = sorted(n for n in names if n in SELECTING_ADAPTORS)
        return ('field:Container::content' in at and ('enumerate' in names or 'position' in names) and not sel), sel

    for i, (g, bb, t) in enumerate(sites):
        at = set(tr.prov(g, t['args'][0]))
        key = chk.key(R, 'get_path', 'index#%d' % i)
        pos = [x for x in at if x.startswith('call:') and x.endswith('::position')]
        if pos:
            # the receiver of the position call
            ok, why = False, 'the receiver of position() is not Container::content'
            for g2 in prog.with_closures(gp):
                for bb2, t2 in g2.calls():
                    if callee_short(t2).endswith('::position') and t2['args']:
                        la = set(full_lineage(prog, g2, t2['args'][0]))
                        names = {x[4:].rsplit('::', 1)[-1] for x in la if x.startswith('via:')}
                        sel = sorted(n for n in names if n in SELECTING_ADAPTORS)
                        if 'field:Container::content' in la and not sel:
                            ok = True
                        elif sel:
                            why = 'position() runs over Container::content behind %s' % sel
            chk.decide(R, key, ok, 'position() over Container::content',
                       'the index Object::get_path writes into a path is not the position in the parent\'s content: ' + why,
                       g.loc(bb))
            continue
        flds = sorted(x[6:] for x in at if x.startswith('field:') and x != 'field:Container::content')
        if not flds:
            chk.fail(R, key, 'cannot tell where the index Object::get_path writes into a path comes from (%s): it must be the '
                     'position of the child in Container::content' % sorted(at)[:6], g.loc(bb))
            continue
        # remembered in a field: every value stored there is enumerate() over the whole content
        problems, nstores = [], 0
        for fld in flds:
            for w in sorted(prog.fns.values(), key=lambda f: f.p):
                if w.crate != 'bladeink':
                    continue
                stores = []
                for wb, wt in w.calls():
                    if callee_short(wt) in ('Cell::set', 'Cell::replace', 'RefCell::replace', 'OnceCell::set') and len(wt['args']) >= 2 \
                            and 'field:' + fld in tr.prov(w, wt['args'][0]):
                        stores.append((wb, wt['args'][1]))
                for wb, si, st in w.stmts():
                    if st['k'] == 'assign' and st['pl'].get('p') and st['pl']['p'][-1].get('k') == 'field' \
                            and '%s::%s' % (tyname_(st['pl']['p'][-1].get('adt', '')), st['pl']['p'][-1].get('n')) == fld \
                            and st['rv']['k'] == 'use':
                        stores.append((wb, st['rv']['op']))
                for wb, vop in stores:
                    vat = set(tr.prov(w, vop))
                    if vat and all(x.startswith(('const:', 'agg:')) for x in vat):
                        continue          # the initial None
                    nstores += 1
                    params = sorted(int(x.split(':')[1]) for x in vat if x.startswith('arg:'))
                    if not params:
                        ok, sel = lineage_ok(set(full_lineage(prog, w, vop)))
                        if not ok:
                            problems.append((w, wb, sel))
                        continue
                    # handed in by the callers
                    ncall = 0
                    for c in prog.fns.values():
                        for cb, ct in c.calls():
                            if callee(ct) == w.p:
                                for k in params:
                                    if k - 1 < len(ct['args']):
                                        ncall += 1
                                        ok, sel = lineage_ok(set(full_lineage(prog, c, ct['args'][k - 1])))
                                        if not ok:
                                            problems.append((c, cb, sel))
                    if not ncall:
                        problems.append((w, wb, ['no caller found']))
        if not nstores:
            chk.fail(R, key, 'the index Object::get_path writes into a path is read from %s, and no place that stores it was '
                     'found' % flds, g.loc(bb))
            continue
        c0 = problems[0] if problems else None
        chk.decide(R, key, not problems, 'remembered position: every store is enumerate() over the whole of Container::content',
                   'the index Object::get_path writes into a path is read from %s, and %s stores there a number that is not '
                   'the position in the whole of Container::content (%s between the vector and the numbering): a child that '
                   'follows a named container gets the path of an earlier sibling, and content_with_path_component resolves '
                   'it - not approximately - to that sibling'
                   % (flds, prog.root_fn(c0[0]).short if c0 else '', ', '.join(c0[2]) if c0 and c0[2] else 'no enumerate over content'),
                   c0[0].loc(c0[1]) if c0 else None)


def tyname_(t):
    from analysis.facts import tyname
    return tyname(t)
