"""C14 — both story loaders build the same story (sibling agreement of the two decoders + tokenizer escape table)."""
from analysis.facts import callee, callee_short, short
from analysis.defuse import Tracer
from analysis.cfg import cfg
from analysis.guards import resolve_cond
from analysis.tables import compared_strings, char_consts_compared, string_uses

SERDE_MOD = 'bladeink::json::json_read::'
STREAM_MOD = 'bladeink::json::json_read_stream::'
# keys recognised by one decoder only, with the reason (confirmed by reading)
ONE_SIDED = {
    'text': 'save-state choice record (jobject_to_choice): saves are always read through serde_json',
    'index': 'save-state choice record',
    'originalThreadIndex': 'save-state choice record',
    'targetPath': 'save-state choice record',
    'tags': 'save-state choice record',
    'isInvisibleDefault': 'save-state choice record',
}
ONE_SIDED_CTORS = {
    'Choice::new_from_json': 'choices occur only in save states, which are never read by the streaming loader '
                             '(it rejects an originalChoicePath object with BadJson)',
}
JSON_ESCAPES = ['"', '\\', '/', 'b', 'f', 'n', 'r', 't', 'u']      # RFC 8259 section 7


def module_fns(prog, mod):
    return [f for f in prog.fns.values() if f.p.startswith(mod) and '::tests::' not in f.p]


def vocab(prog, fns, tr):
    keys = {}
    for f in fns:
        if f.kind == 'closure':
            continue
        for s, uses in compared_strings(prog, f, tr).items():
            if s == '':
                continue    # `k == ""` and `k.is_empty()` are two spellings of one test: not a vocabulary item
            keys.setdefault(s, []).extend(uses)
    return keys


def ctor_set(prog, fns):
    out = {}
    for f in fns:
        for bb, t in f.calls():
            c = callee(t)
            g = prog.fns.get(c)
            cs = callee_short(t)
            if g is not None and not (c.startswith(SERDE_MOD) or c.startswith(STREAM_MOD)
                                      or '::json_tokenizer::' in c):
                name = cs
                if cs == 'Value::new':
                    name = 'Value::new::<%s>' % ','.join(x.rsplit('::', 1)[-1] for x in t['f'].get('targs', []))
                out.setdefault(name, f.loc(bb))
    return out


def run(chk, prog):
    tr = Tracer(prog)
    chk.not_decided += ['equality of the constructed trees for every document (values)',
                        'number forms (-0, exponents, integers beyond i32) and whitespace layouts',
                        'that the order in which keys are expected by the streaming loader matches every producer']
    RA = 'C14.same-vocabulary'
    chk.rule(RA, 'The set of string literals the serde decoder compares keys/tokens against equals the set of the '
             'streaming decoder, except for table-listed keys of the save-only choice record.')
    RB = 'C14.same-constructors'
    chk.rule(RB, 'Both decoders call the same set of runtime constructors (Value::new per payload type, Glue, '
             'ControlCommand::new_from_name, NativeFunctionCall::new_from_name, Void, Divert, ChoicePoint, '
             'VariableReference, VariableAssignment, Tag, InkList, InkListItem::from_full_name, Container, '
             'ListDefinition, ListDefinitionsOrigin), except table-listed save-only ones.')
    RC = 'C14.escape-table'
    chk.rule(RC, 'The characters JsonTokenizer::read_string distinguishes after a backslash include every JSON escape '
             '(RFC 8259 §7: " \\ / b f n r t u).')
    RD = 'C14.version-bounds'
    chk.rule(RD, 'Both load_from_string functions compare the version against INK_VERSION_CURRENT and '
             'INK_VERSION_MINIMUM_COMPATIBLE.')

    number_reader_refuses_only_non_numbers(chk, prog)
    RE_ = 'C14.same-depth-budget'
    chk.rule(RE_, 'The streaming loader refuses a document nested deeper than its own limit; the other loader has '
             'serde_json\'s limit of 128 levels, and the compiler promises stories up to that depth. Both count one per '
             'level of the document only if (a) the streaming limit is the constant 128 and (b) every elementary cycle of '
             'the streaming decoder\'s recursion adds exactly 1 to the depth it hands on (one trip = one array or one '
             'object of the document): a cycle that adds 2 makes the streaming loader refuse stories the other loader '
             'plays; a cycle that adds 0 is unbounded (C15).')
    sfn = {f.p: f for f in module_fns(prog, STREAM_MOD) if not f.parent}
    cedges = []      # (caller path, callee path, weight, loc)
    for p_, f_ in sfn.items():
        for g_ in prog.with_closures(f_):
            for bb, t in g_.calls():
                c_ = callee(t)
                if c_ in sfn:
                    w_ = 0
                    for a in t['args']:
                        at = tr.prov(g_, a)
                        if any(x.startswith('op:Add') for x in at) and any(x.startswith('arg:') for x in at) \
                                and g_.local_ty(a['pl']['l']) == 'usize' if a.get('k') in ('copy', 'move') else False:
                            consts = [x for x in at if x.startswith('const:')]
                            w_ = sum(int(x[6:]) for x in consts if x[6:].isdigit()) or 1
                    cedges.append((p_, c_, w_, g_.loc(bb)))
    cycles = []

    def _dfs(start, node, path, weight, used):
        for i, (a, b, w_, loc) in enumerate(cedges):
            if a != node or i in used:
                continue
            if b == start:
                cycles.append((path + [(a, b, w_, loc)], weight + w_))
            elif b not in [x[0] for x in path] + [x[1] for x in path] and b != node and b > start and len(path) < 6:
                _dfs(start, b, path + [(a, b, w_, loc)], weight + w_, used | {i})
    for st_ in sorted(sfn):
        _dfs(st_, st_, [], 0, frozenset())
    if chk.anchor(RE_, 'recursion cycles of the streaming decoder', cycles):
        chk.floor(RE_, 'elementary recursion cycles of the streaming decoder', len(cycles), 2)
        for i, (path, w_) in enumerate(cycles):
            name = ' -> '.join(short(a) for a, _, _, _ in path)
            chk.decide(RE_, chk.key(RE_, 'cycle', name[:120], '#%d' % i), w_ == 1,
                       'adds exactly 1 to the depth per trip',
                       'one trip around %s adds %d to the depth: %s' % (
                           name, w_, 'the streaming loader counts a level of the document more than once and refuses '
                           'stories the default loader (and the compiler\'s own depth check) accept' if w_ > 1 else
                           'the recursion is not bounded by the depth limit'), path[-1][3])
    lim = []
    for f_ in sfn.values():
        for bb, t in f_.terms():
            if t['k'] == 'switch':
                c_ = resolve_cond(prog, f_, t['d'], tr)
                if c_ is not None and c_.desc[0] == 'cmp' and c_.desc[1].lstrip('r') in ('Gt', 'Ge', 'Lt', 'Le') \
                        and isinstance(c_.desc[3], int) and any(a.startswith('arg:') for a in c_.desc[2]) \
                        and c_.desc[3] >= 16:
                    lim.append((c_.desc[1], c_.desc[3], f_.loc(bb)))
    if chk.anchor(RE_, 'depth limit test of the streaming decoder', lim):
        op_, k_, loc_ = lim[0]
        accepted = k_ if op_.lstrip('r') in ('Gt', 'Le') else k_ - 1
        chk.decide(RE_, chk.key(RE_, 'limit'), accepted == 128, 'depth up to 128 accepted, as by serde_json',
                   'the streaming loader accepts nesting up to %d, serde_json (the other loader) up to 128' % accepted, loc_)

    serde = module_fns(prog, SERDE_MOD)
    stream = module_fns(prog, STREAM_MOD)
    if not (chk.anchor(RA, 'functions of json_read', serde) and chk.anchor(RA, 'functions of json_read_stream', stream)):
        return
    va, vb = vocab(prog, serde, tr), vocab(prog, stream, tr)
    chk.floor(RA, 'keys/tokens compared by the serde decoder', len(va), 25)
    chk.floor(RA, 'keys/tokens compared by the streaming decoder', len(vb), 25)
    for k in sorted(set(va) | set(vb)):
        key = chk.key(RA, repr(k))
        if k in va and k in vb:
            chk.ok(RA, key, 'recognised by both decoders', va[k][0][1])
        elif k in ONE_SIDED:
            chk.ok(RA, key, 'one-sided by design: ' + ONE_SIDED[k], (va.get(k) or vb.get(k))[0][1])
        else:
            side = 'serde' if k in va else 'streaming'
            chk.fail(RA, key, 'key/token %r is recognised only by the %s decoder: documents using it load differently '
                     '(or not at all) under the other feature configuration' % (k, side),
                     (va.get(k) or vb.get(k))[0][1])

    ca, cb = ctor_set(prog, serde), ctor_set(prog, stream)
    chk.floor(RB, 'runtime constructors called by the serde decoder', len(ca), 15)
    for c in sorted(set(ca) | set(cb)):
        key = chk.key(RB, c)
        if c in ca and c in cb:
            chk.ok(RB, key, 'called by both decoders', ca[c])
        elif c in ONE_SIDED_CTORS:
            chk.ok(RB, key, 'one-sided by design: ' + ONE_SIDED_CTORS[c], ca.get(c) or cb.get(c))
        else:
            side = 'serde' if c in ca else 'streaming'
            chk.fail(RB, key, 'runtime constructor %s is called only by the %s decoder: the other loader cannot '
                     'build this kind of object' % (c, side), ca.get(c) or cb.get(c))

    rs = prog.fn('JsonTokenizer::read_string')
    if chk.anchor(RC, 'JsonTokenizer::read_string', rs):
        have = char_consts_compared(rs)
        for fn in prog.closures_of(rs):
            have |= char_consts_compared(fn)
        for e in JSON_ESCAPES:
            chk.decide(RC, chk.key(RC, 'escape', repr(e)), e in have, 'escape character is distinguished',
                       'JsonTokenizer::read_string has no case for the JSON escape \\%s: such text is dropped or '
                       'mis-decoded by the streaming loader' % e, rs.loc(0))

    RE = 'C14.surrogates-combined-in-32-bits'
    chk.rule(RE, 'Where the tokenizer decodes \\uXXXX escapes, no shift is performed on an operand narrower than 32 bits: '
             'combining a UTF-16 surrogate pair needs (high - 0xD800) << 10, which does not fit 16 bits (characters of '
             'plane 2 and above would silently decode to another character, while serde_json decodes them correctly).')
    tok_fns = [f for f in prog.fns.values() if '::json_tokenizer::' in f.p and '::tests::' not in f.p]
    if chk.anchor(RE, 'functions of json_tokenizer', tok_fns):
        narrow = []
        for f in tok_fns:
            for bb, si, st in f.stmts():
                if st['k'] == 'assign' and st['rv']['k'] == 'binop' and st['rv']['op'].startswith('Shl') \
                        and st['rv'].get('aty') in ('u8', 'u16', 'i8', 'i16'):
                    narrow.append((f, bb, si, st['rv']['aty']))
        chk.decide(RE, chk.key(RE, 'no-narrow-shift'), not narrow,
                   'no shift on 8/16-bit operands in the tokenizer (escape decoding is delegated to char::decode_utf16)',
                   'the tokenizer shifts a %s value left: a surrogate half shifted in %s arithmetic loses its high bits'
                   % ((narrow[0][3], narrow[0][3]) if narrow else ('', '')),
                   narrow[0][0].loc(narrow[0][1], narrow[0][2]) if narrow else None)

    bounds = {}
    for name in ('json_read::load_from_string', 'json_read_stream::parse'):
        f = prog.fn(name)
        if not chk.anchor(RD, name, f):
            return
        cmp_ = set()
        for bb, si, s in f.stmts():
            if s['k'] == 'assign' and s['rv']['k'] == 'binop' and s['rv']['op'] in ('Gt', 'Lt', 'Ge', 'Le'):
                for side in ('a', 'b'):
                    o = s['rv'][side]
                    if o['k'] == 'const' and 'int' in o and o.get('ty') == 'i32':
                        cmp_.add((s['rv']['op'] if side == 'b' else 'r' + s['rv']['op'], o['int']))
        bounds[name] = cmp_
    a_, b_ = bounds['json_read::load_from_string'], bounds['json_read_stream::parse']
    chk.decide(RD, chk.key(RD, 'both-loaders'), a_ == b_ and len(a_) >= 2 and
               any(op in ('Gt', 'Ge') for op, _ in a_) and any(op in ('Lt', 'Le') for op, _ in a_),
               'both loaders apply the same version bounds %s' % sorted(a_),
               'the two loaders do not apply the same upper and lower version bounds: serde %s, streaming %s'
               % (sorted(a_), sorted(b_)), prog.fn('json_read_stream::parse').loc(0))
    one_string_decoder(chk, prog)
    objects_are_fresh(chk, prog)
    identifier_keys_test_the_value_kind(chk, prog, tr)
    string_reader_refuses_only_raw_controls(chk, prog, tr)


def _quote_consts(fn):
    """MIR constants denoting the JSON quote character in fn: char '"' or a u8 34."""
    hits = []

    def visit(o, where):
        if isinstance(o, dict):
            if o.get('k') == 'const' and (o.get('char') == '"' or (o.get('ty') == 'u8' and o.get('int') == 34)):
                hits.append(where)
            for v in o.values():
                visit(v, where)
        elif isinstance(o, list):
            for v in o:
                visit(v, where)
    for bb, b in enumerate(fn.blocks):
        visit(b.get('st'), bb)
        visit(b.get('term'), bb)
    return hits


def one_string_decoder(chk, prog):
    RS = 'C14.one-string-decoder'
    chk.rule(RS, 'In the streaming tokenizer the quote character is recognised in read_string only (and where a value is '
             'dispatched on its first character): object keys, string values and every other quoted text go through the '
             'one routine that applies the escape table. A second routine that finds the closing quote itself returns the '
             'text without unescaping it, while serde_json unescapes keys and values alike.')
    ALLOWED = {'JsonTokenizer::read_string': 'the decoder', 'JsonTokenizer::read_value': 'dispatch on the first character',
               'JsonTokenizer::peek': 'look-ahead only'}
    n = 0
    for fn in sorted(prog.fns.values(), key=lambda f: f.p):
        if fn.crate != 'bladeink' or '::json::json_tokenizer::' not in fn.p and '::json::json_read_stream::' not in fn.p:
            continue
        hits = _quote_consts(fn)
        if not hits:
            continue
        root = prog.root_fn(fn).short
        n += 1
        chk.decide(RS, chk.key(RS, root), root in ALLOWED, ALLOWED.get(root, ''),
                   '%s recognises the quote character itself: quoted text it returns bypasses read_string and its escape '
                   'table (an escaped key such as "f\\u00e2ch\\u00e9e" is taken literally by the streaming loader and '
                   'decoded by serde_json)' % root, fn.loc(hits[0]))
    chk.floor(RS, 'functions recognising the quote character', n, 1)
    rk = prog.fn('JsonTokenizer::read_obj_key')
    if chk.anchor(RS, 'JsonTokenizer::read_obj_key', rk):
        chk.decide(RS, chk.key(RS, 'read_obj_key', 'uses-decoder'),
                   any(callee_short(t) == 'JsonTokenizer::read_string' for _, t in rk.calls()),
                   'keys are read by read_string', 'read_obj_key does not call read_string', rk.loc(0))


def objects_are_fresh(chk, prog):
    RF = 'C14.decoded-objects-are-fresh'
    chk.rule(RF, 'Every runtime object a decoder hands out is a fresh allocation: no decoder function takes an object from '
             'a thread-local, a static / lazily initialised cell or another cache. A runtime object knows its parent '
             'container, so an instance shared between positions (one "\\n" value for every line) is adopted by whichever '
             'container was built last; the serde loader allocates per occurrence, and the two content trees differ.')
    SHARED = ('LocalKey::with', 'LocalKey::try_with', 'OnceLock::get_or_init', 'LazyLock::force', 'OnceCell::get_or_init',
              'Lazy::force', 'OnceLock::get', 'LazyCell::force')
    n_fns, bad = 0, []
    for fn in sorted(prog.fns.values(), key=lambda f: f.p):
        if fn.crate != 'bladeink' or ('::json::json_read::' not in fn.p and '::json::json_read_stream::' not in fn.p):
            continue
        if '::tests::' in fn.p:
            continue
        n_fns += 1
        for bb, t in fn.calls():
            cs = callee_short(t)
            d = t['f'].get('def') or ''
            if cs in SHARED or 'thread::local::LocalKey' in d or d.startswith('std::sync::once_lock') \
                    or d.startswith('std::sync::lazy_lock'):
                bad.append((fn, bb, cs))
    chk.floor(RF, 'decoder functions examined', n_fns, 40)
    if not bad:
        chk.ok(RF, chk.key(RF, 'no-shared-instances'), 'no decoder function reads a thread-local / static cell')
    for fn, bb, cs in bad:
        chk.fail(RF, chk.key(RF, prog.root_fn(fn).short, cs),
                 '%s takes a value from a shared cell (%s): a runtime object handed out from it is one instance for many '
                 'positions of the content tree' % (prog.root_fn(fn).short, cs), fn.loc(bb))


SECONDARY_KEYS = {'var': 'divert: read after the first key made it a divert', 'c': 'divert flag, as above',
                  'exArgs': 'external divert, as above', 'ci': 'variable pointer context index', 'flg': 'choice point flags',
                  're': 're-assignment flag of an assignment', 'origins': 'second key of a list value'}


def identifier_keys_test_the_value_kind(chk, prog, tr):
    RK = 'C14.identifier-keys-test-the-value-kind'
    chk.rule(RK, 'The streaming decoder recognises an object by its first key. The terminating object of a container maps '
             'the names of named children - any ink identifier - to arrays, so wherever the decoder compares a key with a '
             'literal that is itself a possible identifier ("list", "originalChoicePath") the branch is taken only together '
             'with a test of the kind of the value (a named child is an array); keys that are only read after the object '
             'has been recognised are listed with their reason. The serde decoder handles the terminating object apart '
             'and plays a story with a knot called "list".')
    import re as _re
    from analysis.defuse import du as _du
    from analysis.tables import const_strings_of_operand as _cs
    f = prog.fn('json_read_stream::jtoken_to_runtime_object')
    if not chk.anchor(RK, 'json_read_stream::jtoken_to_runtime_object', f):
        return
    g = cfg(f)
    n = 0
    for b in range(len(f.blocks)):
        tt = f.blocks[b]['term']
        if not tt or tt['k'] != 'switch':
            continue
        c = resolve_cond(prog, f, tt['d'], tr)
        if not c or c.desc[0] != 'call' or not c.desc[1].endswith('::eq') \
                or 'call:JsonTokenizer::read_obj_key' not in c.desc[2]:
            continue
        df = _du(f).single_def(tt['d']['pl']['l'])
        ks = set()
        if df and df['kind'] == 'call':
            for a in df['term']['args']:
                ks |= set(_cs(f, a, tr))
        for k in sorted(ks):
            if not _re.match(r'^[A-Za-z_][A-Za-z0-9_]*$', k):
                continue
            n += 1
            if k in SECONDARY_KEYS:
                chk.ok(RK, chk.key(RK, k), 'secondary key: ' + SECONDARY_KEYS[k], f.loc(b))
                continue
            # the edge taken when the key matches leads straight to a test of the value's kind
            tgt = [tb for v, tb in tt['ts'] if c.truth_of_value(v)]
            rest = {0, 1} - {v for v, _ in tt['ts']}
            if len(rest) == 1 and c.truth_of_value(next(iter(rest))):
                tgt.append(tt['else'])
            ok = False
            for t0 in tgt:
                cur, hops = t0, 0
                while hops < 4:
                    t2 = f.blocks[cur]['term']
                    if t2 and t2['k'] == 'switch':
                        c2 = resolve_cond(prog, f, t2['d'], tr)
                        if c2 and c2.desc[0] == 'discr' and 'JsonValue' in str(c2.desc[1]) \
                                and 'call:JsonTokenizer::read_value' in c2.desc[2]:
                            ok = True
                        break
                    if t2 and t2['k'] == 'goto':
                        cur = t2['t']
                        hops += 1
                        continue
                    break
            chk.decide(RK, chk.key(RK, k), ok, 'taken only for the right kind of value',
                       'the streaming decoder takes an object whose first key is "%s" for a %s value without looking at the '
                       'kind of the value: a container with a named child called "%s" (a knot of that name) fails to load, '
                       'while the serde decoder plays the story' % (k, k, k), f.loc(b))
    chk.floor(RK, 'identifier-like keys compared by the streaming decoder', n, 6)


def number_reader_refuses_only_non_numbers(chk, prog):
    from analysis.wbf import err_exits
    RN = 'C14.number-reader-falls-through-to-the-float-parse'
    chk.rule(RN, 'JsonTokenizer::read_number (streaming loader) produces an error of its own only after the text has been '
             'handed to str::parse::<f32> and refused there: the float grammar contains every JSON number form (exponents '
             'without a fraction such as 1e-6 or 1e+17, which the compiler and serde_json write for small and large '
             'floats), so a refusal decided earlier - on the shape of the text, or because the i32 parse failed - refuses '
             'documents the default loader (serde_json) reads.')
    f = prog.fn('JsonTokenizer::read_number')
    if not chk.anchor(RN, 'JsonTokenizer::read_number', f):
        return
    # the units of read_number: the function and its closures (`.parse::<i32>().map(..).or_else(|_| ..parse::<f32>()..)`
    # puts the float parse into a closure handed to Result::or_else)
    units = [u for u in prog.with_closures(f)]

    def _parses(u, tys):
        return [bb for bb, t in u.calls() if callee_short(t) == 'str::parse' and any(x in t.get('dty', '') for x in tys)]
    FL = {u.p: _parses(u, ('f32', 'f64')) for u in units}
    IL = {u.p: _parses(u, ('i32',)) for u in units}
    if not chk.anchor(RN, 'str::parse::<f32> in read_number', [b for u in units for b in FL[u.p]]):
        return
    from analysis.defuse import du

    def _adaptor(t):
        """('Result'|'Option', method) when the call is a combinator of Result / Option, else None."""
        parts = callee_short(t).split('::')
        return (parts[0], parts[-1]) if len(parts) >= 2 and parts[0] in ('Result', 'Option') else None

    def _closures(t):
        return [prog.fns[c] for c in (t['f'].get('closures') or []) if c in prog.fns]

    def _producer(u, o):
        """The one call that defines the local an operand names: (bb, term) or None."""
        if o.get('k') not in ('copy', 'move') or 'p' in o['pl']:
            return None
        dfs = du(u).defs.get(o['pl']['l'], [])
        if len(dfs) == 1 and dfs[0]['kind'] == 'call':
            return dfs[0]['bb'], dfs[0]['term']
        return None

    def _returned(c, depth):
        """Origins of the refusals a closure's result can stand for."""
        out = set()
        for l in {0} | set(c.ret_locals):
            for d_ in du(c).defs.get(l, []):
                if d_['kind'] == 'call':
                    out |= _origins(c, d_['bb'], d_['term'], depth + 1)
                elif d_['kind'] == 'assign' and d_['rv']['k'] == 'agg' and d_['rv'].get('var') in ('Err', 'None'):
                    out.add(('own', c.p, d_['bb']))
                elif d_['kind'] == 'assign' and d_['rv']['k'] == 'agg' and d_['rv'].get('var') in ('Ok', 'Some'):
                    pass
                else:
                    out.add(('other', c.p, d_['bb']))
        return out

    def _origins(u, bb, t, depth=0):
        """Which computation refused when the Result / Option this call produces is an Err / None:
        {('float'|'int'|'own'|'other', unit path, block)}.  The combinators are read by what they do to the failure side:
        map / map_err / inspect / ok / `?` keep the receiver's failure; or_else / or replace it by the failure of the
        alternative (which is tried exactly when the receiver failed); and_then adds the failure of the continuation."""
        if depth > 8:
            return {('other', u.p, bb)}
        cs = callee_short(t)
        if cs == 'str::parse':
            return {('float' if bb in FL[u.p] else 'int' if bb in IL[u.p] else 'other', u.p, bb)}
        ad = _adaptor(t)
        keep = cs.endswith('::branch') or cs.endswith('::from_residual') or (
            ad and ad[1] in ('map', 'map_err', 'inspect', 'inspect_err', 'ok', 'as_ref', 'as_mut', 'copied', 'cloned'))
        recv = _producer(u, t['args'][0]) if t['args'] else None

        def _of(p):
            return _origins(u, p[0], p[1], depth + 1) if p else {('other', u.p, bb)}
        if keep:
            return _of(recv)
        if ad and ad[1] == 'or_else':
            cl = _closures(t)
            return set().union(*[_returned(c, depth) for c in cl]) if cl else {('other', u.p, bb)}
        if ad and ad[1] == 'or' and len(t['args']) > 1:
            return _of(_producer(u, t['args'][1]))
        if ad and ad[1] == 'and_then':
            cl = _closures(t)
            return _of(recv) | (set().union(*[_returned(c, depth) for c in cl]) if cl else {('other', u.p, bb)})
        return {('other', u.p, bb)}

    def _int_failure_only(u, t):
        """The receiver of this combinator fails exactly when an i32 parse of u failed."""
        p = _producer(u, t['args'][0]) if t['args'] else None
        o = _origins(u, p[0], p[1]) if p else set()
        return bool(o) and all(k == 'int' for k, _, _ in o)

    def _float_points(u, seen=()):
        """Blocks of u at which the text is handed to the float parse: the parse itself, or a combinator that runs its
        closure when the receiver failed (or_else, unwrap_or_else) where the receiver is the integer parse and the
        closure contains a float point."""
        out = set(FL[u.p])
        for bb, t in u.calls():
            ad = _adaptor(t)
            if ad and ad[1] in ('or_else', 'unwrap_or_else') and _int_failure_only(u, t):
                if any(c.p not in seen and _float_points(c, tuple(seen) + (u.p,)) for c in _closures(t)):
                    out.add(bb)
        return out

    def _runs_after_float_refusal(c):
        """Closure c is handed to a combinator that runs it only on the failure side (map_err, or_else, unwrap_or_else)
        of a receiver whose every failure is the float parse's refusal."""
        par = next((u for u in units if c in prog.children.get(u.p, [])), None)
        if par is None:
            return False
        for bb, t in par.calls():
            if c.p in (t['f'].get('closures') or []):
                ad = _adaptor(t)
                if not (ad and ad[1] in ('map_err', 'or_else', 'unwrap_or_else') and t['args']):
                    return False
                p = _producer(par, t['args'][0])
                o = _origins(par, p[0], p[1]) if p else set()
                return bool(o) and all(k == 'float' for k, _, _ in o)
        return False

    n = 0
    for u in units:
        g = cfg(u)
        exits_ = err_exits(prog, u) if u.body['locals'][0]['ty'].startswith('core::result::Result<') else []
        # an error handed on from the float parse itself (`.parse::<f32>().map_err(..)` as the result) is the sanctioned
        # form; one handed on from the integer parse is a refusal before the float parse
        for b, d_, s_ in exits_:
            if s_ is None or s_[0] < 0:
                continue
            for kind, _, _ in sorted(_origins(u, s_[0], s_[1])):
                if kind == 'float':
                    n += 1
                    chk.ok(RN, chk.key(RN, 'float-parse-error-handed-on'), 'the error is the float parse\'s own refusal',
                           u.loc(b))
                elif kind == 'int':
                    n += 1
                    chk.fail(RN, chk.key(RN, 'int-parse-error-handed-on'), 'read_number hands on the error of '
                             'str::parse::<i32>: a number that is not a 32-bit integer is refused without the float parse',
                             u.loc(b))
        for b, d_, s_ in exits_:
            if s_ is not None:
                continue
            n += 1
            ok = any(g.dominates(p, b) for p in FL[u.p]) or (u is not f and _runs_after_float_refusal(u))
            chk.decide(RN, chk.key(RN, 'own-error', '#%d' % n), ok, 'raised only after the float parse refused the text',
                       'read_number refuses a number without having tried the float parse (error exit not dominated by '
                       'str::parse::<f32>): number forms the default loader accepts, such as 1e+17, make the streaming loader '
                       'reject the whole story', u.loc(b))
        # the float parse is reachable whenever the integer parse failed
        fp = _float_points(u)
        for i, p in enumerate(IL[u.p]):
            w = g.path(g.succ[p], lambda b: b in g.returns, avoid=fp)
            # a return that avoids the float parse must be the Ok(Int) of the success side: it assigns Number::Int
            okw = True
            if w is not None:
                okw = any(s['k'] == 'assign' and s['rv']['k'] == 'agg' and s['rv'].get('var') == 'Int'
                          for b in w for s in u.blocks[b]['st'])
            chk.decide(RN, chk.key(RN, 'int-failure-falls-through', '#%d' % i), okw,
                       'without an i32 the text goes on to the float parse',
                       'after str::parse::<i32> read_number can return without the float parse and without an integer',
                       u.loc(p))
    chk.floor(RN, 'error exits of read_number that concern the number text', n, 1)


# ---- sets of characters as sorted disjoint closed intervals over the code points
_CH_MAX = 0x10FFFF
_CH_FULL = ((0, _CH_MAX),)


def _ch_norm(iv):
    out = []
    for lo, hi in sorted((max(0, a), min(_CH_MAX, b)) for a, b in iv):
        if lo > hi:
            continue
        if out and lo <= out[-1][1] + 1:
            out[-1] = (out[-1][0], max(out[-1][1], hi))
        else:
            out.append((lo, hi))
    return tuple(out)


def _ch_union(a, b):
    return _ch_norm(tuple(a) + tuple(b))


def _ch_compl(a):
    out, nxt = [], 0
    for lo, hi in _ch_norm(a):
        if lo > nxt:
            out.append((nxt, lo - 1))
        nxt = hi + 1
    if nxt <= _CH_MAX:
        out.append((nxt, _CH_MAX))
    return tuple(out)


def _ch_inter(a, b):
    return _ch_norm([(max(l1, l2), min(h1, h2)) for l1, h1 in a for l2, h2 in b])


def _ch_subset(a, b):
    return not _ch_inter(a, _ch_compl(b))


def _ch_show(a):
    def one(x):
        return 'U+%04X' % x
    return ', '.join(one(lo) if lo == hi else '%s..%s' % (one(lo), one(hi)) for lo, hi in a[:4]) + (' ..' if len(a) > 4 else '')


def string_reader_refuses_only_raw_controls(chk, prog, tr):
    RR = 'C14.string-reader-refuses-only-raw-controls'
    chk.rule(RR, 'In JsonTokenizer::read_string (streaming loader) the only characters that, read raw (not after a '
             'backslash), can lead to an error exit are those below U+0020, the quote and the backslash: serde_json (the '
             'other loader) accepts every other character raw inside a string, U+007F and U+0080-U+009F included. Decided '
             'by carrying the set of characters the one just read can be along the paths of one loop trip - narrowed at '
             'every comparison of that character with constants, unchanged by a classification predicate such as '
             'char::is_control - up to each error exit; the part of the body run in the after-a-backslash state (the '
             'escape table, C14.escape-table) is left out. Raw characters below U+0020 that are accepted although '
             'serde_json refuses them concern malformed documents only and are not part of this clause.')
    from analysis.wbf import err_exits
    from analysis.defuse import du
    f = prog.fn('JsonTokenizer::read_string')
    if not chk.anchor(RR, 'JsonTokenizer::read_string', f):
        return
    g = cfg(f)
    d = du(f)
    READ = ('call:JsonTokenizer::read', 'via:JsonTokenizer::read')

    def is_char(o, exact=True):
        """The operand is the character just read (exact: not changed by arithmetic on the way)."""
        if o.get('k') not in ('copy', 'move'):
            return False
        at = tr.prov(f, o)
        if not any(a in READ for a in at):
            return False
        if any(a.startswith('call:') and a not in READ for a in at):
            return False
        return not (exact and any(a.startswith('op:') for a in at))

    rblocks = {bb for bb, t in f.calls() if callee_short(t) == 'JsonTokenizer::read'}
    if not chk.anchor(RR, 'a call of JsonTokenizer::read in read_string', sorted(rblocks)):
        return
    # where a trip starts: the character is taken out of the result of `read` (Ok / Continue payload)
    gen = set()
    for bb, si, s in f.stmts():
        if s['k'] == 'assign' and 'p' not in s['pl'] and f.local_ty(s['pl']['l']) == 'char' and s['rv']['k'] == 'use' \
                and s['rv']['op'].get('k') in ('copy', 'move') \
                and any(pe['k'] == 'downcast' for pe in s['rv']['op']['pl'].get('p', [])) and is_char(s['rv']['op']):
            gen.add(bb)
    if not chk.anchor(RR, 'the character taken out of the result of JsonTokenizer::read', sorted(gen)):
        return

    def decision(bb):
        """What the switch ending block bb tests about the character just read: [(target, set of characters for which the
        edge is taken)] or None when it is not a comparison of that character with constants."""
        t = f.blocks[bb]['term']
        if not t or t['k'] != 'switch' or t['d'].get('k') not in ('copy', 'move'):
            return None
        listed = [v for v, _ in t['ts']]
        if t.get('dty') == 'char':
            if not is_char(t['d']):
                return None
            edges = [(tb, ((v, v),)) for v, tb in t['ts']]
            edges.append((t['else'], _ch_compl([(v, v) for v in listed])))
            return edges
        # a boolean: copies and negations back to the comparison
        o, flip = t['d'], False
        for _ in range(8):
            if 'p' in o['pl']:
                return None
            df = d.single_def(o['pl']['l'])
            if df is None or df['kind'] != 'assign':
                return None
            rv = df['rv']
            if rv['k'] == 'use' and rv['op'].get('k') in ('copy', 'move'):
                o = rv['op']
            elif rv['k'] == 'unop' and rv['op'] == 'Not' and rv['a'].get('k') in ('copy', 'move'):
                o, flip = rv['a'], not flip
            elif rv['k'] == 'binop' and rv['op'] in ('Eq', 'Ne', 'Lt', 'Le', 'Gt', 'Ge'):
                op, a, b = rv['op'], rv['a'], rv['b']
                if a.get('k') == 'const':
                    a, b = b, a
                    op = {'Lt': 'Gt', 'Le': 'Ge', 'Gt': 'Lt', 'Ge': 'Le'}.get(op, op)
                if b.get('k') != 'const' or 'int' not in b or not is_char(a) \
                        or rv.get('aty') not in ('char', 'u32', 'i32', 'u64', 'i64', 'usize', 'isize', 'u128', 'i128'):
                    return None
                k_ = b['int']
                true_set = {'Eq': ((k_, k_),), 'Ne': _ch_compl(((k_, k_),)), 'Lt': ((0, k_ - 1),), 'Le': ((0, k_),),
                            'Gt': ((k_ + 1, _CH_MAX),), 'Ge': ((k_, _CH_MAX),)}[op]
                true_set = _ch_norm(true_set)
                if flip:
                    true_set = _ch_compl(true_set)
                edges = [(tb, true_set if v != 0 else _ch_compl(true_set)) for v, tb in t['ts']]
                if set(listed) == {0}:
                    edges.append((t['else'], true_set))
                elif set(listed) == {1}:
                    edges.append((t['else'], _ch_compl(true_set)))
                return edges
            else:
                return None
        return None

    decisions = {bb: e for bb in range(len(f.blocks)) for e in [decision(bb)] if e is not None}

    def region(tgt, src):
        """Blocks run only after the edge src -> tgt was taken."""
        if g.pred[tgt] != [src]:
            return set()
        return {b for b in range(len(f.blocks)) if g.dominates(tgt, b)}

    # the after-a-backslash state: a boolean variable of the source that becomes true only where the character read was
    # the backslash; what is run only while it is true is the escape table
    BACKSLASH = 92
    after_backslash = set()
    for bb, edges in decisions.items():
        for tb, cs in edges:
            if cs == ((BACKSLASH, BACKSLASH),):
                after_backslash |= region(tb, bb)
    sets_true, sets_other = {}, {}
    for bb, si, s in f.stmts():
        if s['k'] == 'assign' and 'p' not in s['pl'] and f.local_ty(s['pl']['l']) == 'bool' \
                and f.local_name(s['pl']['l']) is not None:
            o = s['rv'].get('op') if s['rv']['k'] == 'use' else None
            if o is not None and o.get('k') == 'const' and o.get('bool') is False:
                continue
            (sets_true if o is not None and o.get('k') == 'const' and o.get('bool') is True else sets_other) \
                .setdefault(s['pl']['l'], []).append(bb)
    for bb, t in f.calls():
        if 'p' not in t['dest'] and t['dest']['l'] in sets_true:
            sets_other.setdefault(t['dest']['l'], []).append(bb)
    escape_state = {l for l, bbs in sets_true.items() if l not in sets_other and all(b in after_backslash for b in bbs)}
    escape_region = set(after_backslash)
    for bb, t in f.terms():
        if t['k'] != 'switch' or t['d'].get('k') not in ('copy', 'move') or 'p' in t['d']['pl']:
            continue
        l, flip = t['d']['pl']['l'], False
        for _ in range(6):
            if l in escape_state:
                break
            df = d.single_def(l)
            if df is None or df['kind'] != 'assign':
                break
            rv = df['rv']
            if rv['k'] == 'use' and rv['op'].get('k') in ('copy', 'move') and 'p' not in rv['op']['pl']:
                l = rv['op']['pl']['l']
            elif rv['k'] == 'unop' and rv['op'] == 'Not' and rv['a'].get('k') in ('copy', 'move') and 'p' not in rv['a']['pl']:
                l, flip = rv['a']['pl']['l'], not flip
            else:
                break
        if l not in escape_state:
            continue
        listed = {v for v, _ in t['ts']}
        for v, tb in t['ts']:
            if (v != 0) != flip:
                escape_region |= region(tb, bb)
        if (listed == {0} and not flip) or (listed == {1} and flip):
            escape_region |= region(t['else'], bb)
    chk.floor(RR, 'comparisons of the character read with constants in read_string', len(decisions), 2)

    # forward: the set of characters the one just read can be, per block (no entry = not within a trip)
    state = {}
    work = sorted(gen)
    for b in work:
        state[b] = _CH_FULL
    while work:
        b = work.pop()
        if b in rblocks or (b in escape_region and b not in gen):
            continue
        cur = _CH_FULL if b in gen else state.get(b)
        if cur is None:
            continue
        edges = decisions.get(b)
        outs = [(tb, _ch_inter(cur, cs)) for tb, cs in edges] if edges is not None else [(s, cur) for s in g.succ[b]]
        for tb, cs in outs:
            if not cs or tb in escape_region:
                continue
            new = _ch_union(state.get(tb, ()), cs)
            if new != state.get(tb):
                state[tb] = new
                work.append(tb)

    ALLOWED = _ch_norm(((0, 0x1f), (0x22, 0x22), (BACKSLASH, BACKSLASH)))
    n = 0
    for b, desc, src in err_exits(prog, f):
        if src is not None and not (src[0] >= 0 and any(is_char(a, exact=False) for a in src[1]['args'])):
            continue        # an error handed on from a callee that was not given the character
        if b in escape_region or b not in state:
            continue
        n += 1
        cs = state[b] if b not in gen else _CH_FULL
        bad = _ch_inter(cs, _ch_compl(ALLOWED))
        chk.decide(RR, chk.key(RR, 'error-exit', '#%d' % n), not bad,
                   'reached only with the quote, the backslash or a character below U+0020 as the character read',
                   'JsonTokenizer::read_string can take this error exit when the raw character just read is %s: the streaming '
                   'loader refuses a string that serde_json (the default loader) reads - only U+0000-U+001F must be escaped '
                   'in JSON; U+007F and U+0080-U+009F may stand raw' % _ch_show(bad), f.loc(b, 0))
    if n == 0:
        chk.ok(RR, chk.key(RR, 'no-error-exit-on-the-plain-character-path'),
               'no error exit of read_string is reachable within a trip outside the after-a-backslash state', f.loc(0))
