"""C13 — every runtime error and warning is delivered exactly once (structural clauses)."""
from analysis.facts import callee, callee_short, is_dyn_call
from analysis.cfg import cfg
from analysis.defuse import Tracer, fields_of
from analysis.effects import Effects
from analysis.guards import GuardFlow, resolve_cond

MSG_LISTS = ('StoryState::current_errors', 'StoryState::current_warnings')

# iterator adaptors that hand on the elements of the sequence(s) they are applied to: the receiver, and for the
# two-sequence adaptors the argument as well (`errors.iter().chain(warnings.iter())` yields the elements of both)
SEQ_ADAPTORS_2 = ('chain', 'zip')
SEQ_ADAPTORS_1 = ('map', 'filter', 'filter_map', 'map_while', 'inspect', 'rev', 'skip', 'take', 'skip_while', 'take_while',
                  'step_by', 'enumerate', 'peekable', 'cloned', 'copied', 'fuse', 'by_ref', 'flatten', 'flat_map', 'scan',
                  'cycle', 'collect')


class SequenceTracer(Tracer):
    """Provenance of a delivered message: as Tracer, and an element that comes out of an iterator adaptor comes from
    every sequence the adaptor was built over (Tracer stops at `Iterator::chain` / `map` / `zip` as at any other call)."""

    def _call(self, fn, t, seen, out):
        cs = callee_short(t)
        head, _, name = cs.rpartition('::')
        if (head == 'Iterator' or head.endswith(' as Iterator>')) and t['args']:
            n = 2 if name in SEQ_ADAPTORS_2 else 1 if name in SEQ_ADAPTORS_1 else 0
            if n:
                out.add('via:' + cs)
                for a in t['args'][:n]:
                    self._operand(fn, a, seen, out)
                return
        Tracer._call(self, fn, t, seen, out)


# ---- what a condition says about StoryState::current_errors
ELEMENT_ACCESS = {'first', 'last', 'get', 'split_first', 'split_last', 'first_mut', 'last_mut', 'get_mut', 'next', 'peek',
                  'index', 'index_mut'}
LIST_PASS = {'deref', 'deref_mut', 'as_slice', 'as_mut_slice', 'as_ref', 'as_mut', 'borrow', 'iter', 'iter_mut', 'into_iter',
             'by_ref', 'len'}


def _errors_list_only(prog, atoms):
    """The value is the current_errors list itself (reached through getters / deref / iter), or one access to an element
    of it: -> (True, set of element-access names on the way); anything else -> (False, None)."""
    if fields_of(atoms) & set(MSG_LISTS) != {'StoryState::current_errors'}:
        return False, None
    if any(a.startswith(('call:', 'agg:', 'op:', 'cast:', 'const:', 'upvar:')) or a in ('other', 'indexed') for a in atoms):
        return False, None
    elem = set()
    for a in atoms:
        if not a.startswith('via:'):
            continue
        cs = a[4:]
        nm = cs.rsplit('::', 1)[-1]
        if nm in ELEMENT_ACCESS:
            elem.add(nm)
        elif nm not in LIST_PASS and not prog.by_short.get(cs):
            return False, None      # (a repository function on the way is a getter summary: `get_current_errors`)
    return True, elem


def errors_test(prog, desc):
    """'nonempty' when the condition being true means current_errors has an element (`has_error()`, `first()` / `get(i)`
    / `iter().next()` on the list is Some, `len() > 0`), 'empty' when it means the list has none (`is_empty()`,
    `len() == 0`), None for any other condition.  (has_error() is `!current_errors.is_empty()`; the three spellings
    are the same test.)"""
    if desc[0] == 'call':
        if desc[1] == 'StoryState::has_error':
            return 'nonempty'
        if desc[1] in ('Vec::is_empty', '[T]::is_empty'):
            ok, elem = _errors_list_only(prog, desc[2])
            return 'empty' if ok and not elem else None
        return None
    if desc[0] == 'is_some':
        ok, elem = _errors_list_only(prog, desc[1])
        return 'nonempty' if ok and elem and 'len' not in {a.rsplit('::', 1)[-1] for a in desc[1]} else None
    if desc[0] == 'cmp' and isinstance(desc[3], int) and not isinstance(desc[3], bool):
        ok, elem = _errors_list_only(prog, desc[2])
        if not ok or elem or not any(a in ('via:Vec::len', 'via:[T]::len') for a in desc[2]):
            return None
        return {('Gt', 0): 'nonempty', ('Ne', 0): 'nonempty', ('Ge', 1): 'nonempty', ('rLt', 0): 'nonempty',
                ('rNe', 0): 'nonempty', ('rLe', 1): 'nonempty', ('Eq', 0): 'empty', ('Lt', 1): 'empty', ('Le', 0): 'empty',
                ('rEq', 0): 'empty', ('rGt', 1): 'empty', ('rGe', 0): 'empty'}.get((desc[1], desc[3]))
    return None


def cleared_fields(prog, fn, tr, depth=0, seen=None):
    """Fields of StoryState whose Vec is emptied (clear / truncate(0) / assigned a new Vec) by fn or its callees."""
    if seen is None:
        seen = set()
    if fn.p in seen or depth > 4:
        return set()
    seen.add(fn.p)
    out = set()
    for bb, t in fn.calls():
        cs = callee_short(t)
        if cs in ('Vec::clear', 'Vec::drain', 'mem::take', 'Option::take') and t['args']:
            out |= fields_of(tr.prov(fn, t['args'][0])) & set(MSG_LISTS)
        else:
            from analysis.facts import callee
            g = prog.fns.get(callee(t))
            if g is not None:
                out |= cleared_fields(prog, g, tr, depth + 1, seen)
    for bb, si, s in fn.stmts():
        if s['k'] == 'assign' and 'p' in s['pl']:
            pes = [pe for pe in s['pl']['p'] if pe['k'] == 'field']
            if pes and pes[-1].get('n') in ('current_errors', 'current_warnings') and s['rv']['k'] in ('use', 'agg'):
                # replaced wholesale (e.g. `= Vec::new()`): counts as cleared only if the new value is a fresh Vec
                pr = tr.prov_place(fn, {'l': s['rv'].get('op', {}).get('pl', {}).get('l', -1)}) if s['rv']['k'] == 'use' and s['rv']['op']['k'] in ('copy', 'move') else set()
                if any(a == 'call:Vec::new' for a in pr):
                    out.add('StoryState::' + pes[-1]['n'])
    return out


def run(chk, prog):
    tr = Tracer(prog)
    seq = SequenceTracer(prog)
    chk.not_decided += ['exact multiplicity of delivery across nested continues at run time',
                        'that message texts are the ones Ink prescribes']
    R_A = 'C13.delivered-is-cleared'
    chk.rule(R_A, 'In the handler branch of continue_internal every state list whose elements are handed to '
             'ErrorHandler::error is emptied by the reset that follows on every path to return; otherwise the next '
             'continue delivers the same message again.')
    R_E = 'C13.unhandled-warning-readable'
    chk.rule(R_E, 'On the path where no error handler is set (Story::on_error is None) nothing empties '
             'current_warnings: a warning that was not delivered stays readable through get_current_warnings(). Every '
             'place of continue_internal that empties the list is reached only on the handler-is-set side of the test '
             '(a place reached with the test undecided - before it, or after the join - empties the list for both sides: a '
             'warning raised outside a continue, such as the version warning of the constructor, would be dropped before '
             'any handler saw it).')
    R_B = 'C13.error-stops-story'
    chk.rule(R_B, 'Story::add_error with is_warning = false passes through StoryState::force_end on every path; '
             'StoryState::can_continue depends on has_error.')
    R_C = 'C13.err-exit-only-on-error'
    chk.rule(R_C, 'The Err exit of the delivery block is dominated by the true edge of a has_error() test (a warning '
             'never causes Err) and no reset_errors precedes it (the unreported error stays readable).')
    R_D = 'C13.single-producer'
    chk.rule(R_D, 'Every push to current_errors / current_warnings is in StoryState::add_error (messages raised in the '
             'constructor go through the same lists).')

    ci = prog.fn('Story::continue_internal')
    sre = prog.fn('StoryState::reset_errors')
    sae = prog.fn('StoryState::add_error')
    story_add = prog.fn('Story::add_error')
    story_reset = prog.fn('Story::reset_errors')
    if not all([chk.anchor(R_A, 'Story::continue_internal', ci), chk.anchor(R_D, 'StoryState::add_error', sae), chk.anchor(R_B, 'Story::add_error', story_add),
                chk.anchor(R_A, 'Story::reset_errors', story_reset)]):
        return
    g = cfg(ci)

    # ---- (a) delivered ⊆ cleared on every path
    deliveries = []
    for bb, t in ci.calls():
        if is_dyn_call(t) and callee_short(t).endswith('ErrorHandler::error'):
            lists = fields_of(seq.prov(ci, t['args'][1])) & set(MSG_LISTS)
            deliveries.append((bb, t, lists))
    chk.floor(R_A, 'dyn calls of ErrorHandler::error in continue_internal', len(deliveries), 2)
    clearing = {lst: [] for lst in MSG_LISTS}     # blocks of continue_internal that empty the list
    for bb, t in ci.calls():
        cs = callee_short(t)
        gfn = prog.fns.get(callee(t))
        if gfn is not None:
            for lst in cleared_fields(prog, gfn, tr):
                clearing[lst].append(bb)
        elif cs in ('Vec::clear', 'Vec::drain', 'mem::take') and t['args']:
            for lst in fields_of(tr.prov(ci, t['args'][0])) & set(MSG_LISTS):
                clearing[lst].append(bb)
    reset_blocks = sorted(set(clearing[MSG_LISTS[0]]))
    for i, (bb, t, lists) in enumerate(deliveries):
        if not lists:
            chk.fail(R_A, chk.key(R_A, 'continue_internal', 'delivery#%d' % i, 'source-unknown'),
                     'cannot determine which state list feeds this ErrorHandler::error call', ci.loc(bb))
            continue
        for lst in sorted(lists):
            key = chk.key(R_A, 'continue_internal', lst)
            ok_path, w = g.must_pass_through(bb, clearing[lst])
            chk.decide(R_A, key, ok_path, 'delivered list is emptied on every path from the delivery to return',
                       'messages of %s are handed to the error handler, but a path from the delivery to return never '
                       'empties that list (blocks emptying it: %s): every later continue re-delivers them'
                       % (lst, [ci.loc(b) for b in clearing[lst]] or 'none'), ci.loc(bb), {'witness_blocks': w})

    # ---- (a'') the same holds for any other place that hands state messages to the handler
    for fn in sorted(prog.fns.values(), key=lambda f: f.p):
        if fn.crate != 'bladeink' or fn.p == ci.p or prog.root_fn(fn).p == ci.p:
            continue
        gfn = None
        for bb, t in fn.calls():
            if not (is_dyn_call(t) and callee_short(t).endswith('ErrorHandler::error')) or len(t['args']) < 2:
                continue
            lists = fields_of(seq.prov(fn, t['args'][1])) & set(MSG_LISTS)
            if not lists:
                continue
            gfn = gfn or cfg(fn)
            for lst in sorted(lists):
                clr = []
                for b2, t2 in fn.calls():
                    h2 = prog.fns.get(callee(t2))
                    if h2 is not None and lst in cleared_fields(prog, h2, tr):
                        clr.append(b2)
                    elif callee_short(t2) in ('Vec::clear', 'Vec::drain', 'mem::take') and t2['args'] \
                            and lst in fields_of(tr.prov(fn, t2['args'][0])):
                        clr.append(b2)
                ok_path, w = gfn.must_pass_through(bb, clr)
                chk.decide(R_A, chk.key(R_A, prog.root_fn(fn).short, lst), bool(clr) and ok_path,
                           'delivered list is emptied on every path from the delivery to return',
                           '%s hands the messages of %s to the error handler and does not empty the list afterwards: the '
                           'end of the next continue delivers the same messages again' % (prog.root_fn(fn).short, lst),
                           fn.loc(bb), {'witness_blocks': w})

    # ---- (a') nothing is delivered while a rewind is still possible
    R_F = 'C13.no-delivery-while-a-rewind-is-pending'
    chk.rule(R_F, 'No call of ErrorHandler::error (and no clearing of the message lists) in continue_internal is reachable '
             'with a look-ahead snapshot pending: the snapshot holds its own copy of the messages raised before the line end '
             'and is not cleared by the reset, so a rewind in a later slice of a time-limited continue would deliver them '
             'again - and the look-ahead\'s own messages would be raised again when the rewound content re-runs.')
    from rules.c17 import snapshot_flow
    gfs = snapshot_flow(prog, tr, Effects(prog, tracer=tr), ci)
    for i, (bb, t, lists) in enumerate(deliveries):
        vs = gfs.valuations_at(bb, ['snap', 'async'])
        bad_v = [v for v in vs if v.get('snap') is not False]
        chk.decide(R_F, chk.key(R_F, 'delivery#%d' % i), bool(vs) and not bad_v,
                   'reached only with no snapshot pending',
                   'the error handler is called while a look-ahead snapshot may be pending (%s): when continue_async '
                   'pauses inside the look-ahead the same warning is delivered again after the rewind' % bad_v[:2],
                   ci.loc(bb))

    # ---- (e) without a handler a warning stays readable
    def atom_h(desc):
        if desc[0] == 'is_some' and 'field:Story::on_error' in desc[1]:
            return 'handler'
        return None
    gfh = GuardFlow(prog, ci, atom_h, tracer=tr)
    gfh.run()
    tested = any(gfh.atom_for_cond(gfh.cond_at(b)) == 'handler' for b in range(len(ci.blocks)))
    if chk.anchor(R_E, 'test of Story::on_error in continue_internal', tested):
        bad = [b for b in clearing['StoryState::current_warnings']
               if any(v.get('handler') is not True for v in gfh.valuations_at(b, ['handler']))]
        # (a place that empties the list before the handler test, or after the branches have joined again, runs
        # whether or not a handler is set: it counts as reachable without one)
        chk.decide(R_E, chk.key(R_E, 'continue_internal', 'StoryState::current_warnings'), not bad,
                   'no path without a handler empties current_warnings',
                   'on the path where no error handler is set, current_warnings is emptied at %s: an undelivered '
                   'warning is no longer readable afterwards' % [ci.loc(b) for b in bad],
                   ci.loc(bad[0]) if bad else None)

    # ---- (b) error stops the story
    check_add_error_force_end(chk, prog, tr, R_B)
    cc = prog.fn('StoryState::can_continue')
    if chk.anchor(R_B, 'StoryState::can_continue', cc):
        atoms = tr.prov_local(cc, 0)
        reads = any(callee_short(t) == 'StoryState::has_error' for _, t in cc.calls()) or \
            'field:StoryState::current_errors' in atoms
        # the has_error result must influence the return value (reach a switch or the return place)
        infl = False
        for bb, t in cc.terms():
            if t['k'] == 'switch':
                c = resolve_cond(prog, cc, t['d'], tr)
                if c and c.desc[0] == 'call' and c.desc[1] == 'StoryState::has_error':
                    infl = True
        infl = infl or 'call:StoryState::has_error' in atoms or 'via:StoryState::has_error' in atoms
        chk.decide(R_B, chk.key(R_B, 'StoryState::can_continue', 'has_error'), reads and infl,
                   'can_continue tests has_error()', 'StoryState::can_continue no longer depends on has_error(): a '
                   'story with an unreported error could be continued', cc.loc(0))

    # ---- (c) Err exit only on has_error = true and not after reset_errors
    def atom_ci(desc):
        return {'nonempty': 'has_error', 'empty': 'no_error'}.get(errors_test(prog, desc))
    # (`len` is looked through for this test only, so that `get_current_errors().len() > 0` is seen as a test of the list)
    gfc = GuardFlow(prog, ci, atom_ci, tracer=Tracer(prog, extra_transparent=('Vec::len', '[T]::len')))
    gfc.run()
    # Err exits located after the delivery test (blocks reachable from the first has_error/has_warning test of the
    # delivery block = blocks dominated by the decrement of recursive_continue_count)
    dec_blocks = [bb for bb, si, s in ci.stmts() if s['k'] == 'assign' and field_leaf(s['pl']) == 'recursive_continue_count'
                  and s['rv']['k'] in ('binop', 'use') and _is_sub(ci, s)]
    # locals whose value is what the function returns: _0, the spliced helpers' return slots, and every local that is
    # moved (through plain uses) into one of those - `let mut outcome = Ok(()); .. outcome = Err(..); .. outcome`
    ret_like = {0} | set(ci.ret_locals)
    grew = True
    while grew:
        grew = False
        for bb, si, s in ci.stmts():
            if s['k'] == 'assign' and 'p' not in s['pl'] and s['pl']['l'] in ret_like and s['rv']['k'] == 'use' \
                    and s['rv']['op'].get('k') in ('move', 'copy') and not s['rv']['op']['pl'].get('p') \
                    and s['rv']['op']['pl']['l'] not in ret_like:
                ret_like.add(s['rv']['op']['pl']['l'])
                grew = True
    err_blocks = []
    for bb, si, s in ci.stmts():
        if s['k'] == 'assign' and s['rv']['k'] == 'agg' and s['rv'].get('adt', '').endswith('result::Result') \
                and s['rv'].get('var') == 'Err' and 'p' not in s['pl'] and s['pl']['l'] in ret_like:
            err_blocks.append(bb)
    late_err = [b for b in err_blocks if dec_blocks and any(g.dominates(d, b) for d in dec_blocks)]
    if chk.anchor(R_C, 'Err exit in the delivery block of continue_internal', late_err):
        for i, eb in enumerate(late_err):
            vals = gfc.valuations_at(eb, ['has_error', 'no_error'])
            only_true = all(v.get('has_error') is True or v.get('no_error') is False for v in vals) and vals
            after_reset = any(eb in g.reachable([rb]) for rb in reset_blocks)
            chk.decide(R_C, chk.key(R_C, 'continue_internal', 'err-exit#%d' % i), bool(only_true) and not after_reset,
                       'Err exit reached only with has_error() = true and never after reset_errors',
                       'the Err exit of the delivery block is reachable with has_error() %s%s'
                       % ([v.get('has_error') for v in vals], ' and after reset_errors' if after_reset else ''),
                       ci.loc(eb))

    # ---- (f) pending messages survive a committed look-ahead
    R_F = 'C13.messages-survive-lookahead'
    chk.rule(R_F, 'copy_and_start_patching carries current_errors and current_warnings into the look-ahead state, each '
             'skipped only after a test on that list itself: the copy becomes the live state when the look-ahead is '
             'committed, so a list that is not carried over is a lost (never delivered) message.')
    cp = prog.fn('StoryState::copy_and_start_patching')
    if chk.anchor(R_F, 'StoryState::copy_and_start_patching', cp):
        from rules.c01 import check_conditional_copies
        from analysis.fieldcov import fields_written
        wr, _ = fields_written(prog, [cp], 'StoryState', depth=0, tr=tr)
        for lst in ('current_errors', 'current_warnings'):
            chk.decide(R_F, chk.key(R_F, lst, 'copied'), lst in wr, 'the list is copied into the look-ahead state',
                       'copy_and_start_patching no longer copies %s: messages pending at a newline are lost when the '
                       'look-ahead is committed' % lst, cp.loc(0))
        check_conditional_copies(chk, prog, tr, cp, ['current_errors', 'current_warnings'], R_F)

    # ---- (d) single producer
    nprod = 0
    for fn in prog.fns.values():
        if fn.crate != 'bladeink':
            continue
        for bb, t in fn.calls():
            cs = callee_short(t)
            if cs in ('Vec::push', 'Vec::insert', 'Vec::extend', '<Vec as Extend>::extend', 'Vec::append') and t['args']:
                lists = fields_of(tr.prov(fn, t['args'][0])) & set(MSG_LISTS)
                for lst in lists:
                    nprod += 1
                    root = prog.root_fn(fn).short
                    chk.decide(R_D, chk.key(R_D, root, lst), root == 'StoryState::add_error',
                               'producer is StoryState::add_error',
                               '%s pushes to %s outside StoryState::add_error (bypasses the single delivery channel)'
                               % (root, lst), fn.loc(bb))
    chk.floor(R_D, 'pushes to the message lists', nprod, 2)
    # ... and a list is never filled wholesale from another state's, except into the look-ahead copy: a message carried
    # over from a look-ahead that is being rewound is raised again when the rewound part is played for real
    WHOLE_OK = {'StoryState::copy_and_start_patching':
                'the look-ahead copy starts with the messages raised so far (C13.messages-survive-lookahead)'}
    from rules.c10 import fields_of_place as _fop
    for fn in sorted(prog.fns.values(), key=lambda f: f.p):
        if fn.crate != 'bladeink':
            continue
        for bb, si, st in fn.stmts():
            if st['k'] != 'assign' or 'p' not in st['pl']:
                continue
            fl = _fop(st['pl'])
            if not fl or fl[-1][0] != 'StoryState' or ('StoryState::' + fl[-1][1]) not in MSG_LISTS:
                continue
            root = prog.root_fn(fn).short
            at = tr.prov(fn, st['rv']['op']) if st['rv']['k'] == 'use' else set()
            fresh = any(a in ('call:Vec::new', 'call:Vec::with_capacity') for a in at) and not any(
                a.startswith('field:StoryState::current_') for a in at)
            lst = 'StoryState::' + fl[-1][1]
            chk.decide(R_D, chk.key(R_D, root, lst, 'assigned'), fresh or root in WHOLE_OK,
                       'fresh empty list' if fresh else 'table: ' + WHOLE_OK.get(root, ''),
                       '%s assigns %s as a whole from %s: messages raised in one state are carried into another (a message '
                       'of a look-ahead that is rewound is delivered early and then again when it is raised for real)'
                       % (root, lst, sorted(a for a in at if a.startswith(('field:', 'arg:')))[:3]), fn.loc(bb, si))


def check_add_error_force_end(chk, prog, tr, R_B):
    story_add = prog.fn('Story::add_error')
    if not chk.anchor(R_B, 'Story::add_error', story_add):
        return
    fe_blocks = [bb for bb, t in story_add.calls() if callee_short(t) == 'StoryState::force_end']
    if chk.anchor(R_B, 'call of StoryState::force_end in Story::add_error', fe_blocks):
        def atom_of(desc):
            if desc == ('arg', 3):
                return 'is_warning'
            return None
        gf = GuardFlow(prog, story_add, atom_of, tracer=tr)
        gf.run()
        ga = cfg(story_add)
        tested = any(gf.atom_for_cond(gf.cond_at(b)) == 'is_warning' for b in range(len(story_add.blocks)))
        cond = tested and not _reach_avoiding(gf, ga, fe_blocks, 'is_warning', False)
        chk.decide(R_B, chk.key(R_B, 'Story::add_error', 'force_end'), cond,
                   'every path with is_warning = false passes StoryState::force_end',
                   'a path of Story::add_error with is_warning = false reaches return without StoryState::force_end: '
                   'an error no longer stops the story', story_add.loc(fe_blocks[0]))


def _reach_avoiding(gf, ga, avoid, atom, value):
    """Is a Return reachable along feasible edges whose valuation has atom == value (after refinement),
    without entering `avoid` blocks?"""
    avoid = set(avoid)
    start = [(0, s) for s in gf.states.get(0, ())]
    seen = set(start)
    st = list(start)
    # walk the product graph (block, state) using recorded edge states
    succ_states = {}
    for (a, b), sts in gf.edge_states.items():
        succ_states.setdefault(a, []).append((b, sts))
    # recompute transitions exactly: re-run transfer for each (block,state)
    while st:
        bb, fs = st.pop()
        d = dict(fs)
        if bb in ga.returns and d.get(atom) is value:
            return True
        if bb in ga.returns and d.get(atom) is None and value is False:
            return True
        loc = dict(fs)
        gf._apply_stmts(bb, loc)
        for succ, ns in gf._out_edges(bb, loc):
            if succ in avoid:
                continue
            if ns.get(atom) is (not value):
                continue
            f = frozenset(ns.items())
            if (succ, f) not in seen:
                seen.add((succ, f))
                st.append((succ, f))
    return False


def field_leaf(pl):
    pes = [pe for pe in pl.get('p', []) if pe['k'] == 'field']
    return pes[-1].get('n') if pes else None


def _is_sub(fn, s):
    rv = s['rv']
    if rv['k'] == 'binop':
        return rv['op'].startswith('Sub')
    if rv['k'] == 'use' and rv['op']['k'] in ('copy', 'move'):
        # `x -= 1` lowers to tmp = SubWithOverflow(x, 1); assert; x = move tmp.0
        from analysis.defuse import du
        l = rv['op']['pl']['l']
        for d in du(fn).defs.get(l, []):
            if d['kind'] == 'assign' and d['rv']['k'] == 'binop' and d['rv']['op'].startswith('Sub'):
                return True
    return False
