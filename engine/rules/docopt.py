"""Shared clause of C04 and C15: optionals whose emptiness the story document decides are never unwrapped.

A handful of accessors of the runtime return an Option (or Result) that is None exactly when the *document* - the
compiled story or a hand-made / corrupted one - says so: a path that resolves to something that is not a container, a
path without components, a container without a name, an empty list's minimum, a divert without a target, a choice
whose thread was never attached.  Unwrapping such a value is a panic the document can trigger.  The rule is a source
rule, not a site list: every unwrap/expect in the runtime whose receiver derives from one of the sources must be

  * dominated by a success test on that very value (is_some / is_ok / if let / match), or
  * dominated by the repository's own predicate for that source, applied to the same receiver
    (`has_valid_name()` for a container name, `!items.is_empty()` for a list extreme, `has_variable_target()`,
    `!is_null()` for a pointer's path), or
  * listed below with the condition that makes it safe (each read in the code, one line of reason).

A new unwrap of one of these sources anywhere in the runtime - also inside a helper that did not exist before - is
reported with its function and source."""
from analysis.defuse import Tracer
from analysis.cfg import cfg
from analysis.guards import resolve_cond
from analysis.panics import sites as panic_sites, guard_dominated, guarded_by_reassignment

# source (callee short name, or field atom) -> what makes it None
SOURCES = {
    'SearchResult::container': 'the path resolves to an object that is not a container',
    'Path::get_last_component': 'the path has no components ("" in the document)',
    'ChoicePoint::get_choice_target': 'the choice point\'s path does not resolve to a container',
    'VariableReference::get_container_for_count': 'the read-count path does not resolve to a container',
    'Divert::get_target_path_string': 'the divert has no target path (it names a variable instead)',
    'Divert::get_target_path': 'the divert has no target path (it names a variable instead)',
    'InkList::get_min_item': 'the list is empty',
    'InkList::get_max_item': 'the list is empty',
    'Choice::get_thread_at_generation': 'no thread was attached to the choice',
    'Pointer::get_path': 'the pointer is null',
    'field:Container::name': 'the container is unnamed',
    'field:Divert::variable_divert_name': 'the divert names no variable',
    'field:Divert::target_path': 'the divert has no target path',
}

# source -> [(predicate callee short name, truth value on the safe side)]
PREDICATES = {
    'field:Container::name': [('Container::has_valid_name', True)],
    'InkList::get_min_item': [('HashMap::is_empty', False)],
    'InkList::get_max_item': [('HashMap::is_empty', False)],
    'field:Divert::variable_divert_name': [('Divert::has_variable_target', True)],
    'Pointer::get_path': [('Pointer::is_null', False)],
}

# (root function | source) -> reason; confirmed by reading the code
TABLE = {
    'Story::pointer_at_path|Path::get_last_component':
        'pointer_at_path returns the null pointer first when path.is_empty() (is_empty <=> no last component)',
    'Flow::write_json|Choice::get_thread_at_generation':
        'every choice in current_choices got its thread in Story::process_choice (fork_thread) or in '
        'Flow::load_flow_choice_threads, which fails with BadJson when no thread can be found',
    'Story::choose_choice_index|Choice::get_thread_at_generation':
        'same invariant: choices offered to the host always carry their thread',
    'Story::try_follow_default_invisible_choice|Choice::get_thread_at_generation':
        'same invariant: generated choices always carry their thread',
    'json_write::write_rtobject|Divert::get_target_path_string':
        'else-branch of has_variable_target(): the decoders build a divert with exactly one of target path / variable name',
    'Story::perform_logic_and_flow_control|Divert::get_target_path_string':
        'reached only when has_variable_target() is false: the decoders build a divert with exactly one of target path / '
        'variable name',
}


def _src_of(atoms):
    out = []
    for a in atoms:
        if a in SOURCES:
            out.append(a)
        elif a[:4] in ('via:', 'call') and a.split(':', 1)[1] in SOURCES:
            out.append(a.split(':', 1)[1])
    return sorted(set(out))


def _roots(atoms):
    return {a for a in atoms if a.startswith('arg:')}


def predicate_dominated(prog, fn, site, tr, preds):
    """Is the site reachable only through the safe edge of a test `P(receiver)` with P one of preds and the tested
    receiver sharing its root (argument) with the unwrapped value?"""
    if not preds:
        return None
    t = site['term']
    recv = tr.prov(fn, t['args'][0])
    rroots = _roots(recv)
    g = cfg(fn)
    dom = g.dominators()
    if site['bb'] not in dom:
        return None
    want = dict(preds)
    for b in dom[site['bb']]:
        tt = fn.blocks[b]['term']
        if not tt or tt['k'] != 'switch':
            continue
        c = resolve_cond(prog, fn, tt['d'], tr)
        if c is None or c.desc[0] != 'call' or c.desc[1] not in want:
            continue
        troots = _roots(c.desc[2])
        if rroots and troots and not (rroots & troots):
            continue
        safe = want[c.desc[1]]
        good, bad = [], []
        vals = [v for v, _ in tt['ts']]
        for v, tb in tt['ts']:
            (good if c.truth_of_value(v) == safe else bad).append(tb)
        rest = {0, 1} - set(vals)
        if len(rest) == 1:
            (good if c.truth_of_value(rest.pop()) == safe else bad).append(tt['else'])
        if not good:
            continue
        if site['bb'] not in g.reachable([x for x in bad if x not in good], avoid=[b]):
            return '%s is %s on the same receiver' % (c.desc[1], safe)
    return None


def check_document_decided_options(chk, prog, RULE, text_extra=''):
    chk.rule(RULE, 'No unwrap/expect in the runtime is applied to a value that derives from an accessor whose None/Err '
             'the story document decides (%s) unless the success of that very value was tested on the way, the '
             'repository\'s predicate for that source (has_valid_name, !items.is_empty(), has_variable_target, '
             '!is_null) holds on the same receiver on every path to it, or the site is a confirmed exception.%s'
             % (', '.join(sorted(SOURCES)), text_extra))
    tr = Tracer(prog)
    lt = Tracer(prog, transparent=lambda cs: True, use_summaries=False)
    n, used = 0, set()
    ordn = {}
    for fn in sorted(prog.fns.values(), key=lambda f: f.p):
        if fn.crate != 'bladeink' or '::tests::' in fn.p:
            continue
        root = prog.root_fn(fn)
        for s in panic_sites(prog, fn):
            if not s['kind'].startswith('unwrap:') or not s['term']['args']:
                continue
            srcs = _src_of(lt.prov(fn, s['term']['args'][0]))
            if not srcs:
                continue
            n += 1
            loc = fn.loc(s['bb'])
            src = srcs[0]
            base = '%s|%s' % (root.short, src)
            i = ordn.get(base, 0)
            ordn[base] = i + 1
            key = chk.key(RULE, root.short, src, '#%d' % i)
            if guard_dominated(prog, fn, s, tr) or guarded_by_reassignment(prog, fn, s, tr):
                chk.ok(RULE, key, 'tested on the way', loc)
                continue
            how = None
            for sc in srcs:
                how = predicate_dominated(prog, fn, s, tr, PREDICATES.get(sc))
                if how:
                    break
            if how:
                chk.ok(RULE, key, 'predicate-guarded: ' + how, loc)
                continue
            hit = next((('%s|%s' % (root.short, sc)) for sc in srcs if ('%s|%s' % (root.short, sc)) in TABLE), None)
            if hit:
                used.add(hit)
                chk.ok(RULE, key, 'confirmed exception: ' + TABLE[hit], loc)
                continue
            chk.fail(RULE, key, '%s unwraps a value that derives from %s, which is None/Err when %s: a document that '
                     'says so aborts the process here instead of being reported as an error'
                     % (root.short, src, SOURCES[src]), loc)
    chk.floor(RULE, 'unwraps of document-decided optionals examined', n, 30)
    for k in TABLE:
        if k not in used:
            chk.note('document-decided-options table entry matches no site (stale): ' + k)
    return n
