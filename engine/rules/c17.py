"""C17 — resetting a story is equivalent to constructing it afresh (classification clause)."""
from analysis.facts import callee, callee_short, tyname
from analysis.cfg import cfg
from analysis.defuse import Tracer
from analysis.effects import Effects
from analysis.guards import GuardFlow, resolve_cond
from rules.c09 import check_count_pairing, field_leaf

# every field of Story in exactly one class
CLASS = {
    'state': ('replaced', 'replaced as a whole by reset_state'),
    'main_content_container': ('program', 'immutable program'),
    'list_definitions': ('program', 'immutable program'),
    'externals': ('persist', 'must survive reset; writers: bind/unbind'),
    'variable_observers': ('persist', 'must survive reset; writers: observe/remove'),
    'on_error': ('persist', 'must survive reset; writer: set_error_handler'),
    'allow_external_function_fallbacks': ('persist', 'must survive reset; writer: its setter'),
    'has_validated_externals': ('persist', 'bindings stay validated across reset; writers: validate_external_bindings, and '
                                'the two functions that change what validation depends on (they clear it: C09.binding-validation-is-a-cache)'),
    'state_snapshot_at_last_new_line': ('neutral', 'None at every host-call boundary outside an unfinished async continue'),
    'async_continue_active': ('neutral', 'false at every boundary where reset_state is allowed (async guard)'),
    'recursive_continue_count': ('neutral', '0 at every host-call boundary (paired)'),
    'saw_lookahead_unsafe_function_after_new_line': ('neutral', 'assigned false at the start of every continue'),
    'temporary_evaluation_container': ('constant', 'never written after construction'),
    'async_saving': ('constant', 'never written after construction'),
    'prev_containers': ('scratch', 'scratch buffer, cleared before each use'),
}
ALLOWED_WRITERS = {
    'externals': {'Story::new', 'Story::bind_external_function', 'Story::unbind_external_function'},
    'variable_observers': {'Story::new', 'Story::observe_variable', 'Story::remove_variable_observer'},
    'on_error': {'Story::new', 'Story::set_error_handler'},
    'allow_external_function_fallbacks': {'Story::new', 'Story::set_allow_external_function_fallbacks'},
    'has_validated_externals': {'Story::new', 'Story::validate_external_bindings', 'Story::unbind_external_function',
                                'Story::set_allow_external_function_fallbacks'},
    'temporary_evaluation_container': {'Story::new'},
    'async_saving': {'Story::new'},
}


def direct_writers(prog, field, eff):
    """Root functions containing a direct write event (assignment / std mutator / interior mutation / aggregate
    construction) on Story::<field>."""
    out = {}
    target = 'Story::' + field
    for fn in prog.fns.values():
        if fn.crate != 'bladeink':
            continue
        for e in eff.events(fn):
            if e['kind'] != 'repo-call' and target in e['fields']:
                # the *leaf* must be this field (a write to self.state.x also passes through Story::state)
                leaf_ok = True
                if e['kind'] == 'assign':
                    pl = fn.blocks[e['bb']]['st'][e['si']]['pl']
                    pes = [pe for pe in pl.get('p', []) if pe['k'] == 'field' and 'adt' in pe]
                    leaf_ok = bool(pes) and tyname(pes[0]['adt']) == 'Story' and pes[0].get('n') == field and len(pes) == 1
                else:
                    others = [f for f in e['fields'] if not f.startswith('Story::')]
                    leaf_ok = not others
                if leaf_ok:
                    out.setdefault(prog.root_fn(fn).short, fn.loc(e['bb'], e.get('si')))
        for bb, si, s in fn.stmts():
            if s['k'] == 'assign':
                rv = s['rv']
                if rv['k'] == 'agg' and rv.get('ak') == 'adt' and tyname(rv['adt']) == 'Story' \
                        and field in rv.get('fields', []):
                    out.setdefault(prog.root_fn(fn).short, fn.loc(bb, si))
    return out


def run(chk, prog):
    tr = Tracer(prog)
    eff = Effects(prog, tracer=tr)
    chk.not_decided += ['"same seed": the seed is drawn from rand::rng() in StoryState::new and has no setter',
                        'lock-step equality of all continuations of a reset story and a fresh one (dynamic)']
    RA = 'C17.reset-like-new'
    chk.rule(RA, 'reset_state assigns Story::state as a whole from StoryState::new(program, list definitions) and then '
             'runs reset_globals - the same two steps, in the same order, as Story::new.')
    RB = 'C17.every-field-classified'
    chk.rule(RB, 'Every field of Story is in exactly one class (replaced / program / must-persist / neutral at every '
             'host-call boundary / constant / scratch); must-persist and constant fields are written only by their '
             'allowed writers (never by reset_state or load_state); each neutral field has its neutrality rule.')
    RC = 'C17.path-jump-reset'
    chk.rule(RC, 'choose_path_string(reset_call_stack = true) passes force_end (CallStack::reset) before '
             'set_chosen_path; force_end does not write variables_state, visit_counts or turn_indices.')

    # ---- (a)
    rs, new = prog.fn('Story::reset_state'), prog.fn('Story::new')
    if chk.anchor(RA, 'Story::reset_state', rs) and chk.anchor(RA, 'Story::new', new):
        def steps(fn):
            g = cfg(fn)
            sn = [bb for bb, t in fn.calls() if callee_short(t) == 'StoryState::new']
            rg = [bb for bb, t in fn.calls() if callee_short(t) == 'Story::reset_globals']
            return g, sn, rg
        for fn in (rs, new):
            g, sn, rg = steps(fn)
            ok = bool(sn) and bool(rg) and all(g.dominates(sn[0], r) for r in rg)
            # on every Ok path reset_globals runs
            from analysis.wbf import err_exits
            errs = [bb for bb, d, s in err_exits(prog, fn)]
            w = g.path(g.succ[sn[0]] if sn else [0], lambda b: b in g.returns, avoid=rg + errs) if sn else [0]
            chk.decide(RA, chk.key(RA, fn.short, 'new-then-globals'), ok and w is None,
                       'StoryState::new(..) then reset_globals on every successful path',
                       '%s does not build a fresh StoryState and then run reset_globals on every successful path'
                       % fn.short, fn.loc(0))
        # whole-state replacement in reset_state
        whole = False
        for bb, si, s in rs.stmts():
            if s['k'] == 'assign':
                pes = [pe for pe in s['pl'].get('p', []) if pe['k'] == 'field']
                if len(pes) == 1 and pes[0].get('n') == 'state' and s['rv']['k'] == 'use' \
                        and 'call:StoryState::new' in tr.prov(rs, s['rv']['op']):
                    whole = True
        chk.decide(RA, chk.key(RA, 'Story::reset_state', 'whole-state'), whole,
                   'Story::state is replaced as a whole', 'reset_state updates the state field-wise instead of replacing '
                   'it: residue of the old state can survive', rs.loc(0))
        # nothing of the old state is written back into the fresh one
        fieldwise = []
        for bb, si, st in rs.stmts():
            if st['k'] == 'assign':
                pes = [pe for pe in st['pl'].get('p', []) if pe['k'] == 'field' and 'adt' in pe]
                if len(pes) >= 2 and tyname(pes[0]['adt']) == 'Story' and pes[0].get('n') == 'state':
                    fieldwise.append((rs.loc(bb, si), '.'.join(pe.get('n', '?') for pe in pes)))
        for e in eff.events(rs):
            if e['kind'] in ('mutator', 'interior') and any(f.startswith('StoryState::') for f in e['fields']):
                fieldwise.append((rs.loc(e['bb']), e['what']))
        chk.decide(RA, chk.key(RA, 'Story::reset_state', 'no-fieldwise-restore'), not fieldwise,
                   'reset_state writes no individual field of the fresh state',
                   'reset_state writes individual fields of the state besides replacing it (%s): whatever it carries '
                   'over from the old history makes the reset story differ from a freshly constructed one'
                   % [w for _, w in fieldwise][:3], fieldwise[0][0] if fieldwise else None)
        # same constructor arguments as Story::new (program + list definitions)
        for fn in (rs, new):
            for bb, t in fn.calls():
                if callee_short(t) == 'StoryState::new':
                    a0, a1 = tr.prov(fn, t['args'][0]), tr.prov(fn, t['args'][1])
                    okargs = any('main_content_container' in a for a in a0) and any('list_definitions' in a for a in a1)
                    if fn.short == 'Story::new':
                        # the constructor builds it from what the loader returned (and stores the same in its fields)
                        okargs = any('load_from_string' in a for a in a0) and any('load_from_string' in a for a in a1)
                    chk.decide(RA, chk.key(RA, fn.short, 'ctor-args'), okargs,
                               'the fresh state is built from the program and its list definitions',
                               '%s builds the fresh state from something else than the program (%s / %s)'
                               % (fn.short, sorted(a0)[:3], sorted(a1)[:3]), fn.loc(bb))

    # ---- (b)
    story = prog.adts.get('bladeink::story::Story')
    if chk.anchor(RB, 'struct Story', story):
        fields = [f['n'] for f in story['variants'][0]['fields']]
        chk.floor(RB, 'fields of Story', len(fields), 15)
        loc = '%s:%s' % (story['sp']['f'], story['sp']['l'])
        for n in fields:
            key = chk.key(RB, 'Story', n)
            if n not in CLASS:
                chk.fail(RB, key, 'field Story::%s is not classified: what does reset_state do to it? (replaced / '
                         'must persist / neutral at boundaries?)' % n, loc)
                continue
            cls, reason = CLASS[n]
            if n in ALLOWED_WRITERS:
                wr = direct_writers(prog, n, eff)
                extra = sorted(set(wr) - ALLOWED_WRITERS[n])
                chk.decide(RB, key, not extra, '%s: %s; writers %s' % (cls, reason, sorted(wr)),
                           'Story::%s (%s) is written by %s, outside its allowed writers %s: it would not survive / '
                           'stay constant across reset or load' % (n, cls, extra, sorted(ALLOWED_WRITERS[n])),
                           wr[extra[0]] if extra else loc)
            else:
                chk.ok(RB, key, '%s: %s' % (cls, reason), loc)
        for n in CLASS:
            if n not in fields:
                chk.note('C17 class table entry is stale: Story::' + n)
    neutral_rules(chk, prog, tr, eff, RB)
    scratch_rules(chk, prog, tr, RB)
    no_in_place_mutation_of_shared_values(chk, prog, tr)
    check_count_pairing(chk, prog, tr, RB)

    # ---- (c)
    cps = prog.fn('Story::choose_path_string')
    fe = prog.fn('StoryState::force_end')
    if chk.anchor(RC, 'Story::choose_path_string', cps) and chk.anchor(RC, 'StoryState::force_end', fe):
        g = cfg(cps)
        rc = [bb for bb, t in cps.calls() if callee_short(t) == 'Story::reset_callstack']
        cp = [bb for bb, t in cps.calls() if callee_short(t) == 'Story::choose_path']
        ok = bool(rc) and bool(cp)

        def atom(desc):
            return 'reset' if desc == ('arg', 3) else None
        gf = GuardFlow(prog, cps, atom, tracer=tr)
        gf.run()
        # with reset = true every path to choose_path passes reset_callstack
        bad = False
        if ok:
            seen = set()
            stack = [(0, fs) for fs in gf.states.get(0, ())]
            while stack:
                b, fs = stack.pop()
                if (b, fs) in seen:
                    continue
                seen.add((b, fs))
                if b in cp and dict(fs).get('reset') is not False:
                    bad = True
                    break
                if b in rc:
                    continue
                loc_ = dict(fs)
                gf._apply_stmts(b, loc_)
                for succ, ns in gf._out_edges(b, loc_):
                    if ns.get('reset') is False:
                        continue
                    stack.append((succ, frozenset(ns.items())))
        chk.decide(RC, chk.key(RC, 'reset-before-jump'), ok and not bad,
                   'with reset_call_stack = true the call stack is reset before the jump',
                   'choose_path_string(.., true, ..) can reach choose_path without reset_callstack', cps.loc(0))
        rcs = prog.fn('Story::reset_callstack')
        okfe = rcs is not None and any(callee_short(t) == 'StoryState::force_end' for g_ in prog.with_closures(rcs)
                                       for _, t in g_.calls()) and any(
            callee_short(t) == 'CallStack::reset' for _, t in fe.calls())
        # ... on EVERY successful path of reset_callstack (a story resting at `-> DONE` inside a tunnel has a null pointer
        # and no choices, yet its tunnel frames are still on the call stack)
        if rcs is not None:
            from analysis.wbf import err_exits as _ee17
            g_r = cfg(rcs)
            fes = [bb for bb, t in rcs.calls() if callee_short(t) == 'StoryState::force_end']
            errs_ = [b for b, d_, s_ in _ee17(prog, rcs)]
            # `refusal().map(|()| force_end())` returned as the result: the closure runs exactly when the result is Ok
            if any(a in ('call:Result::map', 'via:Result::map', 'call:Result::and_then', 'via:Result::and_then')
                   for a in tr.prov_local(rcs, 0)):
                for bb, t in rcs.calls():
                    if callee_short(t) in ('Result::map', 'Result::and_then') and any(
                            callee_short(t2) == 'StoryState::force_end'
                            for cl in (t['f'].get('closures') or []) if cl in prog.fns
                            for g_ in prog.with_closures(prog.fns[cl]) for _, t2 in g_.calls()):
                        fes.append(bb)
            w_ = g_r.path([0], lambda b: b in g_r.returns, avoid=fes + errs_)
            chk.decide(RC, chk.key(RC, 'reset_callstack-always-ends'), bool(fes) and w_ is None,
                       'every successful path of reset_callstack passes force_end',
                       'reset_callstack can return Ok without force_end: a jump with reset_call_stack = true then keeps '
                       'whatever frames the story had (for instance a tunnel it was resting in at `-> DONE`), and a later '
                       '`->->` returns into the abandoned caller', rcs.loc(0), {'witness_blocks': w_})
        chk.decide(RC, chk.key(RC, 'force_end-resets-callstack'), okfe,
                   'reset_callstack -> force_end -> CallStack::reset', 'the call stack is no longer reset by '
                   'reset_callstack/force_end', fe.loc(0))
        w = eff.may_write(fe)
        keep = {'StoryState::variables_state', 'StoryState::visit_counts', 'StoryState::turn_indices',
                'VariablesState::global_variables', 'StoryState::current_turn_index', 'StoryState::story_seed'}
        bad_w = sorted(w & keep)
        chk.decide(RC, chk.key(RC, 'force_end-keeps-variables-and-counts'), not bad_w,
                   'force_end writes only %s' % sorted(w), 'force_end writes %s: a path jump with call-stack reset must '
                   'keep variables and counts' % bad_w, fe.loc(0))


def neutral_rules(chk, prog, tr, eff, RB):
    ci = prog.fn('Story::continue_internal')
    if not chk.anchor(RB, 'Story::continue_internal', ci):
        return
    g = cfg(ci)
    # saw_lookahead_unsafe_function_after_new_line = false dominates the interpreter loop
    loops = g.loops_heads()
    main = None
    for h, tails in loops.items():
        body = g.loop_body(h, tails)
        if any(ci.blocks[b]['term'] and ci.blocks[b]['term']['k'] == 'call'
               and callee_short(ci.blocks[b]['term']) == 'Story::continue_single_step' for b in body):
            main = (h, body)
    asg = [bb for bb, si, s in ci.stmts() if s['k'] == 'assign'
           and field_leaf(s['pl']) == 'saw_lookahead_unsafe_function_after_new_line'
           and s['rv']['k'] == 'use' and s['rv']['op'].get('bool') is False]
    chk.decide(RB, chk.key(RB, 'neutral', 'saw_lookahead_unsafe_function_after_new_line'),
               main is not None and any(g.dominates(a, main[0]) for a in asg),
               'assigned false before the interpreter loop of every continue',
               'saw_lookahead_unsafe_function_after_new_line is not cleared before the interpreter loop: a stale abort '
               'request would survive into the next continue / a reset story', ci.loc(asg[0]) if asg else ci.loc(0))

    gf = snapshot_flow(prog, tr, eff, ci)
    paused, done = [], []
    for r in g.returns:
        for st in gf.states.get(r, ()):
            d = dict(st)
            # a "paused" exit is one that left the loop with nl = F and cc = T at the completion test
            done.append(d)
    # exits with a pending snapshot must have async = T
    bad = [d for d in done if d.get('snap') is not False and d.get('async') is not True and d.get('W:async') is None]
    # after the completion block async is assigned false: those exits carry W:async; require snap False there
    bad2 = [d for d in done if d.get('W:async') and d.get('async') is False and d.get('snap') is not False
            and d.get('entry:async') is not None]
    # early rejection exit: nothing touched
    chk.decide(RB, chk.key(RB, 'neutral', 'state_snapshot_at_last_new_line'), not bad2,
               'every exit that completes the line (async_continue_active assigned false) leaves no snapshot pending',
               'continue_internal can finish a line (async_continue_active = false) with a look-ahead snapshot still '
               'pending (%s): reset_state / the next continue would start from a state that is neither rewound nor '
               'committed' % [{k: v for k, v in d.items() if k in ('snap', 'async', 'nl', 'cc')} for d in bad2][:2],
               ci.loc(0))
    rs = prog.fn('Story::reset_state')
    if rs is not None:
        guarded = any(callee_short(t) == 'Story::if_async_we_cant' for _, t in rs.calls())
        chk.decide(RB, chk.key(RB, 'neutral', 'async_continue_active'), guarded,
                   'reset_state is refused while a time-limited continue is unfinished (rule C08 decides dominance)',
                   'reset_state is not guarded by if_async_we_cant: it could run with async_continue_active set and a '
                   'snapshot pending', rs.loc(0))


def snapshot_flow(prog, tr, eff, ci):
    def atom_of(desc):
        if desc[0] == 'is_some' and 'field:Story::state_snapshot_at_last_new_line' in desc[1]:
            return 'snap'
        if desc == ('field', 'Story::async_continue_active'):
            return 'async'
        if desc[0] == 'call' and desc[1] == 'Story::can_continue':
            return 'cc'
        return None

    def kills(fn, bb, x):
        if x.get('k') == 'call':
            cs = callee_short(x)
            if cs in ('Story::restore_state_snapshot', 'Story::discard_snapshot'):
                return {'snap': False, 'cc': None}
            if cs == 'Story::state_snapshot':
                return {'snap': True}
            if cs in ('Story::can_continue', 'StoryState::can_continue'):
                return None
            if cs == 'Story::add_error' and 'const:false' in tr.prov(fn, x['args'][2]):
                # an error force-ends the story and can_continue() tests has_error (both decided by rule C13.error-stops-story)
                return {'cc': False}
            h = prog.fns.get(callee(x))
            if h is not None and eff.may_write(h):
                return {'cc': None, 'snap': None} if cs in ('Story::continue_single_step',) else {'cc': None}
        elif x.get('k') == 'assign' and field_leaf(x['pl']) == 'state_snapshot_at_last_new_line':
            return {'snap': False if (x['rv']['k'] == 'agg' and x['rv'].get('var') == 'None') else None}
        return None
    gf = GuardFlow(prog, ci, atom_of, tracer=tr, kills=kills)
    gf.run()
    return gf


def scratch_rules(chk, prog, tr, RB):
    """A 'scratch' field of Story carries nothing from one use to the next: in every function that reads it, each read
    is preceded by a clear of it on every path from the function's entry (the table reason, re-validated)."""
    for fld, (cls, _) in CLASS.items():
        if cls != 'scratch':
            continue
        want = 'field:Story::' + fld
        n = 0
        for fn in sorted(prog.fns.values(), key=lambda f: f.p):
            if fn.crate != 'bladeink' or fn.parent:
                continue
            reads, clears = [], []
            for bb, t in fn.calls():
                if not t['args']:
                    continue
                cs = callee_short(t)
                if want in tr.prov(fn, t['args'][0]):
                    if cs.rsplit('::', 1)[-1] in ('clear', 'truncate', 'drain'):
                        clears.append(bb)
                    elif cs.rsplit('::', 1)[-1] in ('contains', 'iter', 'get', 'len', 'is_empty', 'first', 'last', 'index',
                                                    'into_iter', 'binary_search', 'starts_with', 'ends_with'):
                        reads.append(bb)
            if not reads:
                continue
            n += 1
            g = cfg(fn)
            w = g.path([0], lambda b: b in reads, avoid=clears)
            chk.decide(RB, chk.key(RB, 'scratch', fld, fn.short), bool(clears) and w is None,
                       'cleared on every path before it is read',
                       '%s reads the scratch buffer Story::%s on a path on which it has not cleared it: what the previous '
                       'use left there (also across reset_state, which does not touch it) leaks into this one'
                       % (fn.short, fld), fn.loc(reads[0]), {'witness_blocks': w})
        chk.floor(RB, 'functions reading the scratch field ' + fld, n, 1)


def no_in_place_mutation_of_shared_values(chk, prog, tr):
    RD_ = 'C17.shared-values-are-not-written-in-place'
    chk.rule(RD_, 'The story content survives reset_state, and values are shared by reference between the content, the '
             'default globals, the globals and the evaluation stack. The interior write of a list value that is kept (its '
             'initial origin names) is applied only to a list the writing function has just created or copied (InkList::new '
             '/ clone), never to one it received: a write into a received value reaches the content literal or another '
             'variable\'s default and outlives the reset.')
    n = 0
    for fn in sorted(prog.fns.values(), key=lambda f: f.p):
        if fn.crate != 'bladeink':
            continue
        for bb, t in fn.calls():
            if callee_short(t) != 'InkList::set_initial_origin_names' or not t['args']:
                continue
            n += 1
            at = tr.prov(fn, t['args'][0])
            fresh = any(a in ('call:InkList::new', 'via:<InkList as Clone>::clone', 'call:<InkList as Clone>::clone',
                              'via:InkList::new') for a in at)
            chk.decide(RD_, chk.key(RD_, prog.root_fn(fn).short, '#%d' % n), fresh,
                       'written into a list created or copied here',
                       '%s writes the initial origin names into a list value it did not create (%s): the value may be the '
                       'content literal or a default shared with other variables, and the write survives reset_state'
                       % (prog.root_fn(fn).short, sorted(a for a in at if not a.startswith('via:'))[:4]), fn.loc(bb))
    chk.floor(RD_, 'writes of initial origin names', n, 3)
