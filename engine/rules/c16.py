"""C16 — evaluating an Ink function from the host does not disturb the story (save/restore pairing, refusals, return channel)."""
from analysis.facts import callee, callee_short
from analysis.cfg import cfg
from analysis.guards import resolve_cond
from analysis.defuse import Tracer
from analysis.wbf import WriteBeforeFail, err_exits, path_evading, precede_on_every_path
from rules.c09 import EXIT_TABLE


def _flag_known(prog, fn, w, tr):
    """validate_external_bindings sits under `if !has_validated_externals`: the join after it dominates w."""
    # "dominates" = lies on every path to w (path_evading: in a function that absorbed a helper, on every path that
    # agrees with the Ok/Err of the helper's result)
    for b, tt in fn.terms():
        if tt['k'] == 'switch' and b != w and path_evading(prog, fn, w, [b], tr) is None:
            c = resolve_cond(prog, fn, tt['d'], tr)
            if c is not None and c.desc[0] == 'field' and c.desc[1] == 'Story::has_validated_externals':
                # the not-yet-validated side must call validate_external_bindings before reaching w
                vb = [bb for bb, t in fn.calls() if callee_short(t) == 'Story::validate_external_bindings']
                for v, tb in tt['ts'] + [(None, tt['else'])]:
                    truth = c.truth_of_value(v) if v is not None else (not c.truth_of_value(tt['ts'][0][0]))
                    if truth is False and path_evading(prog, fn, w, vb, tr, via=tb) is not None:
                        return False
                return True
    return False


def run(chk, prog):
    tr = Tracer(prog)
    chk.not_decided += ['transparency for every later continuation (dynamic lock-step comparison)',
                        'that repeated evaluation of a pure function returns the same value']
    RA = 'C16.output-saved-and-restored'
    chk.rule(RA, 'In evaluate_function the pending output stream is cloned before reset_output(None), and from the call '
             'of start_function_evaluation_from_game every path to a return passes reset_output(Some(saved)) and '
             'complete_function_evaluation_from_game - except the `cont()?` exit (a story fault inside the function) and the exit of the frame push itself (cannot fail: arguments are pre-validated, rule C16.refusals-change-nothing).')
    RB = 'C16.refusals-change-nothing'
    chk.rule(RB, 'Every error exit of evaluate_function that can follow a semantic write is a story fault or is '
             'pre-validated (C09 write-before-fail applied to evaluate_function and its helpers).')
    RC = 'C16.return-channel'
    chk.rule(RC, 'complete_function_evaluation_from_game checks the frame type, pops the evaluation stack down to '
             'evaluation_stack_height_when_pushed and pops a FunctionEvaluationFromGame frame on every Ok path.')

    RD = 'C16.no-fallback-follow-during-host-evaluation'
    chk.rule(RD, 'In continue_single_step, try_follow_default_invisible_choice is reached only when the current frame is '
             'not the host-evaluation frame (element_is_evaluate_from_game() = false): when the host-evaluated function '
             'ends, the main flow\'s pending fallback choice must not be followed from inside evaluate_function.')
    css = prog.fn('Story::continue_single_step')
    if chk.anchor(RD, 'Story::continue_single_step', css):
        from analysis.guards import GuardFlow

        def atom_of(desc):
            if desc[0] == 'call' and desc[1] == 'CallStack::element_is_evaluate_from_game':
                return 'hosteval'
            return None
        gfd = GuardFlow(prog, css, atom_of, tracer=tr)
        gfd.run()
        tf = [bb for bb, t in css.calls() if callee_short(t) == 'Story::try_follow_default_invisible_choice']
        if chk.anchor(RD, 'call of try_follow_default_invisible_choice', tf):
            vs = [v for b in tf for v in gfd.valuations_at(b, ['hosteval'])]
            chk.decide(RD, chk.key(RD, 'continue_single_step'), bool(vs) and all(v['hosteval'] is False for v in vs),
                       'the fallback choice is followed only outside host function evaluation',
                       'try_follow_default_invisible_choice can run while the host-evaluation frame is current '
                       '(valuations %s): a pending fallback choice of the main flow is taken from inside '
                       'evaluate_function, replacing the call stack' % vs, css.loc(tf[0]))

    ef = prog.fn('Story::evaluate_function')
    if not chk.anchor(RA, 'Story::evaluate_function', ef):
        return
    g = cfg(ef)
    start = [bb for bb, t in ef.calls() if callee_short(t) == 'StoryState::start_function_evaluation_from_game']
    resets = [(bb, t) for bb, t in ef.calls() if callee_short(t) == 'StoryState::reset_output']
    complete = [bb for bb, t in ef.calls() if callee_short(t) == 'StoryState::complete_function_evaluation_from_game']
    if not (chk.anchor(RA, 'call start_function_evaluation_from_game', start)
            and chk.anchor(RA, 'two calls of reset_output', len(resets) >= 2)
            and chk.anchor(RA, 'call complete_function_evaluation_from_game', complete)):
        return
    clear = [bb for bb, t in resets if 'agg:Option::None' in tr.prov(ef, t['args'][1])]
    restore = [(bb, t) for bb, t in resets if 'agg:Option::Some' in tr.prov(ef, t['args'][1])]
    chk.anchor(RA, 'reset_output(None)', clear)
    if chk.anchor(RA, 'reset_output(Some(..))', restore):
        rb, rt = restore[0]
        atoms = tr.prov(ef, rt['args'][1])
        saved_ok = any('get_output_stream' in a for a in atoms) and any('Clone' in a for a in atoms)
        chk.decide(RA, chk.key(RA, 'restored-value'), saved_ok,
                   'the restored value is the clone of the output stream taken before',
                   'reset_output(Some(x)): x is not the saved clone of get_output_stream() (provenance %s)'
                   % sorted(atoms)[:6], ef.loc(rb))
        # the clone is taken before the clearing reset
        clone_blocks = [bb for bb, t in ef.calls() if callee_short(t) == '<Vec as Clone>::clone'
                        and any('get_output_stream' in a for a in tr.prov(ef, t['args'][0]))]
        ok_order = bool(clone_blocks) and bool(clear) and all(g.dominates(c, clear[0]) for c in clone_blocks[:1])
        chk.decide(RA, chk.key(RA, 'saved-before-clear'), ok_order, 'the stream is cloned before it is cleared',
                   'the output stream is cleared before (or without) being saved', ef.loc(clear[0]) if clear else None)
        # pairing: from start to return passes restore and complete, except the cont()? exit
        story_fault_exits = [bb for bb, desc, src in err_exits(prog, ef)
                             if desc in ('?Story::cont', '?StoryState::start_function_evaluation_from_game')]
        w1 = g.path(g.succ[start[0]], lambda b: b in g.returns, avoid=[rb] + story_fault_exits)
        w2 = g.path(g.succ[start[0]], lambda b: b in g.returns, avoid=complete + story_fault_exits)
        chk.decide(RA, chk.key(RA, 'restore-on-every-path'), w1 is None,
                   'every non-fault path from the frame push to a return restores the saved output',
                   'a path from start_function_evaluation_from_game to a return skips reset_output(Some(saved)): the '
                   'pending line of the main story is lost', ef.loc(rb), {'witness_blocks': w1})
        chk.decide(RA, chk.key(RA, 'complete-on-every-path'), w2 is None,
                   'every non-fault path pops the host frame through complete_function_evaluation_from_game',
                   'a path from start_function_evaluation_from_game to a return skips '
                   'complete_function_evaluation_from_game: the host frame stays on the call stack', ef.loc(complete[0]),
                   {'witness_blocks': w2})

    # ---- (a2) nothing else of the story is touched
    RE = 'C16.only-paired-state-changes'
    chk.rule(RE, 'Apart from running the function (cont), evaluate_function changes story state only through the paired '
             'steps - reset_output(None)/reset_output(Some(saved)) and start_/complete_function_evaluation_from_game '
             '(one frame pushed, the same frame popped): no other callee with a write effect on the story state '
             '(call stack, threads, flows, variables, counts) and no direct write.')
    from analysis.effects import Effects
    from analysis.wbf import CACHE_FIELDS
    eff = Effects(prog, cache_fields=CACHE_FIELDS, tracer=tr)
    PAIRED = {'StoryState::reset_output', 'StoryState::start_function_evaluation_from_game', 'Story::cont',
              'StoryState::complete_function_evaluation_from_game', 'StoryState::set_previous_pointer',
              'Story::validate_external_bindings'}
    # set_previous_pointer is a restore: its value is the pointer read before the frame was pushed
    spp = [(bb, t) for bb, t in ef.calls() if callee_short(t) == 'StoryState::set_previous_pointer']
    gpp = [bb for bb, t in ef.calls() if callee_short(t) == 'StoryState::get_previous_pointer']
    if chk.anchor(RE, 'restore of the previous pointer in evaluate_function', spp):
        for i, (bb, t) in enumerate(spp):
            at = tr.prov(ef, t['args'][1])
            ok = any('StoryState::get_previous_pointer' in a for a in at) and bool(gpp) and bool(start) \
                and all(g.dominates(x, start[0]) for x in gpp) and all(g.dominates(c, bb) for c in complete)
            chk.decide(RE, chk.key(RE, 'previous-pointer-restored', '#%d' % i), ok,
                       'the previous pointer written after the frame was popped is the one read before it was pushed',
                       'evaluate_function writes a previous pointer that is not the one it saved before pushing the '
                       'frame (provenance %s), or not after the frame was popped: the main story\'s next divert counts '
                       'visits from inside the function' % sorted(a for a in at if not a.startswith('via:'))[:4],
                       ef.loc(bb))
    # the bindings are validated while nothing is changed (the nested continue would do it after the push)
    veb = [bb for bb, t in ef.calls() if callee_short(t) == 'Story::validate_external_bindings']
    first_w = [e['bb'] for e in eff.events(ef) if e['kind'] == 'repo-call' and prog.fns.get(e['callee']) is not None
               and prog.fns[e['callee']].short in ('StoryState::reset_output',
                                                   'StoryState::start_function_evaluation_from_game')]
    chk.decide(RE, chk.key(RE, 'bindings-validated-first'), bool(veb) and all(
        precede_on_every_path(prog, ef, veb, w, tr) or _flag_known(prog, ef, w, tr) for w in first_w),
        'the external bindings are validated (or known to be) before the first change',
        'evaluate_function no longer validates the external bindings before pushing its frame: with an unbound '
        'EXTERNAL the nested continue fails afterwards and the frame stays on the main story\'s call stack',
        ef.loc(first_w[0]) if first_w else ef.loc(0))
    # ... and a story with an undelivered error is refused
    he = [bb for bb, t in ef.calls() if callee_short(t) == 'StoryState::has_error']
    chk.decide(RE, chk.key(RE, 'pending-error-refused'), bool(he) and all(precede_on_every_path(prog, ef, he, w, tr)
                                                                           for w in first_w),
               'has_error() is tested before the first change',
               'evaluate_function does not test has_error() before it starts: with an undelivered error the function '
               'never runs (can_continue is false) and the last argument comes back as the result',
               ef.loc(first_w[0]) if first_w else ef.loc(0))
    extra = []
    for gfn in prog.with_closures(ef):
        for e in eff.events(gfn):
            if e['kind'] == 'repo-call':
                h = prog.fns.get(e['callee'])
                w = eff.summaries()[h.p][0] - CACHE_FIELDS if h is not None else set()
                if w and h.short not in PAIRED:
                    extra.append((gfn.loc(e['bb']), 'call ' + h.short, sorted(w)[:4]))
            elif e['fields'] - CACHE_FIELDS:
                extra.append((gfn.loc(e['bb']), e['what'], sorted(e['fields'])[:4]))
    chk.decide(RE, chk.key(RE, 'Story::evaluate_function'), not extra,
               'the only state-changing steps are the two paired ones and the run itself',
               'evaluate_function also changes the story through %s: a change outside the paired save/restore and '
               'push/pop steps is visible to the main story afterwards' % '; '.join('%s (%s)' % (x[1], ', '.join(x[2]))
                                                                                     for x in extra[:3]),
               extra[0][0] if extra else ef.loc(0))

    # ---- (b)
    wbf = WriteBeforeFail(prog, tr)
    seen = set()
    work = [ef]
    n = 0
    while work:
        f = work.pop()
        if f.p in seen:
            continue
        seen.add(f.p)
        for r in wbf.analyse(f):
            if r['src']:
                h = prog.fns.get(callee(r['src'][1]))
                if h is not None and h.short not in ('Story::cont', 'Story::continue_internal'):
                    work.append(h)
            if not r['writes']:
                continue
            n += 1
            ent = EXIT_TABLE.get((f.short, r['exit']))
            key = chk.key(RB, f.short, r['exit'])
            if ent is None:
                chk.fail(RB, key, '%s can fail with %s after the story was already changed' % (f.short, r['exit']),
                         f.loc(r['exit_block']))
            elif ent[0] == 'prevalidated':
                vb = [bb for bb, t in f.calls() if callee_short(t) in ent[2]]
                okv = bool(vb) and all(precede_on_every_path(prog, f, vb, b, tr) for b, _ in r['writes'])
                chk.decide(RB, key, okv, 'pre-validated (re-validated): ' + ent[1],
                           '%s no longer validates (%s) before its first write' % (f.short, ent[2]), f.loc(r['exit_block']))
            else:
                chk.ok(RB, key, 'table (%s): %s' % (ent[0], ent[1]), f.loc(r['exit_block']))
    chk.floor(RB, 'error exits after writes in evaluate_function and helpers', n, 2)
    # unknown / empty names are rejected before anything
    early = [(bb, desc) for bb, desc, src in err_exits(prog, ef) if src is None]
    chk.decide(RB, chk.key(RB, 'name-rejections'), len(early) >= 2 and all(
        not any(bb in g.reachable([w]) for w in wbf.write_blocks(ef)) for bb, _ in early),
        'the empty-name and unknown-function rejections precede every write',
        'evaluate_function no longer rejects empty / unknown names before changing the story', ef.loc(0))

    # ---- (c)
    cf = prog.fn('StoryState::complete_function_evaluation_from_game')
    if chk.anchor(RC, 'StoryState::complete_function_evaluation_from_game', cf):
        gc = cfg(cf)
        pops = [bb for bb, t in cf.calls() if callee_short(t) == 'CallStack::pop']
        popev = [bb for bb, t in cf.calls() if callee_short(t) == 'StoryState::pop_evaluation_stack']
        reads_height = any(pe.get('n') == 'evaluation_stack_height_when_pushed'
                           for _, _, s in cf.stmts() if s['k'] == 'assign'
                           for pl in ([s['rv'].get('pl')] if 'pl' in s['rv'] else []) +
                           ([s['rv']['op']['pl']] if isinstance(s['rv'].get('op'), dict) and s['rv']['op'].get('k') in ('copy', 'move') else [])
                           for pe in (pl or {}).get('p', []) if pe['k'] == 'field')
        pop_typed = False
        for bb in pops:
            t = cf.blocks[bb]['term']
            if any('PushPopType::FunctionEvaluationFromGame' in a for a in tr.prov(cf, t['args'][1])):
                pop_typed = True
        okp = bool(pops) and gc.path([0], lambda b: b in gc.returns and _returns_ok(cf, b), avoid=pops) is None
        chk.decide(RC, chk.key(RC, 'height-read'), reads_height and bool(popev),
                   'pops the evaluation stack down to the recorded height',
                   'complete_function_evaluation_from_game no longer uses evaluation_stack_height_when_pushed', cf.loc(0))
        # the recorded height belongs to the host frame: it is read while that frame is still the current one
        hreads = [bb for bb, si, s_ in cf.stmts() if s_['k'] == 'assign'
                  for pl in ([s_['rv'].get('pl')] if 'pl' in s_['rv'] else []) +
                  ([s_['rv']['op']['pl']] if isinstance(s_['rv'].get('op'), dict) and s_['rv']['op'].get('k') in ('copy', 'move') else [])
                  if any(pe['k'] == 'field' and pe.get('n') == 'evaluation_stack_height_when_pushed'
                         for pe in (pl or {}).get('p', []))]
        after_pop = gc.reachable([x for p_ in pops for x in gc.succ[p_]])
        chk.decide(RC, chk.key(RC, 'height-read-from-the-host-frame'), bool(hreads) and not any(h in after_pop for h in hreads),
                   'the height is read before the host frame is popped',
                   'complete_function_evaluation_from_game reads evaluation_stack_height_when_pushed after it has popped '
                   'the host frame: the height of the frame underneath (0) is used and the main story\'s pending operands '
                   'are thrown away with the function\'s', cf.loc(hreads[0]) if hreads else cf.loc(0))
        # ... and the evaluation stack is cut back before the frame goes
        chk.decide(RC, chk.key(RC, 'stack-cut-back-before-the-pop'), bool(popev) and not any(b in after_pop for b in popev),
                   'the evaluation stack is cut back while the host frame is still current',
                   'the evaluation stack is cut back after the host frame was popped', cf.loc(popev[0]) if popev else cf.loc(0))
        chk.decide(RC, chk.key(RC, 'typed-pop'), pop_typed,
                   'pops a frame of type FunctionEvaluationFromGame',
                   'the frame popped is not required to be the host-evaluation frame', cf.loc(pops[0]) if pops else None)
        first_err = [bb for bb, desc, src in err_exits(prog, cf) if src is None]
        chk.decide(RC, chk.key(RC, 'frame-type-checked'), bool(first_err),
                   'returns an error when the current frame is not the host-evaluation frame',
                   'the frame-type check is gone', cf.loc(0))
    thread_pops_respect_the_host_frame(chk, prog)


def _returns_ok(fn, b):
    return True


TRIVIAL_AFTER_TEST = ('get_state', 'get_state_mut', 'get_callstack', 'borrow', 'borrow_mut', 'deref', 'deref_mut', 'as_ref',
                      'clone', 'drop', 'len', 'is_empty')


def _true_successor(fn, bb, t):
    """Block entered when the boolean result of call `t` (in block bb) is true, or None when it is not branched on."""
    d = t['dest'].get('l') if 'p' not in t['dest'] else None
    b = t.get('t')
    neg = False
    names = {d}
    for _ in range(6):
        if b is None:
            return None
        blk = fn.blocks[b]
        for s in blk['st']:
            if s['k'] == 'assign' and 'p' not in s['pl']:
                rv = s['rv']
                if rv['k'] == 'use' and rv['op'].get('k') in ('copy', 'move') and rv['op']['pl'].get('l') in names \
                        and 'p' not in rv['op']['pl']:
                    names.add(s['pl']['l'])
                elif rv['k'] == 'unop' and rv['op'] == 'Not' and rv['a'].get('k') in ('copy', 'move') \
                        and rv['a']['pl'].get('l') in names:
                    names.add(s['pl']['l'])
                    neg = not neg
        tm = blk['term']
        if tm and tm['k'] == 'switch' and tm['d'].get('k') in ('copy', 'move') and tm['d']['pl'].get('l') in names:
            zero = [x for v, x in tm['ts'] if v == 0]
            if not zero:
                return None
            return zero[0] if neg else tm['else']
        if tm and tm['k'] in ('goto', 'drop') and 't' in tm:
            b = tm['t']
            continue
        return None
    return None


def thread_pops_respect_the_host_frame(chk, prog):
    RT = 'C16.thread-pops-respect-the-host-frame'
    chk.rule(RT, 'While the frame of a function evaluated from the host is on top of the call stack, "a thread can be '
             'popped" is false everywhere it is asked: CallStack::can_pop_thread itself tests '
             'element_is_evaluate_from_game, or - if the test has been moved to the callers - at every call site nothing '
             'but accessors runs on the true side before element_is_evaluate_from_game is asked. Otherwise an evaluation '
             'started while the story rests inside a live thread pops that thread, or ends the story with "Thread '
             'available to pop" at the end of its last nested continue.')
    cpt = prog.fn('CallStack::can_pop_thread')
    if not chk.anchor(RT, 'CallStack::can_pop_thread', cpt):
        return
    E = 'element_is_evaluate_from_game'
    inside = any(callee_short(t).endswith('::' + E) for g in prog.with_closures(cpt) for _, t in g.calls())
    sites = [(fn, bb, t) for fn in prog.fns.values() if fn.crate == 'bladeink'
             for bb, t in fn.calls() if callee_short(t) == 'CallStack::can_pop_thread']
    chk.floor(RT, 'call sites of can_pop_thread', len(sites), 3)
    if inside:
        chk.ok(RT, chk.key(RT, 'can_pop_thread', 'tests-the-host-frame'),
               'can_pop_thread itself answers false under a host evaluation frame (%d call sites covered)' % len(sites),
               cpt.loc(0))
        return
    for fn, bb, t in sorted(sites, key=lambda x: (x[0].p, x[1])):
        g = cfg(fn)
        T = _true_successor(fn, bb, t)
        bad = None
        if T is None:
            # the answer is handed on (a wrapper): it must ask about the host frame itself
            if not any(callee_short(t2).endswith('::' + E) for _, t2 in fn.calls()):
                bad = 'the answer is handed on without the host-frame test'
        else:
            eb = [b2 for b2, t2 in fn.calls() if callee_short(t2).endswith('::' + E)]
            region = g.reachable([T], avoid=eb)
            dom = g.dominators()
            for b2, t2 in fn.calls():
                if b2 in region and T in dom.get(b2, ()) and b2 not in eb:
                    nm = callee_short(t2).rsplit('::', 1)[-1]
                    if nm not in TRIVIAL_AFTER_TEST and not (b2 == T and nm == E):
                        bad = 'on the true side %s runs before (or without) the host-frame test' % callee_short(t2)
                        break
        chk.decide(RT, chk.key(RT, prog.root_fn(fn).short, 'can_pop_thread'), bad is None,
                   'the host-frame test follows on the true side',
                   '%s asks can_pop_thread, which no longer answers false under a host evaluation frame, and %s: a host '
                   'evaluate_function made while the story rests inside a live thread pops the story\'s thread or ends '
                   'the story' % (prog.root_fn(fn).short, bad), fn.loc(bb))
