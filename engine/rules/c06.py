"""C06 — compiler total, deterministic, well-formed output (three structural clauses: vocabulary agreement, built-in
table agreement, name-resolution passes do not skip positions and reject what they cannot find)."""
from analysis.facts import callee, callee_short, last_seg, tyname
from analysis.cfg import cfg
from analysis.defuse import Tracer, du, consts_of
from analysis.fieldcov import fields_read
from analysis.guards import GuardFlow, resolve_cond
from analysis.tables import (const_strings_of_operand, compared_strings, string_to_string_table, matched_literals,
                             explicit_arms, variant_to_value_table, string_to_variant_table)

NAMED_CONTENT_KEYS = {
    'global decl': 'name of the global-declaration container (named content of the root)',
    'b': 'name of a conditional-branch container', 's': 'name of a sequence / choice-text sub-container',
    'c': 'also the "conditional divert" flag, a runtime key', 'g-0': 'name of the first gather container',
}
TOP_LEVEL_KEYS = {'inkVersion', 'root', 'listDefs'}


def forward_consumers(fn, l, depth=0, seen=None):
    """Where the value of local l ends up: [(callee short, arg index) | ('agg', kind) | ('ret',)]"""
    seen = seen if seen is not None else set()
    if l in seen or depth > 8:
        return []
    seen.add(l)
    out = []
    for bb, si, s in fn.stmts():
        if s['k'] != 'assign':
            continue
        rv = s['rv']
        srcs = []
        for k in ('op', 'a', 'b'):
            o = rv.get(k)
            if isinstance(o, dict) and o.get('k') in ('copy', 'move'):
                srcs.append(o['pl']['l'])
        if 'pl' in rv:
            srcs.append(rv['pl']['l'])
        for o in rv.get('ops', []):
            if o.get('k') in ('copy', 'move'):
                srcs.append(o['pl']['l'])
        if l in srcs:
            if rv['k'] == 'agg':
                out.append(('agg', rv.get('ak')))
            if s['pl']['l'] == 0:
                out.append(('ret',))
            out += forward_consumers(fn, s['pl']['l'], depth + 1, seen)
    for bb, t in fn.calls():
        for i, a in enumerate(t['args']):
            if a['k'] in ('copy', 'move') and a['pl']['l'] == l:
                cs = callee_short(t)
                if cs.rsplit('::', 1)[-1] in ('unwrap', 'expect', 'must_use', 'branch', 'into', 'from', 'clone',
                                              'unwrap_or_default'):
                    out += forward_consumers(fn, t['dest']['l'], depth + 1, seen)
                else:
                    out.append((cs, i))
    return out


def contains_type(prog, tree, targets, seen=None):
    seen = seen if seen is not None else set()
    k = tree['k']
    if k == 'adt':
        if tree['p'] in targets:
            return True
        if tree['p'] in prog.adts and tree['p'] not in seen:
            seen.add(tree['p'])
            for v in prog.adts[tree['p']]['variants']:
                for f in v['fields']:
                    if contains_type(prog, f['tree'], targets, seen):
                        return True
        return any(contains_type(prog, a, targets, seen) for a in tree['a'])
    if k in ('seq', 'tuple', 'ref', 'ptr'):
        return any(contains_type(prog, a, targets, seen) for a in tree['a'])
    return False


def run(chk, prog):
    tr = Tracer(prog)
    chk.not_decided += ['termination ("never hangs") and panic-freedom of the parser (it slices strings at run-time '
                        'computed byte offsets: value reasoning)', 'that an error\'s line number exists in the input',
                        'that resolved paths in emitted JSON denote existing content (needs the emitted document)',
                        'names inside choice *text*, which the AST keeps as raw strings (invisible to a type-level rule)']
    RA = 'C06.vocabulary-agreement'
    chk.rule(RA, 'Every string literal the emitter pushes as a bare token is "\\n", "<>", "void", starts with "^", or is a '
             'ControlCommand / NativeFunctionCall name the runtime accepts; every literal object key it inserts is a key '
             'the runtime decoder looks up, a top-level key, "#f"/"#n", or a container name. Both sides are recovered from '
             'the current tree.')
    RB = 'C06.builtin-tables-agree'
    chk.rule(RB, 'The emitter\'s built-in function table (name -> token) has exactly the names '
             'validator::is_builtin_function accepts, and every token is in the runtime\'s accepted set.')
    RC = 'C06.const-pass-coverage'
    chk.rule(RC, 'consts::resolve_nodes has an explicit arm for every Node variant whose payload (transitively) contains '
             'an Expression or a node list, resolve_expression for every Expression variant containing an Expression, '
             'and resolve_choice touches every field of Choice that contains one: a CONST used in an unvisited position '
             'is emitted as a reference to an undeclared variable.')
    RD = 'C06.reject-unknown'
    chk.rule(RD, 'In the validator\'s lookup checkers the exit reached when every declared-name set lookup fails is an '
             'Err: check_target (divert targets), check_function_call_target (called functions), and the Variable arm of '
             'validate_expr_vars must look the name up in a set of declared variables at all.')

    # ---------------- accepted sets from the runtime
    cc_gn, nf_gn = prog.fn('ControlCommand::get_name'), prog.fn('NativeFunctionCall::get_name')
    rd = prog.fn('json_read::jtoken_to_runtime_object')
    jc = prog.fn('json_read::jarray_to_container')
    if not all(chk.anchor(RA, n, f) for n, f in (('ControlCommand::get_name', cc_gn), ('NativeFunctionCall::get_name', nf_gn),
                                                  ('json_read::jtoken_to_runtime_object', rd),
                                                  ('json_read::jarray_to_container', jc))):
        return
    cc = {e[1] for e in variant_to_value_table(prog, cc_gn, 'control_command::CommandType').values() if e[0] == 'str'}
    nf = {e[1] for e in variant_to_value_table(prog, nf_gn, 'native_function_call::Op').values() if e[0] == 'str'}
    chk.floor(RA, 'runtime control command names', len(cc), 26)
    chk.floor(RA, 'runtime native function names', len(nf), 31)
    accepted = cc | {('L^' if x == '^' else x) for x in nf} | {'<>', 'void', '\n'}
    rt_keys = set()
    for f in (rd, jc):
        for k, uses in compared_strings(prog, f, tr).items():
            if any(cs.rsplit('::', 1)[-1] in ('get', 'contains_key', 'eq') for cs, _ in uses):
                rt_keys.add(k)
    chk.floor(RA, 'runtime object keys', len(rt_keys), 23)

    emit_fns = [f for f in prog.fns.values() if f.crate == 'bladeink_compiler' and '::emitter::' in f.p
                and '::tests::' not in f.p]
    chk.floor(RA, 'emitter functions', len(emit_fns), 60)
    tokens, keys = {}, {}
    for f in emit_fns:
        for bb, t in f.calls():
            cs = callee_short(t)
            if cs == 'value::to_value':
                lits = const_strings_of_operand(f, t['args'][0], tr)
                if lits:
                    cons = forward_consumers(f, t['dest']['l'])
                    bare = any((c[0] in ('EmittedContainer::push', 'Vec::push', 'Vec::insert') or c == ('agg', 'array'))
                               for c in cons)
                    if bare:
                        for s in lits:
                            tokens.setdefault(s, f.loc(bb))
            if cs == 'Map::insert' and len(t['args']) >= 2:
                for c in consts_of(tr.prov(f, t['args'][1])) - {'promoted', '?', 'bytes'}:
                    keys.setdefault(c, f.loc(bb))
    chk.floor(RA, 'bare tokens emitted by the compiler', len(tokens), 30)
    chk.floor(RA, 'object keys emitted by the compiler', len(keys), 20)
    for s, loc in sorted(tokens.items()):
        ok = s in accepted or s.startswith('^')
        chk.decide(RA, chk.key(RA, 'token', repr(s)), ok, 'accepted by the runtime decoder',
                   'the emitter pushes the bare token %r, which the runtime decoder rejects ("Failed to convert token"): '
                   'stories using that construct do not load' % s, loc)
    for k, loc in sorted(keys.items()):
        ok = k in rt_keys or k in TOP_LEVEL_KEYS or k in ('#f', '#n') or k in NAMED_CONTENT_KEYS
        why = 'runtime key' if k in rt_keys else ('top-level / container key' if ok else '')
        chk.decide(RA, chk.key(RA, 'key', repr(k)), ok, why,
                   'the emitter inserts the object key %r, which the runtime decoder never looks up: the object is '
                   'rejected or its meaning is lost' % k, loc)

    # ---------------- built-in tables
    ee = prog.fn('emitter::emit_expression_ctx')
    ib = prog.fn('validator::is_builtin_function')
    if chk.anchor(RB, 'emitter::emit_expression_ctx', ee) and chk.anchor(RB, 'validator::is_builtin_function', ib):
        tbl = {k: v for k, v in string_to_string_table(ee).items() if k.isupper() or '_' in k}
        val = matched_literals(ib)
        chk.floor(RB, 'emitter built-in rows', len(tbl), 21)
        chk.floor(RB, 'validator built-in names', len(val), 21)
        for name in sorted(set(tbl) | val):
            key = chk.key(RB, name)
            if name in tbl and name in val:
                tok = tbl[name]
                chk.decide(RB, key, tok in accepted, 'emitted as "%s", a runtime token' % tok,
                           'built-in %s is emitted as "%s", which the runtime does not know' % (name, tok), ee.loc(0))
            elif name in tbl:
                chk.fail(RB, key, 'built-in %s is emitted by the compiler but rejected by the validator as an unknown '
                         'function' % name, ib.loc(0))
            else:
                chk.fail(RB, key, 'the validator accepts %s as built-in but the emitter has no token for it: it is emitted '
                         'as a call of a non-existent ink function' % name, ee.loc(0))

    # ---------------- const pass coverage
    node = prog.adts.get('bladeink_compiler::ast::Node')
    expr = prog.adts.get('bladeink_compiler::ast::Expression')
    choice = prog.adts.get('bladeink_compiler::ast::Choice')
    rn, re_, rch = prog.fn('consts::resolve_nodes'), prog.fn('consts::resolve_expression'), prog.fn('consts::resolve_choice')
    if all(chk.anchor(RC, n, x) for n, x in (('ast::Node', node), ('ast::Expression', expr), ('ast::Choice', choice),
                                             ('consts::resolve_nodes', rn), ('consts::resolve_expression', re_),
                                             ('consts::resolve_choice', rch))):
        T = {'bladeink_compiler::ast::Expression', 'bladeink_compiler::ast::Node'}
        arms = explicit_arms(prog, rn, 'ast::Node') or set()
        need = [v['n'] for v in node['variants'] if any(contains_type(prog, f['tree'], T) for f in v['fields'])]
        chk.floor(RC, 'Node variants carrying expressions / node lists', len(need), 12)
        for v in need:
            chk.decide(RC, chk.key(RC, 'consts::resolve_nodes', v), v in arms, 'visited',
                       'consts::resolve_nodes has no arm for Node::%s although it carries expressions: a CONST used '
                       'there is emitted as a reference to an undeclared variable' % v, rn.loc(0))
        earms = explicit_arms(prog, re_, 'ast::Expression') or set()
        eneed = [v['n'] for v in expr['variants']
                 if any(contains_type(prog, f['tree'], {'bladeink_compiler::ast::Expression'}) for f in v['fields'])]
        for v in eneed + ['Variable']:
            chk.decide(RC, chk.key(RC, 'consts::resolve_expression', v), v in earms, 'visited',
                       'consts::resolve_expression has no arm for Expression::%s' % v, re_.loc(0))
        touched = set(fields_read(prog, [rch], 'Choice', depth=0))
        for f in choice['variants'][0]['fields']:
            if contains_type(prog, f['tree'], T):
                chk.decide(RC, chk.key(RC, 'consts::resolve_choice', f['n']), f['n'] in touched, 'visited',
                           'consts::resolve_choice does not visit Choice::%s although it carries expressions: a CONST '
                           'used there is emitted as a reference to an undeclared variable' % f['n'], rch.loc(0))

    # ---------------- the validator's walks reach every position that can name a target
    RV = 'C06.validator-walks-cover-the-tree'
    chk.rule(RV, 'The validator pass that checks called functions and divert-target values (validate_node_function_calls / '
             'validate_expr_function_calls) has an explicit arm for every Node variant that carries an Expression or a '
             'node list, and an arm for Expression::DivertTarget and every Expression variant that contains an '
             'Expression; the pass that checks divert targets (validate_node_divert) has an arm for every Node variant '
             'that carries a node list or is itself a divert; validate_story runs the expression check over the initial '
             'values of the globals. A position without an arm is emitted unchecked: a target that does not exist becomes '
             'a path that resolves to nothing.')
    vnf, vef = prog.fn('ValidationContext::validate_node_function_calls'), prog.fn('ValidationContext::validate_expr_function_calls')
    vnd, vst = prog.fn('ValidationContext::validate_node_divert'), prog.fn('ValidationContext::validate_story')
    if node is not None and expr is not None and all(chk.anchor(RV, n_, f_) for n_, f_ in (
            ('ValidationContext::validate_node_function_calls', vnf), ('ValidationContext::validate_expr_function_calls', vef),
            ('ValidationContext::validate_node_divert', vnd), ('ValidationContext::validate_story', vst))):
        TE = {'bladeink_compiler::ast::Expression', 'bladeink_compiler::ast::Node'}
        TN = {'bladeink_compiler::ast::Node'}
        arms = explicit_arms(prog, vnf, 'ast::Node') or set()
        needv = [v['n'] for v in node['variants'] if any(contains_type(prog, f['tree'], TE) for f in v['fields'])]
        chk.floor(RV, 'Node variants carrying expressions / node lists', len(needv), 12)
        for v in needv:
            chk.decide(RV, chk.key(RV, 'validate_node_function_calls', v), v in arms, 'visited',
                       'validate_node_function_calls has no arm for Node::%s although it carries expressions or nodes: a '
                       'call of an unknown function or a divert-target value that names nothing is accepted there' % v,
                       vnf.loc(0))
        earms = explicit_arms(prog, vef, 'ast::Expression') or set()
        for v in [x['n'] for x in expr['variants'] if any(contains_type(prog, f['tree'], {'bladeink_compiler::ast::Expression'})
                                                          for f in x['fields'])] + ['DivertTarget']:
            chk.decide(RV, chk.key(RV, 'validate_expr_function_calls', v), v in earms, 'visited',
                       'validate_expr_function_calls has no arm for Expression::%s: %s' % (
                           v, 'a divert target written as a value is never looked up' if v == 'DivertTarget'
                           else 'its operands are not checked'), vef.loc(0))
        darms = explicit_arms(prog, vnd, 'ast::Node') or set()
        needd = [v['n'] for v in node['variants'] if any(contains_type(prog, f['tree'], TN) for f in v['fields'])] + \
                [v['n'] for v in node['variants'] if 'Divert' in v['n']]
        # (not TunnelOnwardsWithTarget: its target is also rejected elsewhere - `->-> nowhere` fails without that arm)
        for v in sorted(set(needd)):
            chk.decide(RV, chk.key(RV, 'validate_node_divert', v), v in darms, 'visited',
                       'validate_node_divert has no arm for Node::%s: a divert written there is emitted without being '
                       'checked' % v, vnd.loc(0))
        # choice text is a string the emitter tokenises after validation: the validator must tokenise it as well
        ltv = Tracer(prog, transparent=lambda cs: True, use_summaries=False)
        emitted = set()
        for f_ in prog.fns.values():
            if f_.crate == 'bladeink_compiler' and '::emitter::' in f_.p:
                for _, t in f_.calls():
                    if callee_short(t).endswith('tokenize_inline_content') and t['args']:
                        emitted |= {a[len('field:Choice::'):] for a in ltv.prov(f_, t['args'][0])
                                    if a.startswith('field:Choice::')}
        chk.floor(RV, 'Choice text fields the emitter tokenises', len(emitted), 1)
        for walker in (vnd, vnf):
            seen_, work_, got = set(), [walker], set()
            while work_:
                f_ = work_.pop()
                if f_.p in seen_ or len(seen_) > 40:
                    continue
                seen_.add(f_.p)
                for g_ in prog.with_closures(f_):
                    for _, t in g_.calls():
                        if callee_short(t).endswith('tokenize_inline_content') and t['args']:
                            got |= {a[len('field:Choice::'):] for a in ltv.prov(g_, t['args'][0])
                                    if a.startswith('field:Choice::')}
                        h_ = prog.fns.get(callee(t))
                        if h_ is not None and '::validator::' in h_.p and h_.short not in (
                                'ValidationContext::validate_nodes_diverts', 'ValidationContext::validate_nodes_function_calls'):
                            work_.append(h_)
            for fld in sorted(emitted):
                chk.decide(RV, chk.key(RV, walker.short.rsplit('::', 1)[-1], 'choice-text', fld), fld in got,
                           'tokenised and walked by the validator as well',
                           'the emitter tokenises Choice::%s after validation but %s never does: a divert, thread or call '
                           'written in that part of a choice line is emitted unchecked' % (fld, walker.short), walker.loc(0))
        gl = any(callee_short(t) == 'ValidationContext::validate_expr_function_calls'
                 and 'field:GlobalVariable::initial_value' in tr.prov(g_, t['args'][1])
                 for g_ in prog.with_closures(vst) for _, t in g_.calls() if len(t['args']) > 1)
        chk.decide(RV, chk.key(RV, 'validate_story', 'globals'), gl, 'the initial values of the globals are checked',
                   'validate_story does not run the expression check over GlobalVariable::initial_value: '
                   '`VAR x = -> nowhere` is accepted', vst.loc(0))

    # ---------------- recursion over the input is bounded
    RN = 'C06.recursion-over-the-input-is-bounded'
    chk.rule(RN, 'The depth of the compiler\'s call stack is the nesting depth of its input. (a) Every call-graph cycle '
             'among the functions that consume source text (modules parser, inline; calls through function items passed '
             'as arguments included) contains a call of nesting::enter, whose failure is propagated; (b) the level a '
             'choice / gather line asks for by repeated markers passes check_marker_level; (c) the emitter\'s weave '
             'recursion (emit_nodes_with_continuation) enters nesting::enter_emit; (d) validate_story runs '
             'validate_weave_length over the root, every flow and every stitch; (e) story_to_json_string returns a story '
             'only after comparing nesting::json_depth of it with a limit. The AST walkers (consts, validator, emitter '
             'pre-passes) recurse over a tree whose depth (a)-(d) bound.')
    import re as _re
    cfns = {p_: f_ for p_, f_ in prog.fns.items() if f_.crate == 'bladeink_compiler' and '::tests::' not in p_}
    adj = {}
    for p_, f_ in cfns.items():
        r_ = prog.root_fn(f_).p
        for bb, t in f_.calls():
            h_ = prog.fns.get(callee(t))
            tgt = []
            if h_ is not None and h_.crate == 'bladeink_compiler':
                tgt.append(prog.root_fn(h_).p)
            for ta in t['f'].get('targs') or []:
                for m in _re.findall(r'\{(bladeink_compiler::[A-Za-z0-9_:]+)\}', ta):
                    if m in prog.fns:
                        # the callee may call the function item it was given
                        src_ = prog.root_fn(h_).p if h_ is not None else r_
                        adj.setdefault(src_, set()).add(m)
            for x in tgt:
                adj.setdefault(r_, set()).add(x)
    # iterative Tarjan
    index, low, onst, stack, sccs, counter = {}, {}, set(), [], [], [0]
    for root_ in sorted(adj):
        if root_ in index:
            continue
        work_ = [(root_, iter(sorted(adj.get(root_, ()))))]
        index[root_] = low[root_] = counter[0]
        counter[0] += 1
        stack.append(root_)
        onst.add(root_)
        while work_:
            v, it = work_[-1]
            adv = False
            for w in it:
                if w not in index:
                    index[w] = low[w] = counter[0]
                    counter[0] += 1
                    stack.append(w)
                    onst.add(w)
                    work_.append((w, iter(sorted(adj.get(w, ())))))
                    adv = True
                    break
                elif w in onst:
                    low[v] = min(low[v], index[w])
            if adv:
                continue
            work_.pop()
            if work_:
                low[work_[-1][0]] = min(low[work_[-1][0]], low[v])
            if low[v] == index[v]:
                comp = []
                while True:
                    w = stack.pop()
                    onst.discard(w)
                    comp.append(w)
                    if w == v:
                        break
                if len(comp) > 1 or v in adj.get(v, ()):
                    sccs.append(comp)

    def calls_short(f_, names):
        return any(callee_short(t) in names for g_ in prog.with_closures(f_) for _, t in g_.calls())
    ntext = 0
    for comp in sccs:
        members = [prog.fns[x] for x in comp if x in prog.fns]
        if not any('::parser::' in m.p or '::inline::' in m.p for m in members):
            continue
        ntext += 1
        name = '+'.join(sorted(m.short for m in members))[:160]
        guarded = [m for m in members if calls_short(m, ('nesting::enter',))]
        # the guard's failure must leave the function: its result feeds a `?` / return
        chk.decide(RN, chk.key(RN, 'cycle', name), bool(guarded),
                   'passes nesting::enter in %s' % (guarded[0].short if guarded else ''),
                   'the functions %s call each other without any depth bound: input that nests deep enough (a few '
                   'thousand parentheses, braces or blocks) overflows the stack and aborts the process instead of being '
                   'rejected with a compiler error' % name, members[0].loc(0))
    chk.floor(RN, 'call-graph cycles among the text-consuming functions', ntext, 3)
    # (f) the AST walkers descend: what a recursive call is handed is a part of what the caller was handed, never a value
    #     fetched from a table (seed C06-7: a CONST expanded through the map of constants, a ring of two recurses for ever)
    MAP_LOOKUPS = ('HashMap::get', 'HashMap::get_mut', 'HashMap::remove', 'HashMap::entry', 'BTreeMap::get', 'BTreeMap::get_mut',
                   'BTreeMap::remove', 'Map::get', 'Map::get_mut', '<HashMap as Index>::index', '<BTreeMap as Index>::index',
                   'HashMap::get_key_value', 'HashMap::values', 'HashMap::iter', 'HashMap::values_mut', 'HashMap::iter_mut')
    nwalk, ncalls = 0, 0
    for comp in sccs:
        members = [prog.fns[x] for x in comp if x in prog.fns]
        if any('::parser::' in m.p or '::inline::' in m.p for m in members):
            continue
        if any(calls_short(m, ('nesting::enter', 'nesting::enter_emit', 'nesting::enter_counted')) for m in members):
            continue
        nwalk += 1
        roots_ = {m.p for m in members}
        for m in members:
            for g_ in prog.with_closures(m):
                for bb, t in g_.calls():
                    h_ = prog.fns.get(callee(t))
                    if h_ is None or prog.root_fn(h_).p not in roots_:
                        continue
                    ncalls += 1
                    for ai, a in enumerate(t['args']):
                        if a.get('k') not in ('copy', 'move'):
                            continue
                        at = tr.full_lineage(g_, a) if hasattr(tr, 'full_lineage') else tr.prov(g_, a)
                        look = sorted(x[4:] for x in at if x.startswith('via:') and x[4:] in MAP_LOOKUPS)
                        if look:
                            chk.fail(RN, chk.key(RN, 'walker-descends', m.short, prog.root_fn(h_).short, 'arg%d' % ai),
                                     '%s calls %s (a cycle of the call graph with no depth bound) on a value it looked up in a '
                                     'table (%s) instead of on a part of its own argument: the recursion no longer follows the '
                                     'syntax tree, whose depth the parser bounds, but the table - definitions that refer to '
                                     'each other in a ring make it recurse until the stack overflows and the process aborts'
                                     % (m.short, prog.root_fn(h_).short, ', '.join(look)), g_.loc(bb))
    chk.floor(RN, 'unbounded AST-walker cycles examined', nwalk, 25)
    chk.floor(RN, 'recursive calls of AST walkers examined', ncalls, 100)
    if not [f_ for f_ in chk.findings if 'walker-descends' in f_['key']]:
        chk.ok(RN, chk.key(RN, 'walker-descends'), 'every recursive call of an AST walker is handed a part of the caller\'s own argument')
    pc, ps_ = prog.fn('choice::parse_choice'), prog.fn('parser::parse_statement')
    for nm, f_ in (('choice::parse_choice', pc), ('parser::parse_statement', ps_)):
        if chk.anchor(RN, nm, f_):
            chk.decide(RN, chk.key(RN, 'marker-level', nm), calls_short(f_, ('nesting::check_marker_level',)),
                       'the marker level is checked',
                       '%s no longer passes the level asked for by repeated markers through check_marker_level: '
                       '"* * * ..." a few thousand times overflows the emitter\'s stack' % nm, f_.loc(0))
    enc = prog.fn('emitter::emit_nodes_with_continuation')
    if chk.anchor(RN, 'emitter::emit_nodes_with_continuation', enc):
        chk.decide(RN, chk.key(RN, 'emit-weave-recursion'), calls_short(enc, ('nesting::enter_emit', 'nesting::enter')),
                   'enters the emit nesting guard', 'emit_nodes_with_continuation recurses once per group of choices of a '
                   'weave without a depth bound', enc.loc(0))
    vst2 = prog.fn('ValidationContext::validate_story')
    if chk.anchor(RN, 'ValidationContext::validate_story', vst2):
        nwl = sum(1 for g_ in prog.with_closures(vst2) for _, t in g_.calls()
                  if callee_short(t) == 'ValidationContext::validate_weave_length')
        chk.decide(RN, chk.key(RN, 'weave-length-checked'), nwl >= 3,
                   'validate_weave_length runs over the root, the flows and the stitches (%d calls)' % nwl,
                   'validate_story runs validate_weave_length at %d of the 3 places (root, flow, stitch): a weave of a '
                   'few thousand choice groups there overflows the emitter\'s pre-passes' % nwl, vst2.loc(0))
    sjs = prog.fn('emitter::story_to_json_string')
    if chk.anchor(RN, 'emitter::story_to_json_string', sjs):
        g_ = cfg(sjs)
        jd = [bb for bb, t in sjs.calls() if callee_short(t) == 'nesting::json_depth']
        ser = [bb for bb, t in sjs.calls() if callee_short(t).endswith('to_string') and 'serde_json' in callee(t)]
        ok = bool(jd) and bool(ser) and all(any(g_.dominates(j, s_) for j in jd) for s_ in ser)
        chk.decide(RN, chk.key(RN, 'returned-story-loads'), ok,
                   'the depth of the story is measured before it is serialised',
                   'story_to_json_string serialises the story without measuring its nesting depth first: a story deeper '
                   'than the runtime\'s 128 levels is returned as compiled although it cannot be loaded', sjs.loc(0))

    # ---------------- paths that name a weave label are rewritten when the label's container is hoisted
    validated_tree_is_emitted(chk, prog)
    RH_ = 'C06.hoisted-label-paths-are-rewritten'
    chk.rule(RH_, 'When the continuation containers of a labelled gather are hoisted out of it, fix_divert_paths rewrites '
             'every path that still names the old place. It looks at a fixed list of object keys: every key under which '
             'the emitter stores a path obtained from label / target resolution (resolve_divert_target, '
             'resolve_choice_label, qualified_choice_labels, choice_branch) must be in that list, otherwise paths under '
             'that key keep naming a container that no longer exists.')
    fdp = prog.fn('emitter::fix_divert_paths')
    if chk.anchor(RH_, 'emitter::fix_divert_paths', fdp):
        lth = Tracer(prog, transparent=lambda cs: True, use_summaries=False)
        SRC_ = ('resolve_divert_target', 'resolve_choice_label', 'qualified_choice_labels', 'choice_label_targets',
                'choice_branch')
        label_keys = {}
        for f_ in emit_fns:
            for bb, t in f_.calls():
                if callee_short(t) == 'Map::insert' and len(t['args']) >= 3:
                    ks = consts_of(tr.prov(f_, t['args'][1])) - {'promoted', '?', 'bytes'}
                    if ks and any(any(s_ in a for s_ in SRC_) for a in lth.prov(f_, t['args'][2])):
                        for k in ks:
                            label_keys.setdefault(k, f_.loc(bb))
        handled, opaque = set(), []
        for g_ in prog.with_closures(fdp):
            for bb, t in g_.calls():
                if callee_short(t) in ('Map::get_mut', 'Map::get', 'Map::contains_key', 'Map::remove') and len(t['args']) > 1:
                    at = tr.prov(g_, t['args'][1])
                    handled |= consts_of(at) - {'promoted', '?', 'bytes'}
                    opaque += [a for a in at if a.startswith('const:item:') or a in ('const:?', 'const:promoted')]
        if chk.anchor(RH_, 'object keys that fix_divert_paths looks up', handled) and \
                chk.anchor(RH_, 'keys under which the emitter stores resolved label paths', label_keys):
            chk.floor(RH_, 'keys carrying resolved label paths', len(label_keys), 4)
            for k, loc in sorted(label_keys.items()):
                chk.decide(RH_, chk.key(RH_, repr(k)), k in handled, 'rewritten by fix_divert_paths',
                           'the emitter stores resolved label paths under %r, but fix_divert_paths does not look at that '
                           'key: when the continuation of a labelled gather is hoisted, such a path keeps naming the old '
                           'place and resolves to nothing' % k, loc)

    # ---------------- list items
    RE = 'C06.list-items-resolved'
    chk.rule(RE, 'Where the emitter writes a list literal, every key it inserts into the "list" object is the qualified '
             'name returned by resolve_list_item: inserting the raw source name accepts an unknown list item (and emits '
             'an item without an origin list).')
    if ee is not None:
        bad = []
        n_ins = 0
        for g_ in prog.with_closures(ee):
            for bb, t in g_.calls():
                if callee_short(t) == 'Map::insert' and len(t['args']) >= 3:
                    kp = tr.prov(g_, t['args'][1])
                    if any('Expression::ListItems' in a for a in kp) or any('resolve_list_item' in a for a in kp):
                        n_ins += 1
                        if not any('resolve_list_item' in a for a in kp):
                            bad.append(g_.loc(bb))
        if chk.anchor(RE, 'list-literal key inserts in emit_expression_ctx', n_ins):
            chk.decide(RE, chk.key(RE, 'emitter::emit_expression_ctx', 'raw-name-fallback'), not bad,
                       'only resolved, qualified item names are emitted',
                       'the emitter falls back to the raw item name (value 0) when a list item cannot be resolved: an '
                       'unknown list item is accepted instead of being a compile error', bad[0] if bad else None)

    RX = 'C06.context-reaches-expressions'
    chk.rule(RX, 'Every call of a function taking an optional emit context (Option<&EmitContext>: emit_expression_ctx and '
             'its helpers) passes a context that derives from the caller\'s own context parameter, never a constant None: '
             'without the context CONSTs, list items and function names in that expression are not resolved.')
    takers = {}
    for fn in prog.fns.values():
        if not fn.short.startswith('emitter::') or fn.parent:
            continue
        for i in range(fn.body.get('argc', 0)):
            ty = fn.local_ty(i + 1)
            if 'Option<&' in ty and 'EmitContext' in ty:
                takers[fn.short] = i
    n_ctx = 0
    if chk.anchor(RX, 'functions with an Option<&EmitContext> parameter', len(takers)):
        for fn in prog.fns.values():
            for bb, t in fn.calls():
                cs = callee_short(t)
                if cs in takers and len(t['args']) > takers[cs]:
                    n_ctx += 1
                    pv = tr.prov(fn, t['args'][takers[cs]])
                    chk.decide(RX, chk.key(RX, prog.root_fn(fn).short, cs, 'ctx'), any(a.startswith('arg:') for a in pv),
                               'context passed on', '%s calls %s without an emit context (constant None): names in that '
                               'expression stay unresolved' % (prog.root_fn(fn).short, cs), fn.loc(bb))
        chk.floor(RX, 'calls passing an optional emit context', n_ctx, 20)

    # ---------------- divert targets resolved by the emitter
    RT = 'C06.divert-targets-resolved'
    chk.rule(RT, 'EmitScope::resolve_divert_target (a) consults every flow-name table that EmitScope::child_flow builds for it '
             '(fields initialised from the nested flows\' names, or from another such table), and (b) returns the bare source '
             'name only after some lookup succeeded (END/DONE, already qualified, a divert variable): a bare name returned '
             'after every lookup failed is emitted as a path that resolves to nothing.')
    rdt = prog.fn('EmitScope::resolve_divert_target')
    cfl = prog.fn('EmitScope::child_flow')
    if chk.anchor(RT, 'EmitScope::resolve_divert_target', rdt) and chk.anchor(RT, 'EmitScope::child_flow', cfl):
        lt = Tracer(prog, transparent=lambda cs: True, use_summaries=False)
        inits = {}
        for g_ in prog.with_closures(cfl):
            for bb, si, st in g_.stmts():
                if st['k'] == 'assign' and st['rv']['k'] == 'agg' and tyname(st['rv'].get('adt', '')) == 'EmitScope':
                    for n_, o_ in zip(st['rv']['fields'], st['rv']['ops']):
                        inits[n_] = lt.prov(g_, o_)
        scope_adt = prog.adt('EmitScope')
        coll = {f['n'] for v in scope_adt['variants'] for f in v['fields'] if 'BTreeSet' in f['ty'] or 'BTreeMap' in f['ty']
                or 'HashSet' in f['ty'] or 'HashMap' in f['ty']} if scope_adt else set()
        tables = {n_ for n_, at in inits.items() if n_ in coll and 'field:Flow::children' in at}
        changed = True
        while changed:
            changed = False
            for n_, at in inits.items():
                if n_ in coll and n_ not in tables and any(('field:EmitScope::' + t_) in at for t_ in tables):
                    tables.add(n_)
                    changed = True
        chk.floor(RT, 'flow-name tables built by EmitScope::child_flow', len(tables), 2)
        consulted = fields_read(prog, [rdt], 'EmitScope', depth=2)
        for t_ in sorted(tables):
            chk.decide(RT, chk.key(RT, 'table-consulted', t_), t_ in consulted, 'looked up by resolve_divert_target',
                       'resolve_divert_target never looks a target up in EmitScope::%s although child_flow fills it with flow '
                       'names: a bare reference to such a flow is emitted unresolved when the global short-name table has '
                       'no (unique) entry for it' % t_, rdt.loc(0))

        def atom_rt(desc):
            if desc[0] == 'call' and desc[1].rsplit('::', 1)[-1] in ('contains', 'contains_key'):
                fs = sorted(a for a in desc[2] if a.startswith('field:Emit'))
                return 'in:' + (fs[0].split('::')[-1] if fs else 'text')
            if desc[0] == 'is_some':
                fs = sorted(a for a in desc[1] if a.startswith(('field:Emit', 'call:', 'via:EmitScope')))
                return 'some:' + ','.join(x.split('::')[-1] for x in fs)
            if desc[0] == 'call':
                return 'call:' + desc[1]
            return None
        gfr = GuardFlow(prog, rdt, atom_rt, tracer=tr)
        gfr.run()
        atoms_r = sorted({gfr.atom_for_cond(gfr.cond_at(b)) for b in range(len(rdt.blocks))} - {None})
        lookups = [a for a in atoms_r if a.startswith(('in:', 'some:', 'call:'))]
        raw, bad = 0, []
        for bb, t in rdt.calls():
            if t['dest']['l'] == 0 and t['args']:
                pv = tr.prov(rdt, t['args'][0])
                if any(a.startswith('arg:') for a in pv) and not any(a.startswith(('field:', 'call:')) for a in pv):
                    raw += 1
                    for v in gfr.valuations_at(bb, atoms_r):
                        if lookups and all(v.get(a) in (False, None) for a in lookups) and any(
                                v.get(a) is False for a in lookups) and not any(v.get(a) for a in lookups):
                            bad.append(bb)
                            break
        # a name that merely *looks* qualified (contains a dot) and is returned as written
        dotted = []
        for bb, t in rdt.calls():
            if t['dest']['l'] == 0 and t['args']:
                pv = tr.prov(rdt, t['args'][0])
                if any(a.startswith('arg:') for a in pv) and not any(a.startswith(('field:', 'call:')) for a in pv):
                    for v in gfr.valuations_at(bb, atoms_r):
                        tables = [a for a in lookups if a != 'in:text' and not a.startswith('call:')]
                        if v.get('in:text') is True and not any(v.get(a) for a in tables):
                            dotted.append(bb)
                            break
        chk.decide(RT, chk.key(RT, 'EmitScope::resolve_divert_target', 'dotted-name-as-written'), not dotted,
                   'a dotted name is returned only after a table lookup',
                   'resolve_divert_target returns a target that contains a dot exactly as written, without having found it in '
                   'any table: a partially qualified name the validator accepts by its suffix rule (stitch.label from '
                   'another knot) is emitted as a path that resolves to nothing', rdt.loc(dotted[0]) if dotted else None)
        if chk.anchor(RT, 'returns of the bare target in resolve_divert_target', raw):
            chk.decide(RT, chk.key(RT, 'EmitScope::resolve_divert_target', 'raw-name-fallback'), not bad,
                       'the bare name is returned only after a successful lookup',
                       'resolve_divert_target returns the bare source name after every lookup failed (%d lookups): a target '
                       'the validator accepted by its ".name" suffix rule but that is neither in scope nor unique is '
                       'emitted as a path that resolves to nothing' % len(lookups), rdt.loc(bad[0]) if bad else None)

    # ---------------- line numbers attached to errors
    RL = 'C06.error-lines-are-index-plus-one'
    chk.rule(RL, 'Every line number attached to a CompilerError (with_line / with_line_override) is the index of the line '
             'being parsed plus the constant 1 - one index source, no other arithmetic, no value taken from another error: '
             'an index of the slice is below its length, so the number names a line that exists; sums of two positions or '
             'rebased inner numbers can point past the end of the input.')
    n_wl = 0

    def line_prov(fn_, op_, depth=0):
        at = set(tr.prov(fn_, op_))
        ups = [a[6:] for a in at if a.startswith('upvar:')]
        if ups and fn_.parent in prog.fns and depth < 3:
            par = prog.fns[fn_.parent]
            for u in ups:
                u = u.lstrip('*')
                for d_ in par.body['dbg']:
                    if d_['n'] == u and 'p' not in d_['pl']:
                        at.discard('upvar:' + u)
                        at.discard('upvar:*' + u)
                        at |= line_prov(par, {'k': 'copy', 'pl': {'l': d_['pl']['l']}}, depth + 1)
        at.discard('closure_env')
        return at
    def index_plus_one(fn_, op_, depth):
        raw = tr.prov(fn_, op_)
        if len({a for a in raw if a.startswith(('upvar:', 'arg:'))}) > 1:
            return False           # a sum of two positions
        at = line_prov(fn_, op_)
        ops_ = {a for a in at if a.startswith('op:')}
        srcs = {a for a in at if a.startswith(('arg:', 'upvar:'))}
        other = {a for a in at if a.startswith(('call:', 'field:', 'cast:', 'agg:'))}
        consts_ = {a for a in at if a.startswith('const:')}
        if ops_ and ops_ <= {'op:AddWithOverflow', 'op:Add'} and consts_ <= {'const:0', 'const:1'} and not other \
                and len(srcs) <= 1 and 'const:1' in consts_:
            return True
        # a line number received as a parameter and passed on unchanged: decided at the callers
        if not ops_ and not other and not consts_ and len(srcs) == 1 and next(iter(srcs)).startswith('arg:') \
                and depth < 2 and not fn_.parent:
            n_ = int(next(iter(srcs))[4:])
            cl = prog.callers(fn_.short)
            return bool(cl) and all(len(ct['args']) >= n_ and index_plus_one(cf, ct['args'][n_ - 1], depth + 1)
                                    for cf, cb, ct in cl)
        return False
    for fn in sorted(prog.fns.values(), key=lambda f: f.p):
        if fn.crate != 'bladeink_compiler':
            continue
        if prog.root_fn(fn).short.startswith('CompilerError::'):
            continue
        ords_ = {}
        for bb, t in fn.calls():
            cs = callee_short(t)
            if cs in ('CompilerError::with_line', 'CompilerError::with_line_override') and len(t['args']) > 1:
                n_wl += 1
                at = line_prov(fn, t['args'][1])
                ok = index_plus_one(fn, t['args'][1], 0)
                root = prog.root_fn(fn).short
                i_ = ords_.get(root, 0)
                ords_[root] = i_ + 1
                chk.decide(RL, chk.key(RL, root, cs.rsplit('::', 1)[-1], '#%d@%s' % (i_, fn.short.rsplit('::', 1)[-1])), ok,
                           'index + 1', '%s attaches a line number that is not "index of the current line + 1" (provenance '
                           '%s): it can name a line beyond the end of the input' % (root, sorted(at)[:6]), fn.loc(bb))
    chk.floor(RL, 'line numbers attached to compiler errors', n_wl, 15)

    # ---------------- character positions are not byte offsets
    RU = 'C06.no-char-position-as-byte-offset'
    chk.rule(RU, 'No &str / String of the compiler is sliced or indexed at a position that counts characters: a range bound '
             'whose lineage goes through str::chars() (enumerate over chars, a collected Vec<char>) or a counter that also '
             'indexes a Vec<char> / [char]. On input with a multi-byte character before that position the slice is wrong or '
             'panics ("byte index is not a char boundary"), and the compiler must never panic.')
    ltu = Tracer(prog, transparent=lambda cs: True, use_summaries=False)

    def feeding_locals(fn_, op_, seen=None, depth=0):
        out_, seen = set(), seen if seen is not None else set()
        if op_.get('k') not in ('copy', 'move'):
            return out_
        l_ = op_['pl']['l']
        if l_ in seen or depth > 10:
            return out_
        seen.add(l_)
        if fn_.local_name(l_):
            out_.add(fn_.local_name(l_))
        for df in du(fn_).defs.get(l_, []):
            if df['kind'] == 'assign':
                rv = df['rv']
                for k_ in ('op', 'a', 'b'):
                    o_ = rv.get(k_)
                    if isinstance(o_, dict):
                        out_ |= feeding_locals(fn_, o_, seen, depth + 1)
                for o_ in rv.get('ops', []):
                    out_ |= feeding_locals(fn_, o_, seen, depth + 1)
        return out_
    n_str_idx = 0
    for fn in sorted(prog.fns.values(), key=lambda f: f.p):
        if fn.crate != 'bladeink_compiler':
            continue
        char_counters, str_sites = set(), []
        for bb, t in fn.calls():
            trt = t['f'].get('trait') or ''
            if not (trt.endswith('ops::index::Index') or trt.endswith('ops::index::IndexMut')) or len(t['args']) < 2:
                continue
            st = t['f'].get('self', '') or ''
            if st == 'str' or st.endswith('string::String'):
                str_sites.append((bb, t))
            elif 'Vec<char>' in st or st in ('[char]',):
                char_counters |= feeding_locals(fn, t['args'][1])
        for bb, t in fn.terms():
            # direct indexing chars[i] of a Vec<char> deref'd slice shows as a bounds Assert on a [char] length
            if t['k'] == 'assert' and t.get('ak') == 'bounds':
                if any('char' in a and ('Vec' in a or 'chars' in a) for a in ltu.prov(fn, t['a'])):
                    char_counters |= feeding_locals(fn, t['b'])
        ords_ = 0
        for bb, t in str_sites:
            n_str_idx += 1
            lin = ltu.prov(fn, t['args'][1])
            via_chars = 'via:str::chars' in lin and 'via:str::char_indices' not in lin and not any(
                a.endswith('::len_utf8') for a in lin) and any(
                a.startswith('via:') and a.rsplit('::', 1)[-1] in ('enumerate', 'position', 'count', 'rposition')
                for a in lin)
            mixed = sorted(feeding_locals(fn, t['args'][1]) & char_counters)
            ok = not via_chars and not mixed
            chk.decide(RU, chk.key(RU, prog.root_fn(fn).short, '#%d' % ords_), ok, 'byte position',
                       '%s slices a string at a position that counts characters (%s): non-ASCII input before it makes the '
                       'compiler slice the wrong text or panic' % (prog.root_fn(fn).short, (
                           'the counter%s %s also index%s a Vec<char>' % ('s' if len(mixed) > 1 else '', ', '.join(mixed),
                                                                          '' if len(mixed) > 1 else 'es')) if mixed
                           else 'derived from iterating chars()'), fn.loc(bb))
            ords_ += 1
    chk.floor(RU, 'string slicing / indexing sites in the compiler', n_str_idx, 20)

    # ---------------- tokens prepended to a flow shift the indices of what follows
    RS_ = 'C06.prepended-parameters-shift-the-wrapper'
    chk.rule(RS_, 'prepend_parameters puts one {"temp=": p} token per flow parameter in front of a flow\'s content. Every '
             'function of the emitter that builds an index path into a flow (joined_path with an integer index, in a '
             'function that is handed the Flow) derives that index from Flow::parameters as well: an index that ignores them '
             'addresses the temp= token instead of the weave container, and every path inside a parameterised knot with a '
             'top-level label dangles.')
    pp = prog.fn('emitter::prepend_parameters')
    ltp = Tracer(prog, transparent=lambda cs: True, use_summaries=False)
    n_idx = 0
    if chk.anchor(RS_, 'emitter::prepend_parameters', pp):
        for fn in sorted(prog.fns.values(), key=lambda f: f.p):
            if fn.crate != 'bladeink_compiler' or fn.parent or not fn.short.startswith('emitter::'):
                continue
            if not any('ast::Flow' in fn.local_ty(i + 1) or fn.local_ty(i + 1).endswith('::Flow')
                       for i in range(fn.body['argc'])):
                continue
            for bb, t in fn.calls():
                if callee_short(t).endswith('joined_path') and len(t['args']) > 1 and any(
                        x in ('usize', 'i32', 'u32') for x in (t['f'].get('targs') or [])):
                    n_idx += 1
                    at = ltp.prov(fn, t['args'][1])
                    chk.decide(RS_, chk.key(RS_, fn.short, '#%d' % n_idx),
                               'field:Flow::parameters' in at or 'field:EmitScope::param_offset' in at,
                               'the index accounts for the prepended parameter tokens',
                               '%s builds an index path into a flow without regard to the flow\'s parameters: for a flow '
                               'with parameters the index addresses a prepended {"temp=": ..} token' % fn.short, fn.loc(bb))
        chk.floor(RS_, 'index paths built by functions that are handed the Flow', n_idx, 1)

    # ---------------- tokens inserted in front of an emitted body are declared to the scope
    RI = 'C06.inserted-tokens-are-declared'
    chk.rule(RI, 'A function of the emitter that inserts a token at index 0 of a body it has emitted through emit_nodes '
             '(the "pop" of a switch or sequence branch) declares it beforehand: the scope handed to emit_nodes has its '
             'param_offset set to a non-zero value before the call. Index-based paths inside the body (the branches and '
             'rejoin point of a nested conditional or sequence) are computed from that offset; without it they are one too '
             'small and resolve to the wrong element.')
    n_ins = 0
    for fn in sorted(prog.fns.values(), key=lambda f: f.p):
        if fn.crate != 'bladeink_compiler' or fn.parent or not fn.short.startswith('emitter::'):
            continue
        gfn = cfg(fn)
        ins = [bb for bb, t in fn.calls() if callee_short(t) == 'Vec::insert' and len(t['args']) >= 3
               and t['args'][1].get('k') == 'const' and t['args'][1].get('int') == 0]
        emits = [bb for bb, t in fn.calls() if callee_short(t) in ('emitter::emit_nodes', 'emitter::emit_flow_nodes',
                                                                    'emitter::emit_nodes_with_continuation')]
        if not ins or not emits:
            continue
        offs = [bb for bb, si, st in fn.stmts() if st['k'] == 'assign' and st['pl'].get('p')
                and st['pl']['p'][-1].get('n') == 'param_offset'
                and not (st['rv']['k'] == 'use' and st['rv']['op'].get('k') == 'const' and st['rv']['op'].get('int') == 0)]
        for eb in emits:
            if not any(ib in gfn.reachable([eb]) for ib in ins):
                continue
            n_ins += 1
            chk.decide(RI, chk.key(RI, fn.short, '#%d' % n_ins), any(gfn.dominates(ob, eb) or ob == eb for ob in offs),
                       'the scope\'s param_offset is set before the body is emitted',
                       '%s emits a body and then inserts a token in front of it without having set the scope\'s '
                       'param_offset: index paths computed inside the body are off by one' % fn.short, fn.loc(eb))
    chk.floor(RI, 'bodies that get a token inserted in front', n_ins, 2)

    # ---------------- slices between two independent searches
    RO = 'C06.slice-bounds-ordered'
    chk.rule(RO, 'Where the compiler slices a string between two positions found by independent searches in opposite '
             'directions - the first "(" from the left (find) and the last ")" from the right (rfind, possibly with a '
             'default) - the slice is dominated by a comparison of the two positions: on input such as "-> a -> b(" the '
             'right position precedes the left one and the slice aborts the compiler.')
    n_sl = 0
    for fn in sorted(prog.fns.values(), key=lambda f: f.p):
        if fn.crate != 'bladeink_compiler':
            continue
        gfn = None
        for bb, t in fn.calls():
            trt = t['f'].get('trait') or ''
            st_ = t['f'].get('self') or ''
            targs = ' '.join(t['f'].get('targs') or [])
            if not trt.endswith('ops::index::Index') or not (st_ == 'str' or st_.endswith('string::String')) \
                    or 'Range<' not in targs or len(t['args']) < 2:
                continue
            a1 = t['args'][1]
            df = du(fn).single_def(a1['pl']['l']) if a1.get('k') in ('copy', 'move') and 'p' not in a1['pl'] else None
            if not df or df['kind'] != 'assign' or df['rv']['k'] != 'agg' or len(df['rv'].get('ops', [])) != 2:
                continue
            pa, pb = tr.prov(fn, df['rv']['ops'][0]), tr.prov(fn, df['rv']['ops'][1])
            left = any(a in ('call:str::find', 'via:str::find') for a in pa)
            right = any(a in ('call:str::rfind', 'via:str::rfind') for a in pb)
            if not (left and right):
                continue
            n_sl += 1
            gfn = gfn or cfg(fn)
            guarded = False
            for b in gfn.dominators().get(bb, ()):
                tt = fn.blocks[b]['term']
                if tt and tt['k'] == 'switch':
                    c = resolve_cond(prog, fn, tt['d'], tr)
                    if c is not None and c.desc[0] == 'cmp2':
                        x, y = c.desc[2], c.desc[3]
                        fx = any('str::find' in a for a in x), any('str::rfind' in a for a in x)
                        fy = any('str::find' in a for a in y), any('str::rfind' in a for a in y)
                        if (fx[0] and fy[1]) or (fx[1] and fy[0]):
                            guarded = True
            chk.decide(RO, chk.key(RO, prog.root_fn(fn).short, '#%d' % n_sl), guarded,
                       'the two positions are compared before the slice',
                       '%s slices a string from a position found from the left to one found from the right without '
                       'comparing them: when the right one comes first (an unclosed "(" after an earlier ")", or none at '
                       'all with a default) the compiler aborts' % prog.root_fn(fn).short, fn.loc(bb))
    chk.floor(RO, 'slices between a left and a right search', n_sl, 3)

    # ---------------- reject unknown
    for name, what in (('ValidationContext::check_target', 'divert target'),
                       ('ValidationContext::check_function_call_target', 'called function')):
        f = prog.fn(name)
        if not chk.anchor(RD, name, f):
            continue

        def atom_of(desc):
            if desc[0] == 'call' and desc[1].rsplit('::', 1)[-1] in ('contains', 'contains_key', 'any'):
                fs = sorted(a for a in desc[2] if a.startswith('field:ValidationContext::'))
                return 'in:' + (fs[0].split('::')[-1] if fs else 'set')
            if desc[0] == 'call' and desc[1] == 'validator::is_builtin_function':
                return 'in:builtin'
            # a hand-written search: a test on the element of a loop over one of the context's name sets
            if desc[0] == 'call' and desc[1].rsplit('::', 1)[-1] in ('ends_with', 'starts_with', 'eq', 'ne') \
                    and any(a.endswith('::next') for a in desc[2] if a.startswith('via:')):
                fs = sorted(a for a in desc[2] if a.startswith('field:ValidationContext::'))
                if fs:
                    return 'in:' + fs[0].split('::')[-1] + '~element'
            return None

        def kills_elem(fn_, bb_, x_):
            # each iteration looks at another element: the outcome of the element test is not stable across next()
            if x_.get('k') == 'call' and callee_short(x_).rsplit('::', 1)[-1] == 'next':
                return [a for a in ('in:valid_targets~element', 'in:flow_names~element', 'in:function_names~element',
                                    'in:external_functions~element')]
            return None
        gf = GuardFlow(prog, f, atom_of, tracer=tr, kills=kills_elem)
        gf.run()
        g = cfg(f)
        # which returns are Ok?  find blocks assigning _0 = Ok / Err
        ok_blocks = [bb for bb, si, s in f.stmts() if s['k'] == 'assign' and s['pl']['l'] == 0 and 'p' not in s['pl']
                     and s['rv']['k'] == 'agg' and s['rv'].get('var') == 'Ok']
        atoms = {gf.atom_for_cond(gf.cond_at(b)) for b in range(len(f.blocks))} - {None}
        bad = []
        for b in ok_blocks:
            for v in gf.valuations_at(b, sorted(atoms)):
                membership = {a: x for a, x in v.items() if a.startswith('in:')}
                if membership and all(x is False for x in membership.values()):
                    bad.append(b)
        chk.decide(RD, chk.key(RD, name), bool(atoms) and not bad,
                   'when every lookup fails the function returns Err',
                   '%s returns Ok although the name was found in none of %s: an unknown %s is accepted and surfaces as a '
                   'broken story at run time' % (name, sorted(atoms), what), f.loc(bad[0]) if bad else f.loc(0))
    ve = prog.fn('ValidationContext::validate_expr_vars')
    if chk.anchor(RD, 'ValidationContext::validate_expr_vars', ve):
        lookups = set()
        for bb, t in ve.calls():
            if callee_short(t).rsplit('::', 1)[-1] in ('contains', 'contains_key'):
                for a in tr.prov(ve, t['args'][0]):
                    if a.startswith('field:'):
                        lookups.add(a[6:])
        declared = {x for x in lookups if not x.endswith('::forbidden')}
        chk.decide(RD, chk.key(RD, 'ValidationContext::validate_expr_vars', 'declared-lookup'), bool(declared),
                   'variables are looked up in %s' % sorted(declared),
                   'validate_expr_vars looks a variable name up only in %s, never in a set of declared variables: an '
                   'unknown variable is accepted and reads as 0 with a runtime warning' % sorted(lookups), ve.loc(0))


def validated_tree_is_emitted(chk, prog):
    RV = 'C06.validated-tree-is-the-emitted-tree'
    chk.rule(RV, 'In every function of the compiler that calls both validator::validate and the emitter '
             '(emitter::story_to_json_string), the two receive the same tree: the value handed to the emitter has exactly '
             'the producers (constant folding, include resolution, parsing) of the value that was validated. A pass that '
             'rewrites the tree between validation and emission (or validation of the tree before such a pass) lets the '
             'emitter see divert targets and names the validator never looked at - a constant holding `-> nowhere` is '
             'folded into the expressions that use it only by consts::resolve.')
    lt = Tracer(prog, transparent=lambda cs: True, use_summaries=False)
    n = 0
    for fn in sorted(prog.fns.values(), key=lambda f: f.p):
        if fn.crate != 'bladeink_compiler':
            continue
        vs = [(bb, t) for bb, t in fn.calls() if callee_short(t) == 'validator::validate' and t['args']]
        es = [(bb, t) for bb, t in fn.calls() if callee_short(t) == 'emitter::story_to_json_string' and t['args']]
        if not vs or not es:
            continue
        for eb, et in es:
            n += 1
            eat = {a for a in lt.prov(fn, et['args'][0]) if a.startswith(('call:', 'via:', 'arg:'))}
            ok = False
            seen = []
            for vb, vt in vs:
                vat = {a for a in lt.prov(fn, vt['args'][0]) if a.startswith(('call:', 'via:', 'arg:'))}
                seen.append(sorted(eat ^ vat))
                if vat == eat and cfg(fn).dominates(vb, eb):
                    ok = True
            chk.decide(RV, chk.key(RV, prog.root_fn(fn).short), ok,
                       'the emitter receives the tree that was validated',
                       '%s emits a tree that is not the one it validated (producers on one side only: %s): what the '
                       'passes in between put into the tree reaches the compiled story unchecked'
                       % (prog.root_fn(fn).short, ', '.join(x.split(':', 1)[1] for x in (seen[0] if seen else []))),
                       fn.loc(eb))
    chk.floor(RV, 'functions that validate and emit', n, 1)
