"""C01 — compiled stories play as Ink defines: ONE clause only, the structural precondition of look-ahead
(the rewind point captures the whole state; a look-ahead ends through exactly one of rewind or commit)."""
from analysis.facts import callee, callee_short, tyname
from analysis.cfg import cfg
from analysis.defuse import Tracer
from analysis.fieldcov import fields_written
from analysis.guards import GuardFlow
from rules.c09 import field_leaf

COPY_TABLE = {
    'output_stream_text_dirty': 'derived cache flag, re-dirtied by output_stream_dirty() in the copy',
    'output_stream_tags_dirty': 'derived cache flag, re-dirtied by output_stream_dirty() in the copy',
    'current_text': 'derived cache (recomputed from the output stream)',
    'current_tags': 'derived cache (recomputed from the output stream)',
    'alive_flow_names_dirty': 'derived cache flag',
    'main_content_container': 'constructor argument of the copy (StoryState::new)',
    'list_definitions': 'constructor argument of the copy (StoryState::new)',
}


def run(chk, prog):
    tr = Tracer(prog)
    chk.not_decided += ['everything else in C01: that text, tags, choices, counts equal what the Ink language prescribes '
                        'for every program and choice path (needs an independent interpreter and execution)']
    R1 = 'C01.snapshot-copies-whole-state'
    chk.rule(R1, 'copy_and_start_patching assigns every field of StoryState in the copy (directly, through the '
             'constructor arguments, or through copy.current_flow.*), or the field is a classified derived cache; the '
             'copy calls output_stream_dirty(); every field of Flow is copied into copy.current_flow.')
    R2 = 'C01.lookahead-ends-once'
    chk.rule(R2, 'Every place that empties Story::state_snapshot_at_last_new_line (assignment of None / take()) lies in '
             'restore_state_snapshot or discard_snapshot, or is followed on every path by discard_snapshot; '
             'restore_state_snapshot moves the snapshot into Story::state as a whole.')
    R3 = 'C01.commit-or-rewind-applies-patch'
    chk.rule(R3, 'discard_snapshot and restore_state_snapshot both reach apply_any_patch except under async_saving.')

    cp = prog.fn('StoryState::copy_and_start_patching')
    ss = prog.adt('StoryState')
    flow = prog.adts.get('bladeink::flow::Flow')
    if chk.anchor(R1, 'StoryState::copy_and_start_patching', cp) and chk.anchor(R1, 'struct StoryState', ss) \
            and chk.anchor(R1, 'struct Flow', flow):
        wr, defaulted = fields_written(prog, [cp], 'StoryState', depth=0, tr=tr)
        # assignments through setters on the copy (set_did_safe_exit, set_previous_pointer ...)
        setters = {}
        for bb, t in cp.calls():
            h = prog.fns.get(callee(t))
            if h is not None and tyname(h.self_adt or '') == 'StoryState' and h.name.startswith('set_'):
                w2, _ = fields_written(prog, [h], 'StoryState', depth=0, tr=tr)
                for k in w2:
                    setters.setdefault(k, cp.loc(bb))
        fields = [f['n'] for f in ss['variants'][0]['fields']]
        chk.floor(R1, 'fields of StoryState', len(fields), 21)
        loc = '%s:%s' % (ss['sp']['f'], ss['sp']['l'])
        for n in fields:
            key = chk.key(R1, 'StoryState', n)
            if n in wr or n in setters:
                chk.ok(R1, key, 'assigned in the copy (%s)' % (wr.get(n) or setters.get(n)), loc)
            elif n in COPY_TABLE:
                chk.ok(R1, key, 'table: ' + COPY_TABLE[n], loc)
            else:
                chk.fail(R1, key, 'copy_and_start_patching does not copy StoryState::%s into the look-ahead state: when '
                         'the look-ahead is committed the live state silently loses it (and during look-ahead it reads '
                         'a default)' % n, loc)
        # conditional copies: a path that skips the copy of field f must have been decided by a test on f itself
        # (`if self.has_error() { copy.current_errors = .. }`), not by a test on something else
        check_conditional_copies(chk, prog, tr, cp, fields, R1)
        dirty = any(callee_short(t) == 'StoryState::output_stream_dirty' for _, t in cp.calls())
        chk.decide(R1, chk.key(R1, 'output_stream_dirty'), dirty, 'the copy\'s caches are marked dirty',
                   'copy_and_start_patching no longer calls output_stream_dirty(): the copy would serve stale cached text',
                   cp.loc(0))
        fwr, _ = fields_written(prog, [cp], 'Flow', depth=0, tr=tr)
        gcp = cfg(cp)
        for f in flow['variants'][0]['fields']:
            # the per-flow data must be copied on EVERY path (the two choice-copy modes are an if/else)
            blocks = [bb for bb, si, s in cp.stmts() if s['k'] == 'assign' and
                      [pe for pe in s['pl'].get('p', []) if pe['k'] == 'field'][-1:] and
                      [pe for pe in s['pl'].get('p', []) if pe['k'] == 'field'][-1].get('n') == f['n'] and
                      tyname([pe for pe in s['pl'].get('p', []) if pe['k'] == 'field'][-1].get('adt', '')) == 'Flow']
            # ... or, as a whole: a `Flow { f: <from self.current_flow.f>, .. }` aggregate built on the way
            for bb, si, s_ in cp.stmts():
                if s_['k'] == 'assign' and s_['rv']['k'] == 'agg' and s_['rv'].get('ak') == 'adt' \
                        and tyname(s_['rv'].get('adt', '')) == 'Flow' and f['n'] in (s_['rv'].get('fields') or []):
                    o_ = s_['rv']['ops'][s_['rv']['fields'].index(f['n'])]
                    if ('field:Flow::' + f['n']) in tr.prov(cp, o_):
                        blocks.append(bb)
            every = bool(blocks) and gcp.path([0], lambda b: b in gcp.returns, avoid=blocks) is None
            chk.decide(R1, chk.key(R1, 'Flow', f['n']), f['n'] in fwr and every, 'copied into copy.current_flow on every path',
                       'copy_and_start_patching does not copy Flow::%s of the current flow into the look-ahead state'
                       % f['n'], cp.loc(0))
        for k in COPY_TABLE:
            if k not in fields:
                chk.note('C01 table entry is stale: StoryState::' + k)

    # ---- 2
    n_clear = 0
    for fn in prog.fns.values():
        if fn.crate != 'bladeink':
            continue
        root = prog.root_fn(fn).short
        g = cfg(fn)
        clears = []
        for bb, si, s in fn.stmts():
            if s['k'] == 'assign' and field_leaf(s['pl']) == 'state_snapshot_at_last_new_line' \
                    and len([pe for pe in s['pl']['p'] if pe['k'] == 'field']) == 1:
                rv = s['rv']
                if rv['k'] == 'agg' and rv.get('var') == 'None':
                    clears.append((bb, 'assignment of None'))
                elif rv['k'] == 'use' and 'agg:Option::None' in tr.prov(fn, rv['op']) and \
                        'agg:Option::Some' not in tr.prov(fn, rv['op']):
                    clears.append((bb, 'assignment of None'))
        for bb, t in fn.calls():
            if callee_short(t) in ('Option::take', 'mem::take', 'mem::replace') and t['args'] and \
                    'field:Story::state_snapshot_at_last_new_line' in tr.prov(fn, t['args'][0]):
                clears.append((bb, callee_short(t)))
        for bb, what in clears:
            n_clear += 1
            key = chk.key(R2, root, what.replace(' ', '_'))
            if root in ('Story::restore_state_snapshot', 'Story::discard_snapshot'):
                chk.ok(R2, key, 'inside the sanctioned rewind / commit function', fn.loc(bb))
                continue
            disc = [b for b, t in fn.calls() if callee_short(t) == 'Story::discard_snapshot']
            ok, w = (True, None) if bb in disc else g.must_pass_through(bb, disc)
            chk.decide(R2, key, ok, 'followed by discard_snapshot on every path',
                       '%s empties the look-ahead snapshot (%s) without committing the patch through discard_snapshot '
                       'on every path: effects after the line end are lost or applied twice' % (root, what), fn.loc(bb),
                       {'witness_blocks': w})
    chk.floor(R2, 'places that empty the snapshot', n_clear, 3)
    rs = prog.fn('Story::restore_state_snapshot')
    if chk.anchor(R2, 'Story::restore_state_snapshot', rs):
        whole = False
        for bb, si, s in rs.stmts():
            if s['k'] == 'assign':
                pes = [pe for pe in s['pl'].get('p', []) if pe['k'] == 'field']
                if len(pes) == 1 and pes[0].get('n') == 'state':
                    at = tr.prov(rs, s['rv']['op']) if s['rv']['k'] == 'use' else set()
                    if 'field:Story::state_snapshot_at_last_new_line' in at:
                        whole = True
        chk.decide(R2, chk.key(R2, 'restore', 'whole-state'), whole,
                   'the snapshot replaces Story::state as a whole',
                   'restore_state_snapshot no longer moves the snapshot into Story::state as a whole', rs.loc(0))

    # ---- 3
    for name in ('Story::discard_snapshot', 'Story::restore_state_snapshot'):
        f = prog.fn(name)
        if not chk.anchor(R3, name, f):
            continue
        ok_, ap = applies_patch_unless_saving(prog, tr, f)
        chk.decide(R3, chk.key(R3, name), ok_,
                   'apply_any_patch is reached on every path except under async_saving',
                   '%s can return without apply_any_patch although no background save is active: the look-ahead\'s '
                   'variable / visit-count changes are never merged into the committed state' % name, f.loc(0))
    patch_read_modify_write(chk, prog, tr)
    patch_consulted_first(chk, prog, tr)
    at_start_is_sticky(chk, prog, tr)
    chosen_choice_is_an_offered_one(chk, prog, tr)


def applies_patch_unless_saving(prog, tr, f, depth=0):
    """Every return of f that is not under async_saving = true has passed apply_any_patch (directly, or through a
    callee of the same impl that satisfies this itself)."""
    def atom(desc):
        return 'saving' if desc == ('field', 'Story::async_saving') else None
    gf = GuardFlow(prog, f, atom, tracer=tr)
    gf.run()
    g = cfg(f)
    ap = []
    for bb, t in f.calls():
        if callee_short(t) == 'StoryState::apply_any_patch':
            ap.append(bb)
        elif depth < 2:
            h = prog.fns.get(callee(t))
            if h is not None and h.crate == f.crate and h.self_adt == f.self_adt and h.p != f.p and not h.pub \
                    and any(callee_short(t2) == 'StoryState::apply_any_patch' or 'apply_any_patch' in callee_short(t2)
                            for _, t2 in h.calls()) and applies_patch_unless_saving(prog, tr, h, depth + 1)[0]:
                ap.append(bb)
    seen = set()
    stack = [(0, gf.entry)]
    while stack:
        b, fs = stack.pop()
        if (b, fs) in seen:
            continue
        seen.add((b, fs))
        d = dict(fs)
        if b in g.returns and d.get('saving') is not True:
            return False, ap
        if b in ap:
            continue
        loc_ = dict(fs)
        gf._apply_stmts(b, loc_)
        for succ, ns in gf._out_edges(b, loc_):
            stack.append((succ, frozenset(ns.items())))
    return bool(ap), ap


def check_conditional_copies(chk, prog, tr, cp, fields, R1):
    from analysis.fieldcov import fields_read
    g = cfg(cp)
    pred_fields = {}

    def fields_of_pred(cs):
        if cs not in pred_fields:
            fs = set()
            for f in prog.by_short.get(cs, []):
                fs |= set(fields_read(prog, [f], 'StoryState', depth=1))
            pred_fields[cs] = fs
        return pred_fields[cs]

    def atom_of(desc):
        fs = set()
        if desc[0] == 'call':
            fs |= fields_of_pred(desc[1])
            fs |= {a.split('::', 1)[1] for a in desc[2] if a.startswith('field:StoryState::')}
        elif desc[0] in ('is_some', 'is_ok'):
            fs |= {a.split('::', 1)[1] for a in desc[1] if a.startswith('field:StoryState::')}
        elif desc[0] == 'field' and desc[1].startswith('StoryState::'):
            fs.add(desc[1].split('::', 1)[1])
        if len(fs) == 1:
            return 'pred:' + list(fs)[0]
        return None
    gf = GuardFlow(prog, cp, atom_of, tracer=tr)
    gf.run()
    for n in fields:
        blocks = []
        for bb, si, s in cp.stmts():
            if s['k'] != 'assign':
                continue
            pes = [pe for pe in s['pl'].get('p', []) if pe['k'] == 'field' and 'adt' in pe]
            if pes and tyname(pes[0]['adt']) == 'StoryState' and pes[0].get('n') == n and 'p' in s['pl'] \
                    and not any(pe['k'] == 'deref' for pe in s['pl']['p']):
                blocks.append(bb)
        if not blocks or n in COPY_TABLE:
            continue
        if g.path([0], lambda b: b in g.returns, avoid=blocks) is None:
            continue        # copied on every path
        # product search: returns reached while avoiding the copy must carry a valuation of pred:n
        bad = False
        seen = set()
        stack = [(0, gf.entry)]
        while stack:
            b, fs = stack.pop()
            if (b, fs) in seen or b in blocks:
                continue
            seen.add((b, fs))
            if b in g.returns:
                if dict(fs).get('pred:' + n) is None:
                    bad = True
                    break
                continue
            loc_ = dict(fs)
            gf._apply_stmts(b, loc_)
            for succ, ns in gf._out_edges(b, loc_):
                stack.append((succ, frozenset(ns.items())))
        chk.decide(R1, chk.key(R1, 'StoryState', n, 'conditional-copy'), not bad,
                   'the copy of %s is skipped only after a test on %s itself' % (n, n),
                   'copy_and_start_patching copies StoryState::%s only under a condition that does not test %s itself: '
                   'when that condition is false a non-empty %s is silently lost by every committed look-ahead'
                   % (n, n, n), cp.loc(blocks[0]))

    # ---- function-start trimming marker
    R4 = 'C01.function-trim-marker-cleared-on-whole-run'
    chk.rule(R4, 'Where push_to_output_stream_individual ends function-start whitespace trimming (first real text inside a '
             'function) it clears Element::function_start_in_output_stream on the whole run of Function frames at the top of '
             'the call stack, i.e. the clearing store sits in a loop over the frames (or in a closure applied to them), not on '
             'a single frame: with nested functions the outer frames keep a stale marker, and the next newline the outer '
             'function writes after its callee returned is trimmed away (two lines fused).')
    po = prog.fn('StoryState::push_to_output_stream_individual')
    if chk.anchor(R4, 'StoryState::push_to_output_stream_individual', po):
        stores = []
        for g_ in prog.with_closures(po):
            gg = cfg(g_)
            inloop = set()
            for h, tails in gg.loops_heads().items():
                inloop |= gg.loop_body(h, tails)
            for bb, si, s in g_.stmts():
                if s['k'] == 'assign' and s['pl'].get('p') and s['pl']['p'][-1].get('n') == 'function_start_in_output_stream' \
                        and s['rv']['k'] == 'use' and s['rv']['op'].get('k') == 'const':
                    stores.append((g_, bb, si, bool(g_.parent) or bb in inloop))
        if chk.anchor(R4, 'clearing store to function_start_in_output_stream', stores):
            for i, (g_, bb, si, ok) in enumerate(stores):
                chk.decide(R4, chk.key(R4, 'clear', '#%d' % i), ok, 'applied across the frames of the run',
                           'push_to_output_stream_individual clears the function-start marker of a single call-stack frame '
                           'only: enclosing function frames keep trimming after the first real text',
                           g_.loc(bb, si))
    # the marker is set where a frame is pushed
    cpush = prog.fn('CallStack::push')
    if chk.anchor(R4, 'CallStack::push', cpush):
        sets = [1 for bb, si, s in cpush.stmts() if s['k'] == 'assign' and s['pl'].get('p')
                and s['pl']['p'][-1].get('n') == 'function_start_in_output_stream']
        chk.decide(R4, chk.key(R4, 'set-on-push'), bool(sets), 'CallStack::push records the output position',
                   'CallStack::push no longer records function_start_in_output_stream: function-start trimming is lost',
                   cpush.loc(0))


def at_start_is_sticky(chk, prog, tr):
    R6 = 'C01.entered-at-start-stops-at-the-first-miss'
    chk.rule(R6, 'When a divert enters several nested containers at once, visit_changed_containers_due_to_divert walks '
             'from the target up through its ancestors; an ancestor counts as "entered at its start" only if the child it '
             'was entered through is its first AND every container below was entered at its start too. In code: the '
             'at-start value handed to visit_container depends on a boolean that starts true and is assigned false under '
             'the negative outcome of that very value (a flag that, once cleared, stays cleared for the rest of the walk). '
             'Without it a divert into the middle of a container that happens to be the first child of a '
             'count-at-start-only container counts that container again.')
    f = prog.fn('Story::visit_changed_containers_due_to_divert')
    if not chk.anchor(R6, 'Story::visit_changed_containers_due_to_divert', f):
        return
    from analysis.defuse import du as _du
    from analysis.guards import resolve_cond as _rc
    g = cfg(f)
    d = _du(f)
    vc = [(bb, t) for bb, t in f.calls() if callee_short(t) == 'Story::visit_container' and len(t['args']) > 2]
    if not chk.anchor(R6, 'call of visit_container in the ancestor walk', vc):
        return
    # sticky flags: bool locals with a `true` definition and a `false` definition
    flags = []
    for l, defs in d.defs.items():
        if f.local_ty(l) != 'bool':
            continue
        vals = {}
        for df in defs:
            if df['kind'] == 'assign' and df['rv']['k'] == 'use' and df['rv']['op'].get('k') == 'const' \
                    and 'bool' in df['rv']['op']:
                vals.setdefault(df['rv']['op']['bool'], []).append(df['bb'])
        if True in vals and False in vals:
            flags.append((l, vals))
    ok = False
    why = 'no boolean flag that starts true and is cleared inside the walk'
    for bb, t in vc:
        a = t['args'][2]
        if a['k'] not in ('copy', 'move'):
            continue
        el = a['pl']['l']
        # every local the at-start value is computed from (copies, merges, closure captures)
        lineage, work = set(), [el]
        while work:
            x = work.pop()
            if x in lineage:
                continue
            lineage.add(x)
            for df in d.defs.get(x, []):
                ops = []
                if df['kind'] in ('assign', 'partial'):
                    rv = df['rv']
                    ops += [rv.get(k) for k in ('op', 'a', 'b') if isinstance(rv.get(k), dict)]
                    ops += rv.get('ops') or []
                    if 'pl' in rv:
                        ops.append({'k': 'copy', 'pl': rv['pl']})
                elif df['kind'] in ('call', 'partial_call'):
                    ops += df['term']['args']
                for o in ops:
                    if o and o.get('k') in ('copy', 'move'):
                        work.append(o['pl']['l'])
        for l, vals in flags:
            # (2) the at-start value reads the flag: directly, or through a closure that captures it
            reads = l in lineage
            # (1) cleared under the (negative) outcome of the at-start value: a test of one of the locals it is made of
            cleared_under = False
            for fb in vals[False]:
                for b in g.dominators().get(fb, ()):
                    tt = f.blocks[b]['term']
                    if not (tt and tt['k'] == 'switch' and tt['d'].get('k') in ('copy', 'move')):
                        continue
                    # the tested local is one the value is made of, or is made of it (`!entering_at_start`)
                    back, w2 = set(), [tt['d']['pl'].get('l')]
                    while w2:
                        y = w2.pop()
                        if y in back or len(back) > 40:
                            continue
                        back.add(y)
                        for df in d.defs.get(y, []):
                            if df['kind'] in ('assign', 'partial'):
                                rv = df['rv']
                                for o in [rv.get(k) for k in ('op', 'a', 'b') if isinstance(rv.get(k), dict)]:
                                    if o.get('k') in ('copy', 'move'):
                                        w2.append(o['pl']['l'])
                    if back & (lineage - {l}):
                        cleared_under = True
            if cleared_under and reads:
                ok = True
            elif not reads:
                why = 'the at-start value handed to visit_container does not depend on the flag'
            else:
                why = 'the flag is not cleared under the negative outcome of the at-start value'
    chk.decide(R6, chk.key(R6, 'visit_changed_containers_due_to_divert'), ok,
               'the at-start value is conjoined with a flag that is cleared at the first container not entered at its start',
               'visit_changed_containers_due_to_divert decides "entered at its start" for each ancestor on its own (%s): a '
               'divert into the middle of a container nested at index 0 of a gather or choice body counts that outer '
               'container as entered at its start, and its read count goes up on every such divert' % why, f.loc(vc[0][0]))


def patch_read_modify_write(chk, prog, tr):
    R5 = 'C01.count-incremented-through-the-patch'
    chk.rule(R5, 'A visit count written into the look-ahead patch (StatePatch::set_visit_count) as "previous + 1" takes '
             '"previous" from a read that consults the patch first (visit_count_for_container / StatePatch::get_visit_count): '
             'a count computed from the committed map alone makes every further entry of the same container during one '
             'look-ahead overwrite the first (entered twice after a line end, counted once).')
    lt = Tracer(prog, transparent=lambda cs: True, use_summaries=False)
    n = 0
    for fn in sorted(prog.fns.values(), key=lambda f: f.p):
        if fn.crate != 'bladeink':
            continue
        for bb, t in fn.calls():
            if callee_short(t) != 'StatePatch::set_visit_count' or len(t['args']) < 3:
                continue
            n += 1
            at = lt.prov(fn, t['args'][2])
            derived = any(a.startswith('op:') for a in at)
            through_patch = any(a in ('via:StoryState::visit_count_for_container', 'via:StatePatch::get_visit_count',
                                      'call:StoryState::visit_count_for_container', 'call:StatePatch::get_visit_count')
                                for a in at) or 'field:StatePatch::visit_counts' in at
            chk.decide(R5, chk.key(R5, prog.root_fn(fn).short, '#%d' % n), (not derived) or through_patch,
                       'the incremented value is read through the patch',
                       '%s stores into the look-ahead patch a visit count computed from %s without consulting the patch: a '
                       'second entry of the container in the same look-ahead overwrites the first increment'
                       % (prog.root_fn(fn).short, sorted(a for a in at if a.startswith('field:'))[:3]), fn.loc(bb))
    chk.floor(R5, 'writes of a visit count into the patch', n, 1)


OVERLAYS = {
    'StatePatch::get_turn_index': 'StoryState::turn_indices',
    'StatePatch::get_visit_count': 'StoryState::visit_counts',
    'StatePatch::get_global': 'VariablesState::global_variables',
}
LOOKUPS = ('get', 'contains_key', 'get_key_value', 'index', 'get_mut')


def _key_args(prog, lt, g, op):
    """Parameters of the named function (other than self) a lookup key derives from, seen through closures."""
    from analysis.defuse import full_lineage
    fl = full_lineage(prog, g, op, _lt=lt)
    at = {a for a in fl if a.startswith('arg:')}
    if g.parent:
        at -= {a for a in lt.prov(g, op) if a.startswith('arg:')}
        root = prog.root_fn(g)
        for a in fl:
            if a.startswith('upvar:'):
                name = a[6:].lstrip('*')
                for d_ in root.body['dbg']:
                    if d_['n'] == name and 'p' not in d_['pl']:
                        at |= {x for x in lt.prov(root, {'k': 'copy', 'pl': {'l': d_['pl']['l']}}) if x.startswith('arg:')}
    return {a for a in at if a != 'arg:1'}


def patch_consulted_first(chk, prog, tr):
    R7 = 'C01.patch-consulted-before-the-committed-map'
    chk.rule(R7, 'Wherever one function looks the same key up both in the look-ahead patch (StatePatch::get_turn_index / '
             'get_visit_count / get_global) and in the committed map the patch overlays (turn_indices / visit_counts / '
             'global_variables), the patch is asked first: the committed lookup never runs before the patch lookup, and '
             'the patch lookup is never the lazy fallback (a closure handed to a combinator on the committed result). '
             'A count or value recorded during the look-ahead that is still running must win over the committed one, or '
             'TURNS_SINCE / visit counts / globals read inside a look-ahead that is then committed report the state '
             'before the look-ahead.')
    lt = Tracer(prog, transparent=lambda cs: True, use_summaries=False)
    n = 0
    for root in sorted(prog.fns.values(), key=lambda f: f.p):
        if root.crate != 'bladeink' or root.parent:
            continue
        bodies = prog.with_closures(root)
        getters, bases = [], []
        for g in bodies:
            for bb, t in g.calls():
                cs = callee_short(t)
                if cs in OVERLAYS and len(t['args']) >= 2:
                    getters.append((g, bb, t, cs))
                elif cs.rsplit('::', 1)[-1] in LOOKUPS and len(t['args']) >= 2:
                    at0 = lt.prov(g, t['args'][0])
                    for fld in set(OVERLAYS.values()):
                        if 'field:' + fld in at0:
                            bases.append((g, bb, t, fld))
        for (gg, gb, gt, gcs) in getters:
            fld = OVERLAYS[gcs]
            gkey = _key_args(prog, lt, gg, gt['args'][1])
            for (bg, bbk, bt, bf) in bases:
                if bf != fld:
                    continue
                bkey = _key_args(prog, lt, bg, bt['args'][1])
                if not (gkey & bkey):
                    continue
                n += 1
                bad = None
                if bg is gg:
                    c = cfg(bg)
                    fwd = gb in c.reachable(c.succ[bbk]) or (gb == bbk)
                    back = bbk in c.reachable(c.succ[gb])
                    if fwd and not back:
                        bad = 'the committed map is read first and the patch afterwards'
                    elif fwd and back and c.dominates(bbk, gb):
                        bad = 'inside the loop the committed map is read before the patch'
                elif gg.parent and gg is not bg:
                    # the patch lookup sits in a closure of the function that has read the committed map: is that closure
                    # handed to a call that runs after the committed read?
                    c = cfg(bg)
                    after = c.reachable([bbk])
                    for b2, t2 in bg.calls():
                        if b2 in after and gg.p in (t2['f'].get('closures') or []) or \
                                (b2 in after and any(gg.p in [x.p for x in prog.with_closures(prog.fns[cl])]
                                                     for cl in (t2['f'].get('closures') or []) if cl in prog.fns)):
                            bad = 'the patch is only asked by a closure handed to %s() after the committed map was read' \
                                  % callee_short(t2).rsplit('::', 1)[-1]
                            break
                chk.decide(R7, chk.key(R7, root.short, fld.rsplit('::', 1)[-1]), bad is None,
                           'the patch lookup comes first', '%s: %s (%s before %s): what the running look-ahead recorded '
                           'for the key is shadowed by the committed entry' % (root.short, bad, fld, gcs), bg.loc(bbk))
    chk.floor(R7, 'functions that look one key up in the patch and in the committed map', n, 5)


def chosen_choice_is_an_offered_one(chk, prog, tr, rule='C01.chosen-choice-is-an-offered-one'):
    """Seed C01-5 (and, earlier, C09-1): the choice that is played is the i-th of the list the host was shown."""
    chk.rule(rule, 'The branch a choice index plays is the branch of the choice shown under that index: in '
             'choose_choice_index both the thread that is restored and the path that is followed come from a choice taken '
             'out of the list returned by the public accessor Story::get_current_choices (the offered choices), never out of '
             'the raw per-flow list - that one also holds invisible default choices, which carry the same index as the next '
             'visible choice, so a lookup there can play the fallback branch of a choice the player never saw.')
    from analysis.facts import callee_short
    cci = prog.fn('Story::choose_choice_index')
    if not chk.anchor(rule, 'Story::choose_choice_index', cci):
        return
    uses = []
    for g in prog.with_closures(cci):
        for bb, t in g.calls():
            cs = callee_short(t)
            if cs == 'Story::choose_path' and len(t['args']) >= 2:
                uses.append((g, bb, 'path followed', tr.prov(g, t['args'][1])))
            elif cs == 'CallStack::set_current_thread' and len(t['args']) >= 2:
                at = set(tr.prov(g, t['args'][1]))
                # the thread comes from Choice::get_thread_at_generation(choice): follow the receiver
                for bb2, t2 in g.calls():
                    if callee_short(t2) == 'Choice::get_thread_at_generation' and t2['args']:
                        at |= set(tr.prov(g, t2['args'][0]))
                uses.append((g, bb, 'thread restored', at))
    if not chk.anchor(rule, 'the path followed / the thread restored in choose_choice_index', uses):
        return
    chk.floor(rule, 'uses of the chosen choice', len(uses), 2)
    for g, bb, what, at in uses:
        offered = any('Story::get_current_choices' in a for a in at)
        raw = sorted(a for a in at if 'StoryState::get_current_choices' in a or a in (
            'field:Flow::current_choices', 'field:StoryState::current_flow') or 'Flow::current_choices' in a)
        chk.decide(rule, chk.key(rule, what.replace(' ', '-')), offered and not raw,
                   'comes from a choice of the offered list',
                   'in choose_choice_index the %s does not come from the list the host was shown (Story::get_current_choices) '
                   'but from %s: with an invisible default choice ahead of a visible one the index the player picked plays '
                   'the fallback branch' % (what, raw or 'somewhere else'), g.loc(bb))
