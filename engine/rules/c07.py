"""C07 — expressions evaluate as Ink specifies (dispatch-table clauses only)."""
from analysis.facts import callee, callee_short
from analysis.defuse import Tracer, du, full_lineage
from analysis.tables import variant_to_value_table, string_to_variant_table, discr_switches, _follow


def run(chk, prog):
    tr = Tracer(prog)
    chk.not_decided += ['the values themselves: int/float/string coercion results, list algebra, precedence '
                        '(functions over an unbounded domain; needs an independent evaluator and execution)']
    RA = 'C07.name-tables-bijective'
    chk.rule(RA, 'Op <-> name and CommandType <-> name are bijections and new_from_name(get_name(v)) = v for every variant.')
    RB = 'C07.arity-agrees-with-use'
    chk.rule(RB, 'For each Op, get_number_of_parameters equals 1 + the largest constant index applied to `params` in the '
             'function call_type dispatches that Op to.')
    RC = 'C07.cast-lattice'
    chk.rule(RC, 'For each ValueType variant i, the destination ordinal for which Value::cast returns Ok(None) '
             '("already this type") equals the variant\'s discriminant i (get_cast_ordinal reads the raw repr(u8) '
             'discriminant).')
    RD = 'C07.compiler-tokens-are-runtime-names'
    chk.rule(RD, 'Every operator token the compiler\'s BinaryOperator/UnaryOperator tables emit is a name '
             'NativeFunctionCall::new_from_name accepts (with ^ -> L^).')

    tables = {}
    for cls, adt, floor in (('NativeFunctionCall', 'native_function_call::Op', 31),
                            ('ControlCommand', 'control_command::CommandType', 26)):
        gn = prog.fn(cls + '::get_name')
        nf = prog.fn(cls + '::new_from_name')
        if not (chk.anchor(RA, cls + '::get_name', gn) and chk.anchor(RA, cls + '::new_from_name', nf)):
            continue
        v2s = variant_to_value_table(prog, gn, adt)
        s2v, dups = string_to_variant_table(prog, nf, adt.rsplit('::', 1)[-1])
        tables[cls] = (v2s, s2v)
        enum = [a for p, a in prog.adts.items() if p.endswith(adt)][0]
        variants = [v['n'] for v in enum['variants']]
        chk.floor(RA, '%s variants' % adt, len(variants), floor)
        chk.floor(RA, 'rows recovered from %s::get_name' % cls, len(v2s), floor)
        chk.floor(RA, 'rows recovered from %s::new_from_name' % cls, len(s2v), floor)
        names = {}
        for v in variants:
            key = chk.key(RA, cls, v)
            ent = v2s.get(v)
            if ent is None or ent[0] != 'str':
                chk.fail(RA, key, '%s::get_name has no literal name for variant %s' % (cls, v), gn.loc(0))
                continue
            name = ent[1]
            if name in names:
                chk.fail(RA, key, 'variants %s and %s share the name "%s": the saved/compiled token is ambiguous'
                         % (names[name], v, name), gn.loc(0))
                continue
            names[name] = v
            back = s2v.get(name)
            chk.decide(RA, key, back == v, 'name "%s" maps back to %s' % (name, v),
                       'new_from_name("%s") yields %s but get_name(%s) = "%s": a %s written to JSON is read back as '
                       'something else' % (name, back, v, name, v), nf.loc(0))
        for name, v in s2v.items():
            if name not in names:
                chk.fail(RA, chk.key(RA, cls, 'extra-name', name), 'new_from_name accepts "%s" (-> %s) which get_name '
                         'never produces' % (name, v), nf.loc(0))

    # ---- arity
    ct = prog.fn('NativeFunctionCall::call_type')
    np_ = prog.fn('NativeFunctionCall::get_number_of_parameters')
    if chk.anchor(RB, 'NativeFunctionCall::call_type', ct) and chk.anchor(RB, 'get_number_of_parameters', np_):
        disp = variant_to_value_table(prog, ct, 'native_function_call::Op')
        arity = variant_to_value_table(prog, np_, 'native_function_call::Op')
        chk.floor(RB, 'dispatch rows', len(disp), 31)
        chk.floor(RB, 'arity rows', len(arity), 31)
        for v, ent in sorted(disp.items()):
            key = chk.key(RB, v)
            if ent[0] != 'call' or v not in arity or arity[v][0] != 'int':
                chk.fail(RB, key, 'cannot recover dispatch target / arity for Op::%s' % v, ct.loc(0))
                continue
            cands = prog.by_short.get(ent[1], [])
            if len(cands) != 1:
                chk.fail(RB, key, 'dispatch target %s not found' % ent[1], ct.loc(0))
                continue
            f = cands[0]
            mx = -1
            for bb, t in f.terms():
                if t['k'] == 'assert' and t.get('ak') == 'bounds':
                    la = tr.prov(f, t['a'])
                    if not any(a == 'arg:2' for a in la):
                        continue
                    for a in tr.prov(f, t['b']):
                        if a.startswith('const:'):
                            try:
                                mx = max(mx, int(a[6:]))
                            except ValueError:
                                pass
            used = mx + 1
            chk.decide(RB, key, used == arity[v][1],
                       '%s uses params[0..%d] and get_number_of_parameters = %d' % (ent[1], used, arity[v][1]),
                       'Op::%s: get_number_of_parameters says %d but %s indexes params up to [%d]: the operator pops the '
                       'wrong number of operands (or indexes out of bounds)' % (v, arity[v][1], ent[1], mx), f.loc(0))

    # ---- cast lattice
    cast = prog.fn('Value::cast')
    vt = prog.adt('ValueType')
    if chk.anchor(RC, 'Value::cast', cast) and chk.anchor(RC, 'ValueType', vt):
        by_discr = {v.get('discr', i): v['n'] for i, v in enumerate(vt['variants'])}
        sw = discr_switches(cast, 'ValueType')
        if chk.anchor(RC, 'switch on the ValueType discriminant in Value::cast', sw):
            obb, ot, _ = max(sw, key=lambda x: len(x[1]['ts']))
            arms = list(ot['ts'])
            rest = [d for d in by_discr if d not in [v for v, _ in arms]]
            if len(rest) == 1:
                arms.append((rest[0], ot['else']))
            found = 0
            for d, tb in arms:
                if d not in by_discr:
                    continue
                # inner switch on the u8 parameter
                def want(bi, b):
                    t = b['term']
                    if t and t['k'] == 'switch' and t.get('dty') == 'u8' and 'arg:2' in tr.prov(cast, t['d']):
                        return (bi, t)
                    return None
                inner = _follow(cast, tb, want, limit=8)
                key = chk.key(RC, by_discr[d])
                if inner is None:
                    chk.fail(RC, key, 'no switch on the destination ordinal found for ValueType::%s' % by_discr[d], cast.loc(tb))
                    continue
                none_vals = []
                for w, ib in inner[1]['ts']:
                    def want2(bi, b):
                        for s in b['st']:
                            if s['k'] == 'assign' and s['pl']['l'] == 0 and 'p' not in s['pl'] and s['rv']['k'] == 'agg' \
                                    and s['rv'].get('var') in ('Ok', 'Err'):
                                if s['rv']['var'] == 'Err':
                                    return 'err'
                                at = tr.prov(cast, s['rv']['ops'][0])
                                return 'none' if ('agg:Option::None' in at and 'agg:Option::Some' not in at) else 'some'
                        t = b['term']
                        if t and t['k'] == 'switch':
                            return 'branch'
                        return None
                    r = _follow(cast, ib, want2, limit=10)
                    if r == 'none':
                        none_vals.append(w)
                found += 1
                chk.decide(RC, key, none_vals == [d],
                           'cast(%d) is the identity for the variant with discriminant %d' % (d, d),
                           'ValueType::%s has discriminant %d but Value::cast treats ordinal(s) %s as "already this '
                           'type": every mixed-type operation coerces to the wrong type' % (by_discr[d], d, none_vals),
                           cast.loc(inner[0]))
            chk.floor(RC, 'ValueType variants checked', found, 7)

    # ---- compiler tokens
    rt_names = set(tables.get('NativeFunctionCall', ({}, {}))[1])
    if rt_names:
        n = 0
        for f in prog.fns.values():
            if f.crate != 'bladeink_compiler' or f.kind == 'closure' or f.trait or '::emitter::' not in f.p:
                continue
            for adt in ('ast::BinaryOperator', 'ast::UnaryOperator'):
                if not [1 for p in prog.adts if p.endswith(adt)]:
                    continue
                tbl = variant_to_value_table(prog, f, adt)
                strs = {v: e[1] for v, e in tbl.items() if e[0] == 'str'}
                if len(strs) < 3:
                    continue
                for v, tok in sorted(strs.items()):
                    n += 1
                    name = '^' if tok == 'L^' else tok
                    chk.decide(RD, chk.key(RD, f.short, adt.rsplit('::', 1)[-1], v), name in rt_names,
                               'token "%s" is a runtime native function name' % tok,
                               'the compiler emits "%s" for %s::%s, which the runtime does not know as a native function'
                               % (tok, adt.rsplit('::', 1)[-1], v), f.loc(0))
        chk.floor(RD, 'compiler operator-token rows', n, 12)

    origin_names_through_the_getter(chk, prog, tr)
    operators_carry_origins_as_tabled(chk, prog)
    range_bounds_from_the_right_end(chk, prog, tr)
    division_and_remainder_truncate(chk, prog)
    origins_rebuilt_on_push(chk, prog, tr, 'C07.origins-recomputed-on-push',
                            'StoryState::push_evaluation_stack rebuilds the origins of a list value from its items / origin '
                            'names: every push onto InkList::origins there is dominated by a clear of the same vector (or the '
                            'vector is replaced). Origins that are only ever added to survive a difference that removed their '
                            'last item (from_other_list copies them), and LIST_ALL / LIST_INVERT of two equal list values then '
                            'differ with how each was built.')

    # ---- list + int / list - int steps every item inside its own list
    RF = 'C07.item-stepped-in-its-own-list'
    chk.rule(RF, 'In call_list_increment_operation the list definition in which an item is stepped (the receiver of '
             'ListDefinition::get_item_with_value) is selected by a predicate that compares the definition\'s name with that '
             'item\'s own origin name; taking whichever origin has an item with the new number mixes up lists whose values '
             'overlap.')
    inc = prog.fn('NativeFunctionCall::call_list_increment_operation')
    if chk.anchor(RF, 'NativeFunctionCall::call_list_increment_operation', inc):
        lt = Tracer(prog, transparent=lambda cs: True, use_summaries=False)
        cmp_ok = False
        for g_ in prog.with_closures(inc):
            for bb, t in g_.calls():
                if callee_short(t).endswith('::eq') and len(t['args']) >= 2:
                    pa, pb = full_lineage(prog, g_, t['args'][0], _lt=lt), full_lineage(prog, g_, t['args'][1], _lt=lt)
                    for x, y in ((pa, pb), (pb, pa)):
                        if 'via:ListDefinition::get_name' in x and 'via:InkListItem::get_origin_name' in y:
                            cmp_ok = True
        sites_ = []
        for g_ in prog.with_closures(inc):
            for bb, t in g_.calls():
                if callee_short(t) == 'ListDefinition::get_item_with_value':
                    rp = full_lineage(prog, g_, t['args'][0], _lt=lt)
                    selected = any(a.startswith('via:') and a.rsplit('::', 1)[-1] in ('find', 'position', 'filter')
                                   for a in rp) or 'via:ListDefinitionsOrigin::get_list_definition' in rp
                    sites_.append((g_, bb, selected))
        if chk.anchor(RF, 'get_item_with_value in call_list_increment_operation', sites_):
            for i, (g_, bb, selected) in enumerate(sites_):
                chk.decide(RF, chk.key(RF, 'lookup', '#%d' % i), selected and cmp_ok,
                           'the definition is the one whose name equals the item\'s origin name',
                           'call_list_increment_operation steps an item in a list definition that is not selected by the '
                           'item\'s own origin name (selected by predicate: %s; name comparison present: %s)'
                           % (selected, cmp_ok), g_.loc(bb))


def origin_names_through_the_getter(chk, prog, tr):
    RG = 'C07.origin-names-through-the-getter'
    chk.rule(RG, 'Which lists a list value belongs to is answered by InkList::get_origin_names (the lists of its items; '
             'the stored names only when it has no items). The raw field initial_origin_names is read only by that '
             'getter, its setter, the plain constructors and Clone: a copy / sub-range / assignment that hands on the raw '
             'field gives a list emptied later the origins of some earlier value. Value::retain_list_origins_for_assignment '
             'replaces the names of the new (empty) value only when the old value has some (tests is_empty on them).')
    ALLOWED = {'<InkList as Clone>::clone', 'InkList::from_single_origin', 'InkList::set_initial_origin_names',
               'InkList::get_origin_names', 'InkList::new', 'InkList::from_single_element'}

    def touches(pl):
        return any(pe['k'] == 'field' and pe.get('n') == 'initial_origin_names' for pe in (pl or {}).get('p', []))
    n = 0
    for fn in sorted(prog.fns.values(), key=lambda f: f.p):
        if fn.crate != 'bladeink':
            continue
        hit = None
        for bb, si, st in fn.stmts():
            if st['k'] != 'assign':
                continue
            rv = st['rv']
            pls = ([rv['pl']] if 'pl' in rv else []) + [o['pl'] for k in ('op', 'a', 'b') for o in [rv.get(k)]
                                                         if isinstance(o, dict) and o.get('k') in ('copy', 'move')]
            if any(touches(pl) for pl in pls):
                hit = fn.loc(bb, si)
        for bb, t in fn.calls():
            if any(a['k'] in ('copy', 'move') and touches(a['pl']) for a in t['args']):
                hit = hit or fn.loc(bb)
        if hit:
            n += 1
            root = prog.root_fn(fn).short
            chk.decide(RG, chk.key(RG, 'reader', root), root in ALLOWED,
                       'one of the accessors of the field',
                       '%s reads InkList::initial_origin_names directly: for a list that has items the field is stale '
                       '(get_origin_names answers from the items), so the value built from it belongs to the wrong lists '
                       'once it is emptied' % root, hit)
    chk.floor(RG, 'readers of InkList::initial_origin_names', n, 3)
    rl = prog.fn('Value::retain_list_origins_for_assignment')
    if chk.anchor(RG, 'Value::retain_list_origins_for_assignment', rl):
        from analysis.guards import resolve_cond as _rc
        tested = False
        for bb, t in rl.terms():
            if t['k'] == 'switch':
                c = _rc(prog, rl, t['d'], tr)
                if c is not None and c.desc[0] == 'call' and c.desc[1].endswith('::is_empty') \
                        and any('InkList::get_origin_names' in a for a in c.desc[2]):
                    tested = True
        chk.decide(RG, chk.key(RG, 'retain-only-existing-origins'), tested,
                   'the old value\'s origin names are tested for emptiness before they replace the new value\'s',
                   'retain_list_origins_for_assignment overwrites the origin of the new empty list even when the old '
                   'value belongs to no list: `~ v = L()` over an untyped empty list loses L', rl.loc(0))


ORIGIN_CARRYING = {
    # operator -> does its result remember the lists its receiver belongs to (so that it still belongs to them when it
    # is, or becomes, empty)?  As in the reference InkList: the copy constructor and ListWithSubRange hand the origin
    # names on; the operators that build a *new* list (intersect, inverse, all, has, min / max as list) do not.
    'InkList::union': True, 'InkList::without': True, 'InkList::list_with_sub_range': True,
    'InkList::intersect': False, 'InkList::inverse': False, 'InkList::get_all': False,
    'InkList::min_as_list': False, 'InkList::max_as_list': False,
}


def operators_carry_origins_as_tabled(chk, prog):
    RH = 'C07.operator-results-carry-origins-as-tabled'
    chk.rule(RH, 'Whether the result of a list operator remembers the origin of its receiver decides what LIST_ALL / '
             'LIST_INVERT / list + int of an *empty* result give. For each operator the answer read off the code - does it '
             'reach, through InkList\'s own methods, from_other_list or set_initial_origin_names? - equals the tabled one '
             '(union, difference and sub-range carry; intersection, inverse, all, min / max do not).')

    def carries(f, depth=0, seen=None):
        seen = seen if seen is not None else set()
        if f.p in seen or depth > 4:
            return False
        seen.add(f.p)
        for g_ in prog.with_closures(f):
            for _, t in g_.calls():
                cs = callee_short(t)
                if cs in ('InkList::from_other_list', 'InkList::set_initial_origin_names'):
                    return True
                h = prog.fns.get(callee(t))
                if h is not None and (h.self_adt or '').endswith('InkList') and cs not in (
                        'InkList::get_origin_names', 'InkList::get_min_item', 'InkList::get_max_item',
                        'InkList::get_ordered_items') and carries(h, depth + 1, seen):
                    return True
        return False
    for name, want in sorted(ORIGIN_CARRYING.items()):
        f = prog.fn(name)
        if not chk.anchor(RH, name, f):
            continue
        got = carries(f)
        chk.decide(RH, chk.key(RH, name), got == want,
                   'carries the receiver\'s origins: %s' % got,
                   '%s %s the origin names of its receiver on to its result, the table says it %s: an empty result '
                   'then belongs to %s, and LIST_ALL / LIST_INVERT of it print %s' % (
                       name, 'now hands' if got else 'no longer hands', 'does not' if got else 'does',
                       'the receiver\'s lists' if got else 'no list', 'their items' if got else 'nothing'), f.loc(0))


def range_bounds_from_the_right_end(chk, prog, tr):
    RI = 'C07.range-bounds-from-the-right-end'
    chk.rule(RI, 'LIST_RANGE(list, min, max): when a bound is itself a list, the lower bound stands for the smallest item '
             'of that list and the upper bound for its largest. In list_with_sub_range the value compared as the lower '
             'limit derives from get_min_item of the min argument (never get_max_item) and the upper limit from '
             'get_max_item of the max argument.')
    f = prog.fn('InkList::list_with_sub_range')
    if not chk.anchor(RI, 'InkList::list_with_sub_range', f):
        return
    lt = Tracer(prog, transparent=lambda cs: True, use_summaries=False)
    seen = {}
    for g in prog.with_closures(f):
        for bb, t in g.calls():
            cs = callee_short(t)
            if cs in ('InkList::get_min_item', 'InkList::get_max_item') and t['args']:
                at = lt.prov(g, t['args'][0])
                for which, arg in (('lower', 'arg:2'), ('upper', 'arg:3')):
                    if arg in at and g is f:
                        seen.setdefault(which, set()).add(cs.rsplit('::', 1)[-1])
    if chk.anchor(RI, 'extremes taken of the bound arguments', seen):
        chk.decide(RI, chk.key(RI, 'lower'), seen.get('lower') == {'get_min_item'},
                   'a list-valued lower bound contributes its minimum',
                   'list_with_sub_range takes %s of a list-valued lower bound: LIST_RANGE(all, (b, d), e) starts at d '
                   'instead of b' % sorted(seen.get('lower', [])), f.loc(0))
        chk.decide(RI, chk.key(RI, 'upper'), seen.get('upper') == {'get_max_item'},
                   'a list-valued upper bound contributes its maximum',
                   'list_with_sub_range takes %s of a list-valued upper bound' % sorted(seen.get('upper', [])), f.loc(0))


def origins_rebuilt_on_push(chk, prog, tr, RE, text):
    chk.rule(RE, text)
    pe = prog.fn('StoryState::push_evaluation_stack')
    if chk.anchor(RE, 'StoryState::push_evaluation_stack', pe):
        from analysis.cfg import cfg as _cfg
        pushes, clears = [], []
        fns_ = prog.with_closures(pe)
        for g_ in fns_:
            for bb, t in g_.calls():
                cs = callee_short(t)
                if t['args'] and 'field:InkList::origins' in tr.prov(g_, t['args'][0]):
                    if cs in ('Vec::push', 'Vec::extend', 'Vec::insert', 'Vec::append', 'Vec::extend_from_slice'):
                        pushes.append((g_, bb))
                    elif cs in ('Vec::clear', 'Vec::truncate', 'RefCell::replace', 'RefCell::take', 'mem::take',
                                'mem::replace', 'Vec::drain'):
                        clears.append((g_, bb))
            for bb, si, s in g_.stmts():
                if s['k'] == 'assign' and s['pl'].get('p') and s['pl']['p'][-1].get('n') == 'origins':
                    clears.append((g_, bb))
        if chk.anchor(RE, 'origins resolved (pushed) in push_evaluation_stack', pushes):
            for i, (g_, bb) in enumerate(pushes):
                gg = _cfg(g_)
                ok = any(cg is g_ and gg.dominates(cb, bb) for cg, cb in clears) or \
                    (g_.parent and any(cg is pe for cg, cb in clears))
                chk.decide(RE, chk.key(RE, 'push', '#%d' % i), bool(ok), 'preceded by a clear on every path',
                           'push_evaluation_stack adds to the origins of a list value without emptying them first: origins '
                           'accumulate along the value\'s history instead of being a function of its items', g_.loc(bb))


def division_and_remainder_truncate(chk, prog):
    """Seed C07-6: the compiler folded `%` over literals with checked_rem_euclid."""
    R = 'C07.division-and-remainder-truncate'
    chk.rule(R, 'Ink\'s integer / and % truncate towards zero (-7 % 3 is -1). Wherever story numbers are computed - the '
             'runtime\'s NativeFunctionCall and anything the compiler evaluates ahead of time - the operation is Rust\'s '
             'truncating one: divide_op and mod_op use / , % or their checked / wrapping forms, and no function of '
             'NativeFunctionCall or of the compiler crate calls a Euclidean or flooring division or remainder '
             '(rem_euclid, div_euclid, their checked / wrapping / overflowing forms, div_floor, div_ceil). The two families '
             'agree on non-negative operands, so only a negative dividend shows the difference.')
    from analysis.facts import callee_short
    TRUNC_REM = ('checked_rem', 'wrapping_rem', 'overflowing_rem')
    TRUNC_DIV = ('checked_div', 'wrapping_div', 'overflowing_div')
    OTHER = ('euclid', 'div_floor', 'rem_floor', 'div_ceil', 'unsigned_abs_rem', 'next_multiple_of')
    n = 0
    for fn in sorted(prog.fns.values(), key=lambda f: f.p):
        root = prog.root_fn(fn)
        in_scope = fn.crate == 'bladeink_compiler' or (
            fn.crate == 'bladeink' and (root.self_adt or '').rsplit('::', 1)[-1] == 'NativeFunctionCall')
        if not in_scope or '::tests::' in fn.p:
            continue
        n += 1
        for bb, t in fn.calls():
            d = (t['f'].get('def') or '') + ' ' + (t['f'].get('full') or '')
            if any(x in d for x in OTHER):
                chk.fail(R, chk.key(R, root.short, callee_short(t)),
                         '%s computes with %s: a Euclidean / flooring division or remainder differs from Ink\'s truncating one '
                         'for a negative dividend (-7 %% 3 must be -1, not 2) - and if only one of compiler and runtime uses it, '
                         'a constant expression and the same expression over variables give different values'
                         % (root.short, callee_short(t)), fn.loc(bb))
    chk.floor(R, 'functions examined (NativeFunctionCall + compiler)', n, 300)
    for name, fam, sym in (('NativeFunctionCall::mod_op', TRUNC_REM, 'Rem'), ('NativeFunctionCall::divide_op', TRUNC_DIV, 'Div')):
        f = prog.fn(name)
        if not chk.anchor(R, name, f):
            continue
        ok = False
        for g in prog.with_closures(f):
            for bb, t in g.calls():
                if callee_short(t).rsplit('::', 1)[-1] in fam:
                    ok = True
            for bb, si, st in g.stmts():
                if st['k'] == 'assign' and st['rv']['k'] == 'binop' and st['rv']['op'] in (sym, sym + 'Unchecked'):
                    ok = True
        chk.decide(R, chk.key(R, name, 'truncating'), ok, 'uses the truncating operation',
                   '%s no longer contains a truncating %s (/, %% or a checked / wrapping form): Ink\'s integer arithmetic '
                   'truncates towards zero' % (name, sym), f.loc(0))
    if not [f for f in chk.findings if f['rule'] == R]:
        chk.ok(R, chk.key(R, 'no-euclidean-arithmetic'), 'no Euclidean / flooring arithmetic where story numbers are computed')
