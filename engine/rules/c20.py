"""C20 — the command-line tool speaks its protocol (JSON-mode output built only from escaped text, complete escaper,
exit status / compiler message / written bytes)."""
import re

from analysis.facts import callee, callee_short
from analysis.cfg import cfg
from analysis.guards import resolve_cond
from analysis.defuse import Tracer, du, full_lineage, INT_METHOD
from analysis.tables import char_consts_compared

INT_TYPES = ('usize', 'u8', 'u16', 'u32', 'u64', 'i8', 'i16', 'i32', 'i64', 'isize', 'bool', 'u128', 'i128')


def producer(fn, o, depth=0):
    """The defining construct of an operand, looking through refs, derefs, moves and tuple/array components:
    ('call', bb, term) | ('const', operand) | ('arg', n) | ('other', desc)"""
    if depth > 25:
        return ('other', 'deep')
    if o['k'] == 'const':
        return ('const', o)
    if o['k'] not in ('copy', 'move'):
        return ('other', o['k'])
    pl = o['pl']
    proj = pl.get('p', [])
    d = du(fn)
    l = pl['l']
    defs = [x for x in d.defs.get(l, []) if x['kind'] in ('assign', 'call')]
    if 1 <= l <= d.argc and not defs:
        return ('arg', l)
    if len(defs) != 1:
        return ('other', 'multi-def local')
    df = defs[0]
    if df['kind'] == 'call':
        t = df['term']
        cs = callee_short(t)
        name = cs.rsplit('::', 1)[-1]
        if name in ('deref', 'as_ref', 'borrow', 'as_str', 'clone', 'to_owned', 'into', 'unwrap', 'expect', 'must_use', 'unwrap_or_default', 'as_slice', 'iter',
                    'into_iter', 'to_string') and t['args'] and not cs.startswith('player::'):
            # transparent wrt. content, except to_string on non-strings (handled by caller via type)
            if name == 'to_string':
                return ('call', df['bb'], t)
            return producer(fn, t['args'][0], depth + 1)
        return ('call', df['bb'], t)
    rv = df['rv']
    if rv['k'] in ('use', 'cast'):
        return producer(fn, rv['op'], depth + 1)
    if rv['k'] in ('ref', 'rawptr'):
        return producer(fn, {'k': 'copy', 'pl': rv['pl']}, depth + 1)
    if rv['k'] == 'agg' and rv.get('ak') in ('tuple', 'array') and proj and proj[0]['k'] == 'field':
        i = proj[0]['i']
        if i < len(rv['ops']):
            return producer(fn, rv['ops'][i], depth + 1)
    if rv['k'] == 'agg':
        return ('agg', df, rv)
    return ('other', rv['k'])


class JsonSites:
    def __init__(self, prog, tr):
        self.prog = prog
        self.tr = tr
        self.memo = {}

    def sites(self, fn):
        """[(bb, template, [arg operands with their Display types])] for each fmt::Arguments::new in fn"""
        out = []
        for bb, t in fn.calls():
            if callee_short(t) != 'Arguments::new':
                continue
            tmpl = t['args'][0].get('bytes') if t['args'][0]['k'] == 'const' else None
            if tmpl is None:
                p = producer(fn, t['args'][0])
                tmpl = p[1].get('bytes', '') if p[0] == 'const' else ''
            args = []
            if len(t['args']) > 1:
                p = producer(fn, t['args'][1])
                if p[0] == 'agg':
                    for o in p[2]['ops']:
                        q = producer(fn, o)
                        if q[0] == 'call' and callee_short(q[2]).startswith('Argument::new_'):
                            ty = (q[2]['f'].get('targs') or ['?'])[0]
                            args.append((q[2]['args'][0], ty, q[1]))
                        else:
                            args.append((o, '?', bb))
            out.append((bb, tmpl or '', args))
        return out

    def safe_value(self, fn, o, ty, depth=0):
        """Is the string denoted by operand o safe to interpolate inside a JSON string / array context?
        -> (bool, reason)"""
        ty = ty.lstrip('&')
        if ty in INT_TYPES:
            return True, 'integer'
        if depth > 12:
            return False, 'too deep'
        p = producer(fn, o)
        if p[0] == 'const':
            s = p[1].get('str', '')
            ok = not re.search(r'["\\\x00-\x1f]', s)
            return ok, 'literal %r' % s
        if p[0] == 'other' and p[1] == 'multi-def local' and o.get('k') in ('copy', 'move'):
            # a value with several definitions (early `return format!(..)` and a tail expression): every one must be safe
            l_ = o['pl']['l']
            seen_ = set()
            while True:
                defs_ = [x for x in du(fn).defs.get(l_, []) if x['kind'] in ('assign', 'call')]
                if len(defs_) == 1 and defs_[0]['kind'] == 'assign' and defs_[0]['rv']['k'] == 'use' \
                        and defs_[0]['rv']['op'].get('k') in ('copy', 'move') and 'p' not in defs_[0]['rv']['op']['pl'] \
                        and l_ not in seen_:
                    seen_.add(l_)
                    l_ = defs_[0]['rv']['op']['pl']['l']
                    continue
                break
            if len(defs_) > 1 and 'p' not in o['pl']:
                whys = []
                for df in defs_:
                    if df['kind'] == 'call':
                        ok_, why_ = self.safe_call(fn, df['term'], df['bb'], depth + 1)
                    elif df['rv']['k'] == 'use':
                        ok_, why_ = self.safe_value(fn, df['rv']['op'], ty, depth + 1)
                    else:
                        ok_, why_ = False, 'definition by ' + df['rv']['k']
                    if not ok_:
                        return False, why_
                    whys.append(why_)
                return True, 'every definition safe (%s)' % '; '.join(whys[:3])
        if p[0] == 'call':
            return self.safe_call(fn, p[2], p[1], depth)
        if p[0] == 'arg':
            return False, 'parameter %d (raw)' % p[1]
        return False, str(p[:2])

    def safe_call(self, fn, t, tbb, depth):
        if True:
            cs = callee_short(t)
            if cs.rsplit('::', 1)[-1] in ('must_use', 'into', 'clone', 'to_owned', 'unwrap_or_default') and t['args'] \
                    and not cs.startswith('player::'):
                return self.safe_value(fn, t['args'][0], 'String', depth + 1)
            if cs.endswith('escape_json_string'):
                return True, 'escape_json_string(..)'
            if cs in ('ser::to_string', 'serde_json::to_string') or 'serde_json::ser::to_string' in (t['f'].get('def') or ''):
                return True, 'serde_json::to_string'
            if cs == 'fmt::format':
                q = producer(fn, t['args'][0])
                if q[0] == 'call' and callee_short(q[2]) == 'Arguments::new':
                    return self.site_safe(fn, q[1], depth + 1)
                return False, 'format of unknown arguments'
            if cs == '[T]::join':
                sep = producer(fn, t['args'][1])
                sep_ok = sep[0] == 'const' and not re.search(r'["\\]', sep[1].get('str', '"'))
                els_ok, why = self.elements_safe(fn, t['args'][0], depth + 1)
                return sep_ok and els_ok, 'join(%s)' % why
            if cs in ('<T as ToString>::to_string', 'usize::to_string') and (t['f'].get('targs') or ['?'])[0] in INT_TYPES:
                return True, 'integer to_string'
            if cs in ('String::new', 'String::with_capacity') and 'p' not in t['dest']:
                # a string built piece by piece (`let mut out = String::new(); out.push_str(..)`): the same thing as a
                # format / join, written as a loop
                mk = ('built', fn.p, t['dest']['l'])
                if mk not in self.memo:
                    self.memo[mk] = (False, 'string built from itself')
                    self.memo[mk] = self.built_string_safe(fn, t['dest']['l'], depth + 1)
                return self.memo[mk]
            # a helper of the tool itself whose result is built only from safe fragments (json_quote(s) =
            # format!("\"{}\"", escape_json_string(s)); a list helper joining such fragments)
            h = self.prog.fns.get(callee(t))
            if h is not None and h.crate == 'rinklecate' and not h.short.endswith('escape_json_string') and depth < 10:
                mk = ('ret', h.p)
                if mk not in self.memo:
                    self.memo[mk] = (False, 'recursive helper %s' % cs)
                    self.memo[mk] = self.return_safe(h, depth + 1)
                ok_, why_ = self.memo[mk]
                if ok_:
                    return True, 'helper %s returns %s' % (cs, why_)
                return False, 'result of %s (%s)' % (cs, why_)
            return False, 'result of %s' % cs

    def site_safe(self, fn, bb, depth=0):
        key = (fn.p, bb)
        if key in self.memo:
            return self.memo[key]
        self.memo[key] = (True, 'recursive')
        res = (True, 'all arguments safe')
        for sb, tmpl, args in self.sites(fn):
            if sb != bb:
                continue
            for o, ty, _ in args:
                ok, why = self.safe_value(fn, o, ty, depth)
                if not ok:
                    res = (False, why)
        self.memo[key] = res
        return res

    def elements_safe(self, fn, vec_op, depth):
        """Elements of the collection: from collect(map(closure)) or from Vec::push calls."""
        p = producer(fn, vec_op)
        if p[0] == 'call':
            t = p[2]
            cs = callee_short(t)
            if cs.endswith('collect'):
                # find closures in the adapter chain
                q = producer(fn, t['args'][0])
                closures = []
                hops = 0
                while q[0] == 'call' and hops < 6:
                    closures += q[2]['f'].get('closures') or []
                    if not q[2]['args']:
                        break
                    q = producer(fn, q[2]['args'][0])
                    hops += 1
                if not closures:
                    return False, 'collect without a mapping closure'
                for c in closures:
                    cf = self.prog.fns.get(c)
                    if cf is None:
                        return False, 'unknown closure'
                    ok, why = self.return_safe(cf, depth)
                    if not ok:
                        return False, 'closure returns ' + why
                return True, 'mapped through escaping closure'
            if cs == 'Vec::new' or cs.endswith('with_capacity'):
                # all pushes onto this vec
                vl = du(fn)
                pushes = []
                for bb, t2 in fn.calls():
                    if callee_short(t2) == 'Vec::push':
                        r = producer(fn, t2['args'][0])
                        if r[0] == 'call' and r[2] is t:
                            pushes.append(t2)
                if not pushes:
                    return True, 'no elements'
                for t2 in pushes:
                    ok, why = self.safe_value(fn, t2['args'][1], 'String', depth)
                    if not ok:
                        return False, 'pushes ' + why
                return True, 'every pushed element is safe'
        return False, 'collection of unknown origin'

    def built_string_safe(self, fn, l0, depth):
        """A String that starts empty in local l0 and is filled through `&mut` borrows: every piece appended is a literal
        (it plays the part of a format template's text), a constant character, or a fragment that is safe by the same
        rule as a format argument; and nothing else gets hold of a mutable borrow of it (an unknown callee could append
        anything - refused)."""
        d = du(fn)

        def whole(o):
            return o.get('k') in ('copy', 'move') and 'p' not in o['pl']

        def mentioned(x):
            if isinstance(x, dict):
                if isinstance(x.get('l'), int) and not isinstance(x.get('k'), str):
                    yield x['l']
                for k_, v in x.items():
                    if k_ != 'sp':
                        yield from mentioned(v)
            elif isinstance(x, list):
                for v in x:
                    yield from mentioned(v)
        # the locals the string itself lives in (moved on whole), and the locals holding a mutable borrow of it
        owners, borrows = {l0}, set()
        grew = True
        while grew:
            grew = False
            for bb, si, s in fn.stmts():
                if s['k'] != 'assign' or 'p' in s['pl']:
                    continue
                rv, tgt = s['rv'], s['pl']['l']
                if rv['k'] == 'use' and whole(rv['op']):
                    src = rv['op']['pl']['l']
                    for group in (owners, borrows):
                        if src in group and tgt not in group:
                            group.add(tgt)
                            grew = True
                elif rv['k'] == 'ref' and rv.get('mut'):
                    pl = rv['pl']
                    direct = pl['l'] in owners and 'p' not in pl
                    reborrow = pl['l'] in borrows and [pe['k'] for pe in pl.get('p', [])] == ['deref']
                    if (direct or reborrow) and tgt not in borrows:
                        borrows.add(tgt)
                        grew = True
        pieces = []
        for bb, si, s in fn.stmts():
            if s['k'] != 'assign':
                continue
            rv = s['rv']
            used = set(mentioned(rv)) & borrows
            if not used:
                continue
            tgt_ok = 'p' not in s['pl'] and s['pl']['l'] in borrows
            if not (tgt_ok and ((rv['k'] == 'use' and whole(rv['op'])) or (rv['k'] == 'ref' and rv.get('mut')))):
                return False, 'string under construction: its mutable borrow is used by %s' % rv['k']
        for bb, t in fn.calls():
            hit = [i for i, a in enumerate(t['args']) if set(mentioned(a)) & borrows]
            if not hit:
                continue
            cs = callee_short(t)
            if hit != [0] or not whole(t['args'][0]):
                return False, 'string under construction is handed to %s' % cs
            if cs in ('String::push_str', '<String as AddAssign>::add_assign', '<String as Write>::write_str'):
                pieces.append(('str', t['args'][1], bb))
            elif cs == 'String::push' or cs == '<String as Write>::write_char':
                pieces.append(('char', t['args'][1], bb))
            elif cs.endswith('::write_fmt'):
                pieces.append(('fmt', t['args'][1], bb))
            elif cs in ('String::reserve', 'String::shrink_to_fit', 'String::clear', 'String::pop', 'String::truncate'):
                continue        # takes text away at most
            else:
                return False, 'string under construction is handed to %s' % cs
        whys = []
        for kind, o, bb in pieces:
            p = producer(fn, o)
            if p[0] == 'const':
                continue        # literal text of the developer's: the template
            if kind == 'char':
                return False, 'appends a character that is not a constant'
            if kind == 'fmt':
                ok, why = self.site_safe(fn, p[1], depth + 1) if p[0] == 'call' and callee_short(p[2]) == 'Arguments::new' \
                    else (False, 'write of unknown arguments')
            else:
                ok, why = self.safe_value(fn, o, 'str', depth + 1)
            if not ok:
                return False, 'appends ' + why
            whys.append(why)
        return True, 'built from literals and %d safe fragments (%s)' % (len(whys), '; '.join(sorted(set(whys))[:3]))

    def return_safe(self, fn, depth):
        return self.safe_value(fn, {'k': 'copy', 'pl': {'l': 0}}, 'String', depth)


def run(chk, prog):
    tr = Tracer(prog)
    chk.not_decided += ['that the sequence of lines equals the library\'s for every program and input script (dynamic)',
                        'behaviour on early end of input; plain-mode output']
    RA = 'C20.json-lines-escaped'
    chk.rule(RA, 'At every format_args site of rinklecate whose literal pieces contain a double quote (a JSON context) '
             'each interpolated argument is an integer, the direct result of escape_json_string / serde_json::to_string, '
             'a literal without special characters, or a join / format of fragments that satisfy the same rule.')
    RB = 'C20.escaper-complete'
    chk.rule(RB, 'escape_json_string has explicit cases for the quote and the backslash and covers the whole range '
             'U+0000-U+001F (an arm per character, a comparison with a constant <= 0x20, or is_control).')
    RC = 'C20.compile-errors-and-output'
    chk.rule(RC, 'A compile error reaches a non-zero process exit and the message printed is the compiler error\'s '
             'Display text; the bytes written with -o derive only from the Ok payload of Compiler::compile*.')

    js = JsonSites(prog, tr)
    nsites = 0
    ords = {}
    for fn in sorted(prog.fns.values(), key=lambda f: f.p):
        if fn.crate != 'rinklecate':
            continue
        for bb, tmpl, args in js.sites(fn):
            if '"' not in tmpl:
                continue
            nsites += 1
            root = prog.root_fn(fn).short
            n = ords.get(fn.short, 0)
            ords[fn.short] = n + 1
            key = chk.key(RA, fn.short, 'site#%d' % n)
            bad = []
            for o, ty, _ in args:
                ok, why = js.safe_value(fn, o, ty)
                if not ok:
                    bad.append(why)
            chk.decide(RA, key, not bad, 'all %d interpolated arguments are escaped / integers' % len(args),
                       'JSON-context output line interpolates unescaped text (%s): a quote, backslash or control '
                       'character in it breaks the line for a consuming editor' % '; '.join(bad), fn.loc(bb))
    chk.floor(RA, 'JSON-context format sites in rinklecate', nsites, 9)

    esc = [f for f in prog.fns.values() if f.crate == 'rinklecate' and f.name == 'escape_json_string']
    if chk.anchor(RB, 'rinklecate escape_json_string', esc):
        f = esc[0]
        chars = set()
        for g in prog.with_closures(f):
            chars |= char_consts_compared(g)
        ctl_range = False
        for g in prog.with_closures(f):
            for bb, si, s in g.stmts():
                if s['k'] == 'assign' and s['rv']['k'] == 'binop' and s['rv']['op'] in ('Lt', 'Le'):
                    b = s['rv']['b']
                    if b['k'] == 'const' and 'int' in b and ((s['rv']['op'] == 'Lt' and b['int'] >= 0x20) or
                                                              (s['rv']['op'] == 'Le' and b['int'] >= 0x1f)):
                        ctl_range = True
            for bb, t in g.calls():
                if callee_short(t) in ('char::is_control', 'char::is_ascii_control'):
                    ctl_range = True
        all_arms = all(chr(c) in chars for c in range(0x20))
        chk.decide(RB, chk.key(RB, 'quote'), '"' in chars, 'the quote is escaped', 'escape_json_string has no case for "', f.loc(0))
        chk.decide(RB, chk.key(RB, 'backslash'), '\\' in chars, 'the backslash is escaped',
                   'escape_json_string has no case for the backslash', f.loc(0))
        chk.decide(RB, chk.key(RB, 'control-range'), ctl_range or all_arms,
                   'the whole control range U+0000-U+001F is covered',
                   'escape_json_string does not cover every control character below U+0020 (explicit arms: %s): such a '
                   'character in story text yields an invalid JSON line' % sorted(repr(c) for c in chars if ord(c) < 0x20),
                   f.loc(0))

        # a \\uXXXX escape has four hex digits: only code points below U+10000 may be written that way
        nhex = 0
        for g in prog.with_closures(f):
            cg = cfg(g)
            small = []      # blocks entered only when `x < K` (K <= 0x10000) held
            for bb, si, s in g.stmts():
                if s['k'] == 'assign' and s['rv']['k'] == 'binop' and s['rv']['op'] in ('Lt', 'Le') and 'p' not in s['pl']:
                    b = s['rv']['b']
                    if not (b['k'] == 'const' and 'int' in b and b['int'] + (1 if s['rv']['op'] == 'Le' else 0) <= 0x10000):
                        continue
                    t = g.blocks[bb]['term']
                    if t and t['k'] == 'switch' and t['d'].get('pl', {}).get('l') == s['pl']['l'] and 'p' not in t['d']['pl']:
                        false_t = [x for v, x in t['ts'] if v == 0]
                        true_t = t['else'] if false_t else None
                        if true_t is not None and true_t not in false_t and cg.pred[true_t] == [bb]:
                            small.append(true_t)
            for bb, t in g.calls():
                if callee_short(t) not in ('Argument::new_lower_hex', 'Argument::new_upper_hex') or not t['args']:
                    continue
                nhex += 1
                a = t['args'][0]
                ty = g.local_ty(a['pl']['l']) if a.get('k') in ('copy', 'move') and 'p' not in a['pl'] else ''
                narrow = ty.lstrip('&').strip() in ('u16', 'u8')
                ok = narrow or any(cg.dominates(x, bb) for x in small)
                chk.decide(RB, chk.key(RB, 'hex-escape-fits-four-digits', '#%d' % nhex), ok,
                           'the hex escape is written only for code points that fit four digits',
                           'escape_json_string writes a \\\\u hex escape for a value of type %s on a path where the code '
                           'point is not known to be below U+10000 (no dominating `< K`, K <= 0x10000): a character '
                           'outside the Basic Multilingual Plane comes out with five or six hex digits, which a JSON '
                           'reader takes as another character followed by a digit - the shown text differs from the '
                           'library\'s' % (ty or '?'), g.loc(bb))
        chk.floor(RB, 'hex escapes in escape_json_string', nhex, 1)

    # ---- (c) compile path
    tool = [f for f in prog.fns.values() if f.crate == 'rinklecate' and '::compiler_tool::' in f.p and f.kind != 'closure']
    mainf = [f for f in prog.fns.values() if f.crate == 'rinklecate' and f.short in ('rinklecate::main', 'rinklecate::run')]
    if chk.anchor(RC, 'rinklecate::compiler_tool functions', tool) and chk.anchor(RC, 'rinklecate::main/run', mainf):
        # exit with a non-zero constant reachable in main/run
        exits = []
        for f in mainf:
            for g in prog.with_closures(f):
                for bb, t in g.calls():
                    if (t['f'].get('def') or '') == 'std::process::exit':
                        at = tr.prov(g, t['args'][0])
                        exits.append((g, bb, at))
        nonzero = [e for e in exits if any(a.startswith('const:') and a not in ('const:0',) for a in e[2])]
        chk.decide(RC, chk.key(RC, 'nonzero-exit'), bool(nonzero),
                   'process::exit is called with a non-zero constant on the error path',
                   'no process::exit with a non-zero constant is left in rinklecate: a compile error would exit 0',
                   mainf[0].loc(0))
        # written bytes derive from Compiler::compile*
        writes = []
        for f in tool + mainf:
            for g in prog.with_closures(f):
                for bb, t in g.calls():
                    d = t['f'].get('def') or ''
                    if d in ('std::fs::write',) or d.endswith('::write_all'):
                        writes.append((g, bb, t))
        if chk.anchor(RC, 'fs::write / write_all in the compile tool', writes):
            for i, (g, bb, t) in enumerate(writes):
                at = tr.prov(g, t['args'][1])
                from_compiler = any('Compiler::compile' in a or 'compile' in a for a in at if a.startswith(('call:', 'via:')))
                other = [a for a in at if a.startswith('call:') and 'compile' not in a and 'Compiler' not in a]
                chk.decide(RC, chk.key(RC, 'written-bytes', '#%d' % i), from_compiler and not other,
                           'the bytes written derive only from the compiler\'s Ok payload',
                           'the output file content does not derive only from Compiler::compile* (provenance %s)'
                           % sorted(a for a in at if a.startswith(('call:', 'arg:')))[:5], g.loc(bb))
        # ... and replace the file: nothing of an earlier, longer output survives behind them
        ltw = Tracer(prog, transparent=lambda cs: True, use_summaries=False)
        for i, (g, bb, t) in enumerate(writes):
            d = t['f'].get('def') or ''
            if d == 'std::fs::write':
                chk.ok(RC, chk.key(RC, 'file-replaced', '#%d' % i), 'std::fs::write creates or truncates the file', g.loc(bb))
                continue
            rp = ltw.prov(g, t['args'][0])
            opened = [a for a in rp if a.split(':', 1)[-1] in ('OpenOptions::open', 'File::create', 'File::create_new',
                                                               'File::options', 'File::open')]
            whole = any(a.split(':', 1)[-1] in ('File::create', 'File::create_new', 'OpenOptions::truncate',
                                                'OpenOptions::create_new') for a in rp)
            appending = any(a.split(':', 1)[-1] == 'OpenOptions::append' for a in rp)
            is_file = any('File' in (x or '') for x in [t['f'].get('self', '')] + (t['f'].get('targs') or [])) or bool(opened)
            if not is_file:
                continue        # a write to stdout / a buffer
            chk.decide(RC, chk.key(RC, 'file-replaced', '#%d' % i), whole and not appending,
                       'the file is created anew or truncated before it is written',
                       'the output file is opened for writing without being truncated (no File::create, no '
                       '.truncate(true)): when a longer file of that name exists, the tail of the old content stays '
                       'behind the compiled story and the file is no longer the library\'s output', g.loc(bb))
        # the error text shown is the compiler error's Display
        shown = False
        for f in tool + mainf:
            for g in prog.with_closures(f):
                for bb, t in g.calls():
                    cs = callee_short(t)
                    if cs in ('<T as ToString>::to_string', 'Argument::new_display') and any(
                            'CompilerError' in x for x in (t['f'].get('targs') or [])):
                        shown = True
        chk.decide(RC, chk.key(RC, 'message-is-display'), shown,
                   'the CompilerError is rendered through its Display implementation (which carries file and line)',
                   'rinklecate no longer prints the compiler error through Display: file name / line would be lost',
                   tool[0].loc(0))

    # ---- (d) what the player hands to the library is the user's own text
    RD = 'C20.input-handed-over-verbatim'
    chk.rule(RD, 'The path given to Story::choose_path_string and the index given to Story::choose_choice_index derive from '
             'the line read from standard input through parse_input, and on that lineage the text is only selected from '
             '(trimmed, split, indexed, parsed) - never rewritten (case mapping, replacement): ink paths are '
             'case-sensitive, so a rewritten path names other content than the library call with the same input.')
    lt = Tracer(prog, transparent=lambda cs: True, use_summaries=False)
    REWRITERS = ('to_lowercase', 'to_uppercase', 'to_ascii_lowercase', 'to_ascii_uppercase', 'make_ascii_lowercase',
                 'make_ascii_uppercase', 'replace', 'replacen', 'replace_range', 'repeat', 'rev', 'escape_default',
                 'escape_debug', 'escape_unicode', 'to_string_lossy', 'from_utf8_lossy', 'format', 'retain', 'remove',
                 'truncate', 'insert', 'insert_str', 'push', 'push_str', 'filter', 'map', 'flat_map')

    def rewrites(atoms):
        return sorted(a[4:] for a in atoms if a.startswith('via:') and a.rsplit('::', 1)[-1] in REWRITERS)
    pi = prog.fn('player::parse_input')
    n_pay = 0
    if chk.anchor(RD, 'player::parse_input', pi):
        # the places where a payload-carrying result is built: the aggregate itself, or the variant's constructor handed
        # as a function to an adaptor (`opt.map_or(Unknown, InputResult::Choice)`: the payload is what the adaptor's
        # receiver carries)
        built = []
        for g in prog.with_closures(pi):
            for bb, si, s in g.stmts():
                if s['k'] == 'assign' and s['rv']['k'] == 'agg' and s['rv'].get('var') in ('Divert', 'Choice'):
                    built.append((g, s['rv']['var'], s['rv']['ops'], g.loc(bb, si)))
            for bb, t in g.calls():
                for a in t['args'][1:]:
                    ctor = a.get('fn', '') if a.get('k') == 'const' else ''
                    if ctor.rsplit('::', 1)[-1] in ('Divert', 'Choice') and '::InputResult::' in ctor and t['args']:
                        built.append((g, ctor.rsplit('::', 1)[-1], t['args'][:1], g.loc(bb)))
        if True:
            for g, var, ops_, loc_ in built:
                n_pay += 1
                at = set()
                for o in ops_:
                    at |= full_lineage(prog, g, o, _lt=lt)
                rw = rewrites(at)
                if var == 'Choice':
                    rw = [x for x in rw if not x.endswith(('lowercase', 'uppercase'))]   # digits have no case
                chk.decide(RD, chk.key(RD, 'parse_input', var), 'arg:1' in at and not rw,
                           'payload selected from the input text',
                           'parse_input builds InputResult::%s from %s: what reaches the library is not the text the user '
                           'typed' % (var, ('a rewritten copy of the input (%s)' % ', '.join(rw)) if rw else
                                      'something other than its input'), loc_)
        chk.floor(RD, 'payload-carrying results built by parse_input', n_pay, 2)
    n_calls = 0
    for fn in prog.fns.values():
        if fn.crate != 'rinklecate':
            continue
        for bb, t in fn.calls():
            cs = callee_short(t)
            if cs in ('Story::choose_path_string', 'Story::choose_choice_index'):
                n_calls += 1
                at = lt.prov(fn, t['args'][1])
                rw = rewrites(at)
                if cs.endswith('index'):
                    rw = [x for x in rw if not x.endswith(('lowercase', 'uppercase'))]
                chk.decide(RD, chk.key(RD, prog.root_fn(fn).short, cs), 'via:player::parse_input' in at and not rw,
                           'argument is parse_input\'s payload, unrewritten',
                           '%s passes %s an argument that %s' % (prog.root_fn(fn).short, cs, (
                               'was rewritten on the way (%s)' % ', '.join(rw)) if rw else
                               'does not come from parse_input'), fn.loc(bb))
    chk.floor(RD, 'library choice calls in rinklecate', n_calls, 2)
    divert_is_a_host_jump(chk, prog, tr)
    # numbering: the number printed for a choice and the number accepted for it differ from the index by the same constant
    pl_ = prog.fn('player::play')
    if pi is not None and chk.anchor(RD, 'player::play', pl_):
        shown = set()
        for g in prog.with_closures(pl_):
            for bb, si, s in g.stmts():
                if s['k'] == 'assign' and s['rv']['k'] == 'binop' and s['rv']['op'].startswith('Add') \
                        and s['rv']['b'].get('k') == 'const' and 'int' in s['rv']['b'] \
                        and any('enumerate' in a.lower() for a in lt.prov(g, s['rv']['a'])):
                    shown.add(s['rv']['b']['int'])
                # `(1usize..).zip(choices)`: the shown number starts at the constant the range starts with
                if s['k'] == 'assign' and s['rv']['k'] == 'agg' and 'RangeFrom' in (s['rv'].get('adt') or '') \
                        and s['rv']['ops'] and s['rv']['ops'][0].get('k') == 'const' and 'int' in s['rv']['ops'][0]:
                    zipped = any(callee_short(t2).endswith('::zip') and any(
                        'agg:RangeFrom::RangeFrom' in lt.prov(g, a2) for a2 in t2['args']) for _, t2 in g.calls())
                    if zipped:
                        shown.add(s['rv']['ops'][0]['int'])
        taken = set()
        for g in prog.with_closures(pi):
            # the subtraction is the operator or the integer method that computes the same difference where there is
            # one (`n.checked_sub(1)`, `n.wrapping_sub(1)`; not `saturating_sub`, which maps 0 onto the first choice),
            # in parse_input or in a closure it hands to an adaptor of the parsed number
            subs = [(s['rv']['a'], s['rv']['b']) for bb, si, s in g.stmts()
                    if s['k'] == 'assign' and s['rv']['k'] == 'binop' and s['rv']['op'].startswith('Sub')]
            for bb, t in g.calls():
                m = INT_METHOD.match(callee_short(t))
                if m and m.group(2) in ('checked_sub', 'wrapping_sub', 'strict_sub', 'overflowing_sub') and len(t['args']) == 2:
                    subs.append((t['args'][0], t['args'][1]))
            for a_, b_ in subs:
                if b_.get('k') == 'const' and 'int' in b_ \
                        and any(a == 'via:str::parse' for a in full_lineage(prog, g, a_, _lt=lt)):
                    taken.add(b_['int'])
        chk.decide(RD, chk.key(RD, 'choice-numbering'), len(shown) == 1 and shown == taken,
                   'choices are shown as index + %s and read back as number - %s' % (sorted(shown), sorted(taken)),
                   'choice numbering disagrees: shown as index + %s, read back as number - %s: the number typed selects '
                   'another choice than the one displayed beside it' % (sorted(shown), sorted(taken)), pi.loc(0))

    # ---- (e) every step of the library is shown
    RE = 'C20.every-step-shown'
    chk.rule(RE, 'In evaluate_story, on every path from a successful Story::cont to the next loop iteration (or to the normal '
             'return) the tool prints a line built from that call\'s text, asks for the step\'s tags (and, where it tests '
             'them, only skips printing when they are empty) and flushes the collected messages: a step with empty text '
             'still carries tags and messages.')
    es = prog.fn('player::evaluate_story')
    if chk.anchor(RE, 'player::evaluate_story', es):
        ge = cfg(es)
        conts = [bb for bb, t in es.calls() if callee_short(t) == 'Story::cont']
        text_sites = [bb for bb, tmpl, args in js.sites(es)
                      if any('via:Story::cont' in lt.prov(es, o) for o, ty, ab in args)]
        tag_reads = [bb for bb, t in es.calls() if callee_short(t) == 'Story::get_current_tags']
        flushes = [bb for bb, t in es.calls() if callee_short(t) == 'player::flush_messages']
        # "the next iteration" is the head of a loop the Story::cont call sits in; a loop that merely follows it inside the
        # iteration (a `for` over the tags that builds the line to print) is passed through, not a place where the step ends
        heads = [h for h, tails in ge.loops_heads().items() if any(cb in ge.loop_body(h, tails) for cb in conts)]
        from analysis.wbf import err_exits
        errs = [b for b, d, s in err_exits(prog, es)]
        if chk.anchor(RE, 'Story::cont in evaluate_story', conts) and chk.anchor(RE, 'print of the step text', text_sites):
            # the JSON text object is owed on every path on which JSON mode is not excluded (in plain mode printing an
            # empty text is a no-op, so skipping it there changes nothing)
            json_text = [bb for bb, tmpl, args in js.sites(es) if '"' in tmpl
                         and any('via:Story::cont' in lt.prov(es, o) for o, ty, ab in args)]
            jsw = {}
            for b in range(len(es.blocks)):
                tt = es.blocks[b]['term']
                if tt and tt['k'] == 'switch':
                    c = resolve_cond(prog, es, tt['d'], tr)
                    if c is not None and c.desc == ('field', 'Options::json_output'):
                        jsw[b] = (tt, c)
            bad = None
            for cb in conts:
                start = es.blocks[cb]['term'].get('t')
                seen, stack = set(), [(start, None, [start])]
                while stack and bad is None:
                    b, jv, pth = stack.pop()
                    if b is None or (b, jv) in seen or b in json_text or b in errs:
                        continue
                    seen.add((b, jv))
                    if b in heads or b in ge.returns:
                        if jv is not False:
                            bad = pth
                        continue
                    if b in jsw:
                        tt, c = jsw[b]
                        vals = [v for v, _ in tt['ts']]
                        edges = [(c.truth_of_value(v), tb) for v, tb in tt['ts']]
                        rest = {0, 1} - set(vals)
                        edges.append((c.truth_of_value(rest.pop()) if len(rest) == 1 else None, tt['else']))
                        for truth, tb in edges:
                            if jv is None or truth is None or truth == jv:
                                stack.append((tb, truth if truth is not None else jv, pth + [tb]))
                    else:
                        for nb in ge.succ[b]:
                            stack.append((nb, jv, pth + [nb]))
            chk.decide(RE, chk.key(RE, 'text-printed'), bool(json_text) and bad is None,
                       'in JSON mode every iteration prints the text object',
                       'evaluate_story can go from Story::cont to the next iteration in JSON mode without printing the '
                       '{"text": ..} object: a step of the library whose text is empty is missing from the sequence',
                       es.loc(conts[0]), {'witness_blocks': bad})
            for what, blocks in (('tags-read', tag_reads), ('messages-flushed', flushes)):
                bad = None
                for cb in conts:
                    nxt = [es.blocks[cb]['term'].get('t')] if es.blocks[cb]['term'].get('t') is not None else []
                    w = ge.path(nxt, lambda b: b in heads or (b in ge.returns and b not in errs), avoid=blocks + errs)
                    if w is not None:
                        bad = w
                chk.decide(RE, chk.key(RE, what), bool(blocks) and bad is None,
                           'on every path of an iteration',
                           'evaluate_story can go from Story::cont to the next iteration without %s: a step of the library '
                           '(for instance one whose text is empty but that has tags or raised a warning) is not shown '
                           'completely' % {'tags-read': 'reading the step\'s tags',
                                           'messages-flushed': 'flushing the collected messages'}[what],
                           es.loc(conts[0]), {'witness_blocks': bad})
    every_play_path_allows_fallbacks(chk, prog, tr)


def divert_is_a_host_jump(chk, prog, tr):
    RG = 'C20.divert-is-a-host-jump'
    chk.rule(RG, 'A divert typed at the prompt is the library\'s jump from the host: at every call of '
             'Story::choose_path_string made by rinklecate the reset-call-stack flag is the constant true (the library '
             'then discards the frames the story was waiting in, as it does for any host that jumps by path) and no '
             'arguments are passed (None: the prompt has no syntax for them). A call that keeps the call stack, or makes '
             'the flag depend on anything, continues in the old frames and shows other lines than the library driven '
             'with the same input.')
    lib = [f for f in prog.fns_named('Story::choose_path_string') if f.crate != 'rinklecate']
    if not chk.anchor(RG, 'Story::choose_path_string (library)', lib):
        return
    lf = lib[0]
    argc = lf.body['argc']
    flags = [i for i in range(1, argc + 1) if lf.local_ty(i).strip() == 'bool']
    optargs = [i for i in range(1, argc + 1) if lf.local_ty(i).strip().startswith(('core::option::Option<', 'Option<'))]
    if not chk.anchor(RG, 'exactly one bool parameter (reset call stack) and one Option parameter (arguments) of '
                      'Story::choose_path_string', len(flags) == 1 and len(optargs) == 1):
        return
    fi, ai = flags[0] - 1, optargs[0] - 1
    total, ords = 0, {}
    for fn in sorted(prog.fns.values(), key=lambda f: f.p):
        if fn.crate != 'rinklecate':
            continue
        for bb, t in fn.calls():
            if callee_short(t) != 'Story::choose_path_string':
                continue
            total += 1
            root = prog.root_fn(fn).short
            n = ords[root] = ords.get(root, 0) + 1
            if len(t['args']) <= max(fi, ai):
                chk.fail(RG, chk.key(RG, root, '#%d' % n, 'call-shape'),
                         'call of Story::choose_path_string with %d arguments: flag / arguments not found; failing closed'
                         % len(t['args']), fn.loc(bb))
                continue
            fa = tr.prov(fn, t['args'][fi])
            chk.decide(RG, chk.key(RG, root, '#%d' % n, 'call-stack-reset'), fa == {'const:true'},
                       'the call stack is reset (constant true)',
                       '%s jumps to the typed path with a reset-call-stack flag that is not the constant true (%s): the '
                       'frames the story was waiting in (a tunnel, a thread) survive the jump, so `->->` or running out of '
                       'content continues in the old caller where the library, driven as a host drives it, reports an '
                       'error or ends' % (root, ', '.join(sorted(fa)) or 'unknown'), fn.loc(bb))
            aa = tr.prov(fn, t['args'][ai])
            chk.decide(RG, chk.key(RG, root, '#%d' % n, 'no-arguments'), aa == {'agg:Option::None'},
                       'no arguments are passed (None)',
                       '%s passes arguments to the typed path (%s) although the prompt has no way to give any: the '
                       'target starts with values on the evaluation stack / temporaries the library call with the same '
                       'input does not set' % (root, ', '.join(sorted(aa))[:160] or 'unknown'), fn.loc(bb))
    chk.floor(RG, 'Story::choose_path_string calls in rinklecate', total, 1)


def every_play_path_allows_fallbacks(chk, prog, tr):
    RF = 'C20.every-play-path-configures-the-story'
    chk.rule(RF, 'The tool plays stories with ink fallbacks for unbound EXTERNAL functions allowed. Wherever it constructs a '
             'Story (Story::new) every path from there to the first Story::cont - through the functions it calls - passes '
             'set_allow_external_function_fallbacks: a construction site that reaches the player without it plays the same '
             'program differently (an EXTERNAL with an ink fallback fails) depending on whether it was given as source or '
             'as compiled JSON.')
    fns = [f for f in prog.fns.values() if f.crate == 'rinklecate' and not f.parent]
    by_p = {f.p: f for f in fns}

    def direct(f, names):
        return [bb for g_ in [f] for bb, t in g_.calls() if callee_short(t) in names]
    # which functions may reach Story::cont
    reach = set()
    changed = True
    while changed:
        changed = False
        for f in fns:
            if f.p in reach:
                continue
            for g_ in prog.with_closures(f):
                for bb, t in g_.calls():
                    if callee_short(t) in ('Story::cont', 'Story::continue_maximally', 'Story::continue_async') \
                            or callee(t) in reach:
                        reach.add(f.p)
                        changed = True
    est = {}

    def establishes(f, depth=0):
        """every path from f's entry to a call that may reach cont passes set_allow (directly or in an establishing callee)"""
        if f.p in est:
            return est[f.p]
        est[f.p] = False
        g = cfg(f)
        setters, conts = [], []
        for bb, t in f.calls():
            cs = callee_short(t)
            h = by_p.get(callee(t))
            if cs == 'Story::set_allow_external_function_fallbacks':
                setters.append(bb)
            elif h is not None and depth < 4 and h.p in reach and establishes(h, depth + 1):
                setters.append(bb)
            elif cs in ('Story::cont', 'Story::continue_maximally', 'Story::continue_async') or callee(t) in reach:
                conts.append(bb)
        ok = g.path([0], lambda b: b in conts, avoid=setters) is None
        est[f.p] = ok
        return ok
    n = 0
    for f in fns:
        news = [bb for bb, t in f.calls() if callee_short(t) == 'Story::new']
        if not news:
            continue
        g = cfg(f)
        setters, conts = [], []
        for bb, t in f.calls():
            cs = callee_short(t)
            h = by_p.get(callee(t))
            if cs == 'Story::set_allow_external_function_fallbacks' or (h is not None and h.p in reach and establishes(h)):
                setters.append(bb)
            elif cs in ('Story::cont', 'Story::continue_maximally', 'Story::continue_async') or callee(t) in reach:
                conts.append(bb)
        for nb in news:
            n += 1
            w = g.path([nb], lambda b: b in conts, avoid=setters)
            chk.decide(RF, chk.key(RF, f.short, '#%d' % n), w is None,
                       'the story is configured before it is played',
                       '%s constructs a Story and reaches the player without allowing ink fallbacks for external functions '
                       '(neither here nor in the function it hands the story to)' % f.short, f.loc(nb), {'witness_blocks': w})
    chk.floor(RF, 'Story construction sites in rinklecate', n, 2)
