"""C04 — story faults are errors, never panics (integer arithmetic totality, fault routing, reset)."""
import re

from analysis.facts import callee, callee_short
from analysis.cfg import cfg
from analysis.guards import resolve_cond, GuardFlow
from analysis.defuse import Tracer

INT_TYPES = ('i32',)
TRAP_METHODS = re.compile(r'^i32::(wrapping_div|wrapping_rem|overflowing_div|overflowing_rem|div_euclid|rem_euclid|'
                          r'wrapping_div_euclid|wrapping_rem_euclid|pow|abs|isqrt|ilog|ilog2|ilog10|'
                          r'unchecked_\w+|strict_\w+)$')
OP_TRAIT_CALL = re.compile(r'^<&?(mut )?i32 as (Add|Sub|Mul|Div|Rem|Neg|AddAssign|SubAssign|MulAssign|DivAssign|RemAssign)>::')

STORY_PATTERNS = ('field:ValueType::Int.0', 'call:Value::get_value', 'via:Value::get_value',
                  'field:StoryState::story_seed', 'field:StoryState::previous_random',
                  'call:StoryState::pop_evaluation_stack', 'via:StoryState::pop_evaluation_stack',
                  'call:RngExt::random', 'field:InkList::items', 'field:ListDefinition::item_name_to_values',
                  'field:ListDefinition::items', 'call:Value::as_i64', 'via:Value::as_i64', 'call:Value::as_f64',
                  'field:VariablePointerValue::context_index', 'field:Number::Int.0', 'call:str::parse')
STRUCT_CALLS = ('Vec::len', 'str::len', '[T]::len', 'String::len', 'HashMap::len', 'VecDeque::len', 'Iterator::enumerate',
                'Iterator::count', 'Chars::count', 'usize::min', 'usize::max', 'cmp::min', 'cmp::max')

# Frozen table: sites whose operands are neither visibly story-valued nor purely structural.
# key -> reason (confirmed by reading).  Keys carry no line numbers.
TABLE = {
    'Story::perform_logic_and_flow_control|overflow:Add|field:StoryState::current_turn_index':
        'TURNS: current_turn_index + 1; monotone counter moved by one per choice (2^31 choices)',
    'StoryState::set_chosen_path|overflow:Add|field:StoryState::current_turn_index':
        'current_turn_index += 1 per choice taken; monotone counter',
    'Story::perform_logic_and_flow_control|overflow:Sub|call:StoryState::visit_count_for_container':
        'VISIT_INDEX: visit count - 1; counts are >= 0 and move by one per visit',
    'StoryState::increment_visit_count_for_container|overflow:Add|call:StoryState::visit_count_for_container':
        'visit count + 1; monotone counter (2^31 visits)',
    'StoryState::increment_visit_count_for_container|overflow:Add|field:StoryState::visit_counts':
        'visit count + 1 (non-patched branch); monotone counter',
    'StoryState::turns_since_for_container|<i32 as Sub>::sub|field:StoryState::current_turn_index':
        'current_turn_index - recorded turn index: both are turn counters in [0, 2^31), difference cannot overflow',
    'StoryState::turns_since_for_container|overflow:Sub|field:StoryState::current_turn_index':
        'current_turn_index - recorded turn index: both are turn counters in [0, 2^31)',
    'Story::increment_content_pointer|overflow:Add|field:Pointer::index':
        'pointer.index += 1; bounded by content.len() for every pointer the engine builds',
    'Container::content_at_path|overflow:Sub|arg:4':
        'partial_path_length - 1; callers pass path.len() or a loop bound (>= 0)',
    'Story::next_sequence_shuffle_index|i32::rem_euclid|call:Vec::len':
        'rem_euclid(unpicked.len()): len >= 1 because i <= iteration_index < num_elements and one element is removed '
        'per iteration (num_elements > 0 is checked before)',
}


class Classifier:
    def __init__(self, prog, tr):
        self.prog = prog
        self.tr = tr
        self._ret = {}

    def ret_class(self, path, depth=0):
        if path in self._ret:
            return self._ret[path]
        g = self.prog.fns.get(path)
        if g is None or depth > 3:
            return 'unknown'
        self._ret[path] = 'unknown'
        c, _ = self.classify_atoms(self.tr.prov_local(g, 0), depth + 1, inside=g)
        self._ret[path] = c
        return c

    def classify_atoms(self, atoms, depth=0, inside=None):
        """-> ('story' | 'structural' | 'unknown', witnesses)"""
        story = sorted(a for a in atoms if any(a.startswith(p) for p in STORY_PATTERNS))
        if story:
            return 'story', story
        unknown = []
        for a in atoms:
            if a.startswith(('const:', 'op:', 'cast:', 'via:', 'agg:', 'indexed')) or a in ('discr',):
                continue
            if a.startswith('field:Option::') or a.startswith('field:Result::'):
                continue
            if a.startswith('call:'):
                cs = a[5:]
                if cs in STRUCT_CALLS or cs.endswith('::len'):
                    continue
                # repository function: classify its return value
                cands = self.prog.by_short.get(cs, [])
                if len(cands) == 1:
                    rc = self.ret_class(cands[0].p, depth)
                    if rc == 'structural':
                        continue
                    if rc == 'story':
                        return 'story', [a]
                unknown.append(a)
                continue
            unknown.append(a)
        if unknown:
            return 'unknown', sorted(unknown)
        return 'structural', []


def run(chk, prog):
    tr = Tracer(prog)
    cl = Classifier(prog, tr)
    chk.not_decided += ['whether a compiler-accepted program can reach one of the interpreter\'s unwrap/index sites '
                        '(reachability over all programs; not claimed)',
                        'usize index arithmetic (structural, not story values)',
                        'that the messages are the ones the reference engine prints']
    RA = 'C04.int-arith'
    chk.rule(RA, 'In bladeink, every i32 overflow / division / remainder Assert, every operator-trait call on i32 '
             'references and every trap-capable i32 method is an obligation decided by operand provenance: operands '
             'derived from story values (ValueType::Int payloads, evaluation-stack pops, list item values, story_seed, '
             'previous_random, RNG output, parsed numbers) make the site a violation (such arithmetic must use '
             'wrapping_*/checked_*, which leave no Assert); purely structural operands (constants, len(), enumerate '
             'indices, casts of them) discharge it; anything else needs a line in the frozen table with its reason.')
    RB = 'C04.fault-routing'
    chk.rule(RB, 'In continue_internal the Err edge of continue_single_step reaches Story::add_error on every path and no '
             '`?`/early Err return sits inside the interpreter loop; Story::add_error(false) passes force_end.')
    RC = 'C04.reset-replaces-state'
    chk.rule(RC, 'reset_state assigns Story::state as a whole from StoryState::new(..) and then runs reset_globals.')

    # ---------------------------------------------------------------- A
    n = 0
    used = set()
    ords = {}
    for fn in sorted(prog.fns.values(), key=lambda f: f.p):
        if fn.crate != 'bladeink':
            continue
        for bb, t in fn.terms():
            kind = None
            ops = []
            if t['k'] == 'assert' and t.get('ak') in ('overflow', 'overflow_neg', 'div_zero', 'rem_zero') \
                    and t.get('oty') in INT_TYPES:
                kind = '%s:%s' % (t['ak'], t.get('op')) if t['ak'] == 'overflow' else t['ak']
                ops = [t['a']] + ([t['b']] if 'b' in t else [])
                if t['ak'] in ('div_zero', 'rem_zero'):
                    # the operand of a zero-divisor assert is the divisor
                    pass
            elif t['k'] == 'call':
                cs = callee_short(t)
                if OP_TRAIT_CALL.match(cs) or TRAP_METHODS.match(cs):
                    kind = cs
                    ops = list(t['args'])
                    if re.search(r'(div|rem)(_euclid)?$', cs) and len(ops) == 2:
                        # the trap is a zero (or -1 with MIN) divisor: decided by the divisor alone when the
                        # divisor is structural (a length can be neither negative nor story-controlled)
                        dv = tr.prov(fn, ops[1])
                        if cl.classify_atoms(dv)[0] == 'structural':
                            ops = [ops[1]]
            if kind is None:
                continue
            n += 1
            atoms = set()
            for o in ops:
                atoms |= tr.prov(fn, o)
            c, wit = cl.classify_atoms(atoms)
            base = '%s|%s' % (fn.short, kind)
            if c == 'story':
                k = ords.get(base, 0)
                ords[base] = k + 1
                chk.fail(RA, chk.key(RA, fn.short, kind, '#%d' % k),
                         'i32 %s on a story-controlled value (%s): panics on overflow in debug builds / on a zero '
                         'divisor in every build, wraps silently in release' % (kind, ', '.join(wit[:3])), fn.loc(bb),
                         {'provenance': sorted(atoms)})
            elif c == 'structural':
                k = ords.get(base, 0)
                ords[base] = k + 1
                if kind in ('div_zero', 'rem_zero') or TRAP_METHODS.match(kind):
                    tkey = '%s|%s|%s' % (fn.short, kind, sorted(a for a in atoms if a.startswith('call:'))[0]
                                         if any(a.startswith('call:') for a in atoms) else 'const')
                    if tkey in TABLE:
                        used.add(tkey)
                        chk.ok(RA, chk.key(RA, fn.short, kind, '#%d' % k), 'table: ' + TABLE[tkey], fn.loc(bb))
                    elif all(a.startswith(('const:', 'op:', 'cast:')) for a in atoms) and 'const:0' not in atoms:
                        chk.ok(RA, chk.key(RA, fn.short, kind, '#%d' % k), 'constant non-zero divisor', fn.loc(bb))
                    else:
                        chk.fail(RA, chk.key(RA, fn.short, kind, '#%d' % k),
                                 'structural divisor (%s) may be zero and the site is not in the confirmed table'
                                 % sorted(atoms)[:4], fn.loc(bb))
                else:
                    chk.ok(RA, chk.key(RA, fn.short, kind, '#%d' % k),
                           'structural operands only (index / length arithmetic)', fn.loc(bb))
            else:
                hit = None
                for w in wit:
                    tkey = '%s|%s|%s' % (fn.short, kind, w)
                    if tkey in TABLE:
                        hit = tkey
                        break
                k = ords.get(base, 0)
                ords[base] = k + 1
                if hit:
                    used.add(hit)
                    chk.ok(RA, chk.key(RA, fn.short, kind, '#%d' % k), 'table: ' + TABLE[hit], fn.loc(bb))
                else:
                    chk.fail(RA, chk.key(RA, fn.short, kind, wit[0] if wit else '?'),
                             'i32 %s whose operand provenance is lost (%s) and that is not in the confirmed table: '
                             'may trap if the value is story-controlled' % (kind, ', '.join(wit[:4])), fn.loc(bb),
                             {'provenance': sorted(atoms)})
    chk.floor(RA, 'i32 arithmetic trap sites in bladeink', n, 30)
    for k in TABLE:
        if k not in used:
            chk.note('C04 table entry matches no site (stale): ' + k)

    # ---------------------------------------------------------------- D
    RD = 'C04.optional-origin-not-unwrapped'
    chk.rule(RD, 'No unwrap/expect in bladeink has a receiver that derives from InkListItem::origin_name (directly or '
             'through get_origin_name): the story decoder builds items without an origin for names that contain no dot, '
             'so such an unwrap is a panic reachable from a loadable story.')
    from analysis.panics import sites as panic_sites
    nun = 0
    for fn in sorted(prog.fns.values(), key=lambda f: f.p):
        if fn.crate != 'bladeink':
            continue
        for s_ in panic_sites(prog, fn):
            if not s_['kind'].startswith('unwrap:') or not s_['term']['args']:
                continue
            at = tr.prov(fn, s_['term']['args'][0])
            if 'field:InkListItem::origin_name' in at or any('InkListItem::get_origin_name' in a for a in at):
                nun += 1
                chk.fail(RD, chk.key(RD, prog.root_fn(fn).short, '#%d' % nun),
                         '%s unwraps the optional origin name of a list item: a story whose list value names an item '
                         'without its list panics here' % prog.root_fn(fn).short, fn.loc(s_['bb']))
    g_on = prog.fn('InkListItem::get_origin_name')
    if chk.anchor(RD, 'InkListItem::get_origin_name', g_on):
        chk.decide(RD, chk.key(RD, 'getter-returns-option'), g_on.body['locals'][0]['ty'].startswith('core::option::Option<'),
                   'the origin name is optional in the type (%d unwraps of it found)' % nun,
                   'InkListItem::get_origin_name no longer returns an Option', g_on.loc(0))

    # ---------------------------------------------------------------- E
    RE = 'C04.popped-values-not-unwrapped'
    chk.rule(RE, 'The dynamic type of a value taken from the evaluation stack is decided by the story (a function that '
             'returns nothing leaves Void there): no unwrap/expect is applied to a downcast (Value::get_value, downcast, '
             'downcast_ref) of a value that comes from pop/peek_evaluation_stack, or - inside NativeFunctionCall - from the '
             'operand vector, unless the success of that very downcast was tested on the way (is_some / is_ok / if let) or '
             'the site is one of the confirmed exceptions below, each of which rests on a condition that is checked '
             'separately.')
    POPPED_EXCEPTIONS = {
        'NativeFunctionCall::call_list_increment_operation|Value::get_value':
            'called only from call_binary_list_operation under is_some() tests of exactly these two downcasts '
            '(checked below: single caller, dominated by both tests)',
        'Story::pop_choice_string_and_tags|Rc::downcast':
            'the loop condition tests peek_evaluation_stack().is::<Tag>() before each pop (checked below)',
        'Story::pop_choice_string_and_tags|peek':
            'the same loop condition tests !evaluation_stack.is_empty() first (short-circuit &&)',
    }
    lt_ = Tracer(prog, transparent=lambda cs: True, use_summaries=False)
    SRC_ = ('StoryState::pop_evaluation_stack', 'StoryState::pop_evaluation_stack_multiple', 'StoryState::peek_evaluation_stack')
    from analysis.panics import guard_dominated, guarded_by_reassignment
    n_tainted, used_exc = 0, set()
    for fn in sorted(prog.fns.values(), key=lambda f: f.p):
        if fn.crate != 'bladeink':
            continue
        root = prog.root_fn(fn)
        in_nfc = (root.self_adt or '').endswith('NativeFunctionCall')
        ordn = {}
        for s_ in panic_sites(prog, fn):
            if not s_['kind'].startswith('unwrap:') or not s_['term']['args']:
                continue
            at = lt_.prov(fn, s_['term']['args'][0])
            vias = {a[4:] for a in at if a.startswith('via:')}
            src = [v for v in vias if v in SRC_]
            if in_nfc:
                src += [a for a in at if a.startswith('arg:') and 'dyn' in fn.local_ty(int(a[4:]))
                        and 'RTObject' in fn.local_ty(int(a[4:]))]
            down = sorted(v for v in vias if v.rsplit('::', 1)[-1] in ('get_value', 'downcast', 'downcast_ref'))
            if src and not down and 'StoryState::peek_evaluation_stack' in vias:
                down = ['peek']          # the Option returned by peek itself: None on an empty stack
            if not src or not down:
                continue
            n_tainted += 1
            if guard_dominated(prog, fn, s_, tr) or guarded_by_reassignment(prog, fn, s_, tr):
                chk.ok(RE, chk.key(RE, root.short, down[0], 'guarded#%d' % n_tainted), 'tested (or assigned Some) before use',
                       fn.loc(s_['bb']))
                continue
            ek = '%s|%s' % (root.short, down[0])
            exc = POPPED_EXCEPTIONS.get(ek)
            i_ = ordn.get(ek, 0)
            ordn[ek] = i_ + 1
            if exc:
                used_exc.add(ek)
                chk.ok(RE, chk.key(RE, root.short, down[0], 'exception#%d' % i_), 'confirmed exception: ' + exc, fn.loc(s_['bb']))
            else:
                chk.fail(RE, chk.key(RE, root.short, down[0], '#%d' % i_),
                         '%s unwraps a downcast (%s) of a value taken from the evaluation stack without testing it: a story '
                         'that leaves a value of another kind there (Void from a function without return, ...) aborts the '
                         'process instead of reporting a story error' % (root.short, down[0]), fn.loc(s_['bb']))
    chk.floor(RE, 'unwraps of downcast evaluation-stack values examined', n_tainted, 10)
    for ek in POPPED_EXCEPTIONS:
        if ek not in used_exc:
            chk.note('C04 popped-values exception matches no site (stale): ' + ek)

    from rules.docopt import check_document_decided_options
    check_document_decided_options(chk, prog, 'C04.story-decided-options-not-unwrapped',
                                   ' (Shared with C15: what a compiled story can say, a document can say.)')

    # backing conditions of the exceptions
    RF = 'C04.void-rejected-before-dispatch'
    chk.rule(RF, 'In NativeFunctionCall::call every dispatch (call_binary_list_operation, coerce_values_to_single_type, '
             'call_type) is dominated by the test that rejects a Void operand, and that test leads to an Err return.')
    nc = prog.fn('NativeFunctionCall::call')
    if chk.anchor(RF, 'NativeFunctionCall::call', nc):
        gnc = cfg(nc)

        def is_void_test(fn_, t_):
            return callee_short(t_).endswith('::is') and any('void::Void' in x or x.endswith('Void') for x in (t_['f'].get('targs') or []))
        tests = []
        loops_nc = gnc.loops_heads()
        for bb, t_ in nc.calls():
            if is_void_test(nc, t_):
                tests.append(bb)
                # a test inside a loop over the operands: what follows the loop has passed it for every operand
                for h_, tails_ in loops_nc.items():
                    if bb in gnc.loop_body(h_, tails_):
                        tests.append(h_)
        for c_ in prog.closures_of(nc):
            if any(is_void_test(c_, t_) for _, t_ in c_.calls()):
                # an iterator adaptor taking that closure
                mark = '{closure@%s:%d:' % (c_.sp['f'], c_.sp['l'])
                for bb, t_ in nc.calls():
                    if any(a.get('k') in ('copy', 'move') and mark in nc.local_ty(a['pl']['l']) for a in t_['args']):
                        tests.append(bb)
        disp = [(bb, callee_short(t_)) for bb, t_ in nc.calls() if callee_short(t_) in (
            'NativeFunctionCall::call_binary_list_operation', 'NativeFunctionCall::coerce_values_to_single_type',
            'NativeFunctionCall::call_type', 'NativeFunctionCall::call_list_increment_operation')]
        if chk.anchor(RF, 'Void test in NativeFunctionCall::call', tests) and chk.floor(RF, 'dispatch calls', len(disp), 3):
            for bb, cs in disp:
                chk.decide(RF, chk.key(RF, cs), any(gnc.dominates(tb, bb) for tb in tests),
                           'dominated by the Void test',
                           'NativeFunctionCall::call dispatches to %s before it has rejected Void operands: the callee '
                           'unwraps the downcast of its operands to Value' % cs, nc.loc(bb))
    inc = prog.fn('NativeFunctionCall::call_list_increment_operation')
    if chk.anchor(RF, 'NativeFunctionCall::call_list_increment_operation', inc):
        callers = prog.callers('NativeFunctionCall::call_list_increment_operation')
        ok_ = len(callers) == 1
        why = 'callers: %s' % [prog.root_fn(c[0]).short for c in callers]
        if ok_:
            cf, cbb, ct = callers[0]
            gcf = cfg(cf)
            tested = set()
            for b in gcf.dominators().get(cbb, ()):
                tt = cf.blocks[b]['term']
                if tt and tt['k'] == 'switch':
                    c = resolve_cond(prog, cf, tt['d'], tr)
                    if c is not None and c.desc[0] == 'is_some':
                        # the call must lie on the Some side
                        good = [tb for v, tb in tt['ts'] if c.truth_of_value(v)]
                        rest = {0, 1} - {v for v, _ in tt['ts']}
                        if rest and c.truth_of_value(next(iter(rest))):
                            good.append(tt['else'])
                        bad_ = [x for x in ([tb for v, tb in tt['ts']] + [tt['else']]) if x not in good]
                        if cbb not in gcf.reachable(bad_):
                            tested.add(b)
            ok_ = len(tested) >= 2
            why = '%d dominating is_some tests on the call path' % len(tested)
        chk.decide(RF, chk.key(RF, 'increment-operands-tested'), ok_, why,
                   'call_list_increment_operation unwraps its two downcasts but is not called under tests of both (%s)' % why,
                   inc.loc(0))
    pct = prog.fn('Story::pop_choice_string_and_tags')
    if chk.anchor(RF, 'Story::pop_choice_string_and_tags', pct):
        gp = cfg(pct)
        is_tag = [bb for bb, t_ in pct.calls() if callee_short(t_).endswith('::is') and any(
            x.endswith('Tag') for x in (t_['f'].get('targs') or []))]
        dc = [bb for bb, t_ in pct.calls() if callee_short(t_) == 'Rc::downcast']
        chk.decide(RF, chk.key(RF, 'tag-pop-tested'), bool(is_tag) and bool(dc) and all(
            any(gp.dominates(tb, b) for tb in is_tag) for b in dc),
            'the downcast to Tag is dominated by the is::<Tag>() test',
            'pop_choice_string_and_tags downcasts a popped value to Tag without the is::<Tag>() test before it',
            pct.loc(dc[0]) if dc else pct.loc(0))

    # ---------------------------------------------------------------- I
    RI = 'C04.divisor-not-zero'
    chk.rule(RI, 'Every division / remainder of the runtime whose zero check is a panicking Assert (all integer types; the '
             'i32 operators of the story use checked_div / checked_rem and are covered by int-arith) has a divisor that is '
             'known not to be zero where it is used: the Assert is dominated by a comparison of the same value with a '
             'constant whose side taken for 0 cannot reach it, or by an emptiness test of the collection whose length it is.')
    from analysis.defuse import du as _du4
    ndiv = 0
    for fn in sorted(prog.fns.values(), key=lambda f: f.p):
        if fn.crate != 'bladeink' or '::tests::' in fn.p:
            continue
        gq = cfg(fn)
        dq = _du4(fn)
        for bb, t in fn.terms():
            if t['k'] != 'assert' or t.get('ak') not in ('rem_zero', 'div_zero'):
                continue
            ndiv += 1
            c0 = t['cond']
            dv = None
            if c0.get('k') in ('copy', 'move'):
                for df in dq.defs.get(c0['pl']['l'], []):
                    if df['kind'] == 'assign' and df['rv']['k'] == 'binop':
                        dv = df['rv']['a']
            root = prog.root_fn(fn).short
            key = chk.key(RI, root, t.get('oty', '?'), '#%d' % ndiv)
            if dv is None:
                chk.fail(RI, key, 'cannot identify the divisor of this %s check' % t['ak'], fn.loc(bb))
                continue
            dprov = {a for a in tr.prov(fn, dv) if not a.startswith(('cast:', 'const:'))}
            guarded = None
            for b in gq.dominators().get(bb, ()):
                tt = fn.blocks[b]['term']
                if not tt or tt['k'] != 'switch':
                    continue
                cnd = resolve_cond(prog, fn, tt['d'], tr)
                if cnd is None:
                    continue
                zero_edges = None
                if cnd.desc[0] == 'cmp' and isinstance(cnd.desc[3], int):
                    gprov = {a for a in cnd.desc[2] if not a.startswith(('cast:', 'const:'))}
                    if not gprov or not (gprov <= dprov or dprov <= gprov):
                        continue
                    op_, k_ = cnd.desc[1], cnd.desc[3]
                    rel = op_[1:] if op_.startswith('r') else op_
                    a_, b_ = (k_, 0) if op_.startswith('r') else (0, k_)
                    truth0 = {'Eq': a_ == b_, 'Ne': a_ != b_, 'Lt': a_ < b_, 'Le': a_ <= b_, 'Gt': a_ > b_, 'Ge': a_ >= b_}[rel]
                    if not cnd.positive:
                        truth0 = not truth0
                    zero_edges = [tb for v, tb in tt['ts'] if cnd.truth_of_value(v) == truth0]
                    if len(tt['ts']) == 1 and cnd.truth_of_value(1 - tt['ts'][0][0]) == truth0:
                        zero_edges.append(tt['else'])
                elif cnd.desc[0] == 'call' and cnd.desc[1].rsplit('::', 1)[-1] == 'is_empty' \
                        and any(a.rsplit('::', 1)[-1] == 'len' for a in dprov):
                    groots = {a for a in cnd.desc[2] if a.startswith(('arg:', 'field:'))}
                    droots = {a for a in tr.prov(fn, dv) if a.startswith(('arg:', 'field:'))}
                    zero_edges = [tb for v, tb in tt['ts'] if cnd.truth_of_value(v)]
                    if len(tt['ts']) == 1 and cnd.truth_of_value(1 - tt['ts'][0][0]):
                        zero_edges.append(tt['else'])
                    if not zero_edges:
                        continue
                if zero_edges is not None and bb not in gq.reachable(zero_edges, avoid=[b]):
                    guarded = '%s at %s' % (cnd.desc[1] if cnd.desc[0] != 'cmp' else 'comparison with %s' % cnd.desc[3],
                                            fn.loc(b))
                    break
            chk.decide(RI, key, guarded is not None, 'the divisor cannot be 0 here: ' + (guarded or ''),
                       '%s divides (%s, %s) by a value that no dominating test keeps away from 0 (divisor provenance %s): '
                       'a story that makes it 0 aborts the process instead of raising a story error'
                       % (root, t['ak'], t.get('oty'), sorted(dprov)[:4]), fn.loc(bb))
    chk.floor(RI, 'panicking zero checks of divisions in the runtime', ndiv, 2)

    # ---------------------------------------------------------------- H
    RH = 'C04.unresolved-divert-is-a-fault'
    chk.rule(RH, 'A divert whose target cannot be found is a story fault, not a jump somewhere near: (a) '
             'Divert::get_target_pointer reads SearchResult::approximate of the resolution it uses and returns the null '
             'pointer on its true side (otherwise the nearest container found - for an unknown name the root - becomes '
             'the target and a call to it never returns); (b) in perform_logic_and_flow_control the test of '
             'diverted_pointer.is_null() after a divert leads to an Err return, and no call-stack push precedes it.')
    gtp = prog.fn('Divert::get_target_pointer')
    if chk.anchor(RH, 'Divert::get_target_pointer', gtp):
        g_ = cfg(gtp)
        res = [bb for bb, t in gtp.calls() if callee_short(t) in ('Object::resolve_path', 'Container::content_at_path')]
        sw = []
        for bb, t in gtp.terms():
            if t['k'] == 'switch':
                c_ = resolve_cond(prog, gtp, t['d'], tr)
                if c_ is not None and c_.desc[0] == 'field' and c_.desc[1] == 'SearchResult::approximate':
                    sw.append((bb, t, c_))
        uses = [bb for bb, t in gtp.calls() if callee_short(t) in ('Pointer::new', 'Pointer::start_of')
                and any(r in g_.reachable([x]) for x in res for r in [bb])]
        ok = bool(res) and bool(sw)
        if ok:
            for bb, t, c_ in sw:
                bad = [tb for v, tb in t['ts'] if c_.truth_of_value(v)] + \
                      ([t['else']] if not c_.truth_of_value(next(iter({0, 1} - {v for v, _ in t['ts']}), 0)) is False
                       and len(t['ts']) == 1 and c_.truth_of_value(1 - t['ts'][0][0]) else [])
                reach = g_.reachable(bad, avoid=[bb])
                if any(u in reach for u in uses):
                    ok = False
            # every use of the resolution is dominated by such a test
            ok = ok and all(any(g_.dominates(b, u) for b, _, _ in sw) for u in uses if any(u in g_.reachable([r]) for r in res))
        chk.decide(RH, chk.key(RH, 'approximate-not-followed'), ok,
                   'the approximate flag is tested and its true side builds no pointer',
                   'Divert::get_target_pointer builds the target pointer from a path resolution without testing '
                   'SearchResult::approximate: a divert to a name that does not exist lands on the nearest container '
                   'found (the root for an unknown knot) instead of failing', gtp.loc(res[0]) if res else gtp.loc(0))
    plf = prog.fn('Story::perform_logic_and_flow_control')
    if chk.anchor(RH, 'Story::perform_logic_and_flow_control', plf):
        g_ = cfg(plf)
        sdp = [bb for bb, t in plf.calls() if callee_short(t) == 'StoryState::set_diverted_pointer'
               and any('Divert::get_target_pointer' in a for a in tr.prov(plf, t['args'][1]))]
        nulls = []
        for bb, t in plf.terms():
            if t['k'] == 'switch':
                c_ = resolve_cond(prog, plf, t['d'], tr)
                if c_ is not None and c_.desc[0] == 'call' and c_.desc[1] == 'Pointer::is_null' \
                        and 'field:StoryState::diverted_pointer' in c_.desc[2]:
                    nulls.append((bb, t, c_))
        if chk.anchor(RH, 'set_diverted_pointer(get_target_pointer())', sdp):
            from analysis.wbf import err_exits as _ee
            errs = {b for b, d_, s_ in _ee(prog, plf)}
            good = False
            for bb, t, c_ in nulls:
                if not any(bb in g_.reachable([x]) for x in sdp):
                    continue
                true_t = [tb for v, tb in t['ts'] if c_.truth_of_value(v)]
                if len(t['ts']) == 1 and c_.truth_of_value(1 - t['ts'][0][0]):
                    true_t.append(t['else'])
                # from the null side some Err exit is reached without passing a push
                pushes = [b for b, tt in plf.calls() if callee_short(tt) == 'CallStack::push']
                r_ = g_.reachable(true_t, avoid=pushes)
                pre = g_.reachable(sdp, avoid=[bb])
                if any(e in r_ for e in errs) and not any(p_ in pre and bb in g_.reachable([p_]) for p_ in pushes):
                    good = True
            chk.decide(RH, chk.key(RH, 'null-target-reported'), good,
                       'a null diverted pointer leads to an Err before any call-stack push',
                       'after a divert whose target pointer is null perform_logic_and_flow_control reports nothing (or '
                       'pushes a call-stack frame first): the story silently carries on behind the divert',
                       plf.loc(sdp[0]))

    # ---------------------------------------------------------------- G
    RG = 'C04.safe-exit-flag-is-fresh'
    chk.rule(RG, 'The flag that suppresses the "ran out of content" diagnosis (StoryState::did_safe_exit) is false when a '
             'continue starts: in continue_internal every path that begins a new continue (async_continue_active false at '
             'entry) passes set_did_safe_exit(false) before the flag is read at the end. force_end() sets it also outside any '
             'continue (reset_callstack on a host path jump), so a stale true would swallow the fault of the next continue.')
    ci_ = prog.fn('Story::continue_internal')
    if chk.anchor(RG, 'Story::continue_internal', ci_):
        def atom_a(desc):
            return 'async' if desc == ('field', 'Story::async_continue_active') else None
        gfa_ = GuardFlow(prog, ci_, atom_a, tracer=tr, assume={'async': False})
        gfa_.run()
        reads_ = [bb for bb, t in ci_.calls() if callee_short(t) == 'StoryState::is_did_safe_exit'] + \
                 [bb for bb, si, s_ in ci_.stmts() if s_['k'] == 'assign' and any(
                     pe.get('n') == 'did_safe_exit' for pe in (s_['rv'].get('pl') or {}).get('p', []))]
        resets_ = [bb for bb, t in ci_.calls() if callee_short(t) == 'StoryState::set_did_safe_exit'
                   and len(t['args']) > 1 and t['args'][1].get('bool') is False]
        if chk.anchor(RG, 'read of did_safe_exit in continue_internal', reads_):
            w = gfa_.feasible_path([0], lambda b: b in reads_, avoid=resets_) if 0 not in resets_ else None
            chk.decide(RG, chk.key(RG, 'reset-before-read'), bool(resets_) and w is None,
                       'a new continue clears the flag before it is read',
                       'continue_internal can read did_safe_exit at the end of a newly started continue without having '
                       'cleared it: a flag left true by force_end() outside a continue (reset_callstack during '
                       'choose_path_string) suppresses the "ran out of content" error of that continue',
                       ci_.loc(reads_[0]), {'witness_blocks': w})

    # ---------------------------------------------------------------- B
    ci = prog.fn('Story::continue_internal')
    if chk.anchor(RB, 'Story::continue_internal', ci):
        g = cfg(ci)
        steps = [(bb, t) for bb, t in ci.calls() if callee_short(t) == 'Story::continue_single_step']
        chk.floor(RB, 'calls of continue_single_step in continue_internal', len(steps), 1)
        add_err = [bb for bb, t in ci.calls() if callee_short(t) == 'Story::add_error']
        heads = g.loops_heads()
        for i, (bb, t) in enumerate(steps):
            # the switch on the result's discriminant
            nb = t.get('t')
            sw = ci.blocks[nb]['term'] if nb is not None else None
            err_t = None
            if sw and sw['k'] == 'switch':
                for v, tb in sw['ts']:
                    if v == 1:
                        err_t = tb
                if err_t is None and 0 in [v for v, _ in sw['ts']]:
                    err_t = sw['else']
            if err_t is None:
                chk.fail(RB, chk.key(RB, 'continue_internal', 'step#%d' % i, 'no-err-branch'),
                         'cannot find the Err branch of the continue_single_step result', ci.loc(bb))
                continue
            w = g.path([err_t], lambda b: b in g.returns, avoid=add_err)
            chk.decide(RB, chk.key(RB, 'continue_internal', 'step#%d' % i, 'err-recorded'), w is None,
                       'the Err edge reaches Story::add_error on every path',
                       'a StoryError returned by a step can leave continue_internal without being recorded by '
                       'add_error', ci.loc(bb), {'witness_blocks': w})
            loop = None
            for h, tails in heads.items():
                body = g.loop_body(h, tails)
                if bb in body and (loop is None or len(body) < len(loop)):
                    loop = body
            if loop is None:
                chk.fail(RB, chk.key(RB, 'continue_internal', 'step#%d' % i, 'not-in-loop'),
                         'continue_single_step is not called from a loop', ci.loc(bb))
                continue
            bad = []
            for b in sorted(loop):
                tt = ci.blocks[b]['term']
                if tt and tt['k'] == 'call' and callee_short(tt).endswith('::from_residual') and tt['dest'].get('l') == 0:
                    bad.append(b)
                for s in ci.blocks[b]['st']:
                    if s['k'] == 'assign' and s['pl']['l'] == 0 and 'p' not in s['pl'] and s['rv']['k'] == 'agg' \
                            and s['rv'].get('var') == 'Err':
                        bad.append(b)
            chk.decide(RB, chk.key(RB, 'continue_internal', 'step#%d' % i, 'no-propagation-in-loop'), not bad,
                       'no `?` / Err return inside the interpreter loop',
                       'the interpreter loop propagates an error with `?` / returns Err at %s instead of recording it'
                       % [ci.loc(b) for b in bad], ci.loc(bad[0]) if bad else None)
    from rules.c13 import check_add_error_force_end
    check_add_error_force_end(chk, prog, tr, RB)

    # ---------------------------------------------------------------- C
    rs = prog.fn('Story::reset_state')
    if chk.anchor(RC, 'Story::reset_state', rs):
        whole = None
        for bb, si, s in rs.stmts():
            if s['k'] == 'assign':
                pes = [pe for pe in s['pl'].get('p', []) if pe['k'] == 'field']
                if pes and pes[-1].get('n') == 'state' and len(pes) == 1:
                    atoms = tr.prov(rs, s['rv']['op']) if s['rv']['k'] == 'use' else set()
                    if 'call:StoryState::new' in atoms:
                        whole = bb
        globals_after = False
        if whole is not None:
            g = cfg(rs)
            rg = [bb for bb, t in rs.calls() if callee_short(t) == 'Story::reset_globals']
            globals_after = bool(rg) and all(r in g.reachable([whole]) for r in rg) and \
                g.path([whole], lambda b: b in g.returns and _ok_return(rs, b), avoid=rg) is None
        chk.decide(RC, chk.key(RC, 'Story::reset_state', 'whole-state'), whole is not None,
                   'Story::state is replaced as a whole by StoryState::new(..)',
                   'reset_state no longer replaces Story::state as a whole from StoryState::new: residue of the old '
                   'state can survive a reset', rs.loc(0))
        chk.decide(RC, chk.key(RC, 'Story::reset_state', 'reset_globals-after'), globals_after,
                   'reset_globals runs after the replacement on every successful path',
                   'reset_state can return Ok without running reset_globals after replacing the state', rs.loc(0))


def _ok_return(fn, b):
    return True
