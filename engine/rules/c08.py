"""C08 — how the host slices continuation never changes the story (refusal guards, resume/finish structure, pairing)."""
from analysis.facts import callee, callee_short
from analysis.cfg import cfg
from analysis.defuse import Tracer
from analysis.guards import GuardFlow, resolve_cond
from analysis.wbf import WriteBeforeFail, err_exits
from rules.c09 import check_count_pairing, field_leaf

GUARDED = ['Story::continue_maximally', 'Story::get_current_text', 'Story::get_current_tags', 'Story::reset_state',
           'Story::reset_callstack', 'Story::switch_flow', 'Story::choose_path_string', 'Story::evaluate_function',
           'Story::bind_external_function', 'Story::unbind_external_function', 'Story::observe_variable',
           'Story::remove_variable_observer', 'Story::choose_choice_index', 'Story::load_state', 'Story::set_variable',
           'Story::remove_flow', 'Story::switch_to_default_flow']
# public methods that write but are not "state-changing calls" in the property's sense
UNGUARDED_OK = {
    'Story::cont': 'the continue itself (finishes the unfinished line)',
    'Story::continue_async': 'the continue itself',
    'Story::set_error_handler': 'configuration of the host interface, not story state',
    'Story::set_allow_external_function_fallbacks': 'configuration of the host interface, not story state',
}

START_ACTIONS = ['StoryState::reset_output', 'VariablesState::start_variable_observation']
END_ACTIONS = ['VariablesState::complete_variable_observation']


def run(chk, prog):
    tr = Tracer(prog)
    chk.not_decided += ['that the sequence of interpreter steps is the same under every pause schedule (schedule '
                        'enumeration with a virtual clock is dynamic)', 'that callbacks fire identically under slicing']
    RA = 'C08.refusal-guard'
    chk.rule(RA, 'Each state-changing or work-in-progress-reading pub method that is guarded today calls '
             'if_async_we_cant before any semantic write and before any Ok return, and propagates its error.')
    RB = 'C08.resume-does-not-restart'
    chk.rule(RB, 'In continue_internal the start-of-line actions (reset_output, set_did_safe_exit(false) at the start, '
             'start_variable_observation, the can-continue rejection) execute only when async_continue_active was false '
             'at entry; the end-of-line actions (complete_variable_observation, async_continue_active = false, '
             'restore_state_snapshot of the completion block, the "ran out of content" diagnostics) only inside the '
             'block entered through `output_stream_ends_in_newline || !can_continue()`.')
    RC = 'C08.count-paired'
    chk.rule(RC, 'recursive_continue_count is incremented and decremented on every exit (shared with C09).')

    wbf = WriteBeforeFail(prog, tr)
    n = 0
    for name in GUARDED:
        f = prog.fn(name)
        if not chk.anchor(RA, name, f):
            continue
        n += 1
        g = cfg(f)
        guards = [bb for bb, t in f.calls() if callee_short(t) == 'Story::if_async_we_cant']
        key = chk.key(RA, name)
        if not guards:
            chk.fail(RA, key, '%s no longer calls if_async_we_cant: it can run while a time-limited continue is '
                     'unfinished' % name, f.loc(0))
            continue
        gb = guards[0]
        wb = wbf.write_blocks(f)
        bad_w = [b for b in wb if not g.dominates(gb, b)]
        propagated = any(src is not None and src[0] == gb for _, _, src in err_exits(prog, f))
        # Ok returns: every return must be dominated by the guard
        bad_r = [r for r in g.returns if not g.dominates(gb, r)]
        chk.decide(RA, key, not bad_w and not bad_r and propagated,
                   'guard dominates every write and every return, and its error is propagated',
                   '%s: the async guard %s' % (name, '; '.join(
                       ([('does not dominate the write at %s' % f.loc(bad_w[0]))] if bad_w else []) +
                       ([('does not dominate the return at %s' % f.loc(bad_r[0]))] if bad_r else []) +
                       ([] if propagated else ['result is not propagated with `?`']))), f.loc(gb))
    chk.floor(RA, 'guarded methods', n, 12)
    # information: pub &mut self methods that write and have no guard
    unguarded = []
    for f in prog.fns.values():
        if f.crate == 'bladeink' and f.pub and f.kind == 'assoc' and f.self_adt and f.self_adt.endswith('story::Story') \
                and f.body['argc'] >= 1 and f.local_ty(1).startswith('&mut ') and f.short not in GUARDED:
            if wbf.eff.may_write(f) - {'Story::prev_containers'} and not any(
                    callee_short(t) == 'Story::if_async_we_cant' for _, t in f.calls()):
                unguarded.append(f.short)
    for nm in sorted(unguarded):
        chk.decide(RA, chk.key(RA, nm, 'writes-unguarded'), nm in UNGUARDED_OK, UNGUARDED_OK.get(nm, ''),
                   '%s is public, changes the story and does not call if_async_we_cant: it can run between two slices of a '
                   'time-limited continue, on a half-evaluated line' % nm, prog.fn(nm).loc(0) if prog.fn(nm) else None)

    # ---- (b)
    ci = prog.fn('Story::continue_internal')
    if not chk.anchor(RB, 'Story::continue_internal', ci):
        return
    g = cfg(ci)

    def atom_of(desc):
        if desc == ('field', 'Story::async_continue_active'):
            return 'async'
        return None
    gf = GuardFlow(prog, ci, atom_of, tracer=tr)
    gf.run()
    loops = g.loops_heads()
    loop_blocks = set()
    for h, tails in loops.items():
        body = g.loop_body(h, tails)
        if any(callee_short(t) == 'Story::continue_single_step' for b in body
               for t in [ci.blocks[b]['term']] if t and t['k'] == 'call'):
            loop_blocks |= body
    if not chk.anchor(RB, 'interpreter loop (calls continue_single_step) in continue_internal', loop_blocks):
        return
    after_loop = g.reachable(sorted(loop_blocks))
    starts = []
    for bb, t in ci.calls():
        cs = callee_short(t)
        if cs in START_ACTIONS:
            starts.append((bb, cs))
    for bb, desc, src in err_exits(prog, ci):
        if src is None and bb not in after_loop:
            starts.append((bb, 'can-continue rejection'))
    chk.floor(RB, 'start-of-line actions found', len(starts), 3)
    for bb, what in starts:
        vs = gf.valuations_at(bb, ['entry:async'])
        ok = bool(vs) and all(v['entry:async'] is False for v in vs)
        chk.decide(RB, chk.key(RB, 'start', what), ok,
                   'executed only when async_continue_active was false at entry',
                   'start-of-line action %s is reachable when a time-limited continue is being resumed '
                   '(entry valuations %s): a pause between two steps would restart the line' % (what, vs), ci.loc(bb))

    # completion region
    region_entry = None
    t1 = None
    for b in range(len(ci.blocks)):
        tt = ci.blocks[b]['term']
        if b in loop_blocks or b not in after_loop or not tt or tt['k'] != 'switch' \
                or tt['d']['k'] not in ('copy', 'move') or 'p' in tt['d']['pl']:
            continue
        pv = tr.prov(ci, tt['d'])
        if 'call:Story::continue_single_step' in pv and 'discr' not in pv:
            # the step's verdict ("the line is definitely complete"), tested after the loop: true edge target
            vals = [v for v, _ in tt['ts']]
            if 0 in vals:
                region_entry = tt['else'] if len(tt['ts']) == 1 else [tb for v, tb in tt['ts'] if v != 0][0]
            else:
                region_entry = [tb for v, tb in tt['ts'] if v != 0][0]
            t1 = b
            break
    chk.decide(RB, chk.key(RB, 'completion-region', 'verdict'), region_entry is not None,
               'after the loop, the completion block is entered on the verdict returned by continue_single_step',
               'after the interpreter loop continue_internal no longer tests the verdict returned by '
               'continue_single_step ("the line is definitely complete"): whatever replaces it (for instance "the '
               'output currently ends in a newline") is also true when a time-limited continue merely pauses inside '
               'the look-ahead', ci.loc(sorted(after_loop - loop_blocks)[0]) if after_loop - loop_blocks else ci.loc(0))
    if region_entry is None:
        return

    # `let done = verdict || !self.can_continue(); if done { .. }`: the verdict's true edge only sets a merge boolean;
    # the block is entered by the later test of that boolean
    def _merge_form(entry):
        blk = ci.blocks[entry]
        asg = [s_ for s_ in blk['st'] if s_['k'] == 'assign' and 'p' not in s_['pl'] and s_['rv']['k'] == 'use'
               and s_['rv']['op'].get('k') == 'const' and s_['rv']['op'].get('bool') is True
               and ci.local_ty(s_['pl']['l']) == 'bool']
        if len(asg) != 1 or not blk['term'] or blk['term']['k'] != 'goto':
            return None
        m = asg[0]['pl']['l']
        from analysis.defuse import du as _du
        for df in _du(ci).defs.get(m, []):
            if df['kind'] == 'assign':
                at = tr.prov(ci, df['rv']['op']) if df['rv']['k'] == 'use' else (
                    tr.prov(ci, df['rv']['a']) if df['rv']['k'] == 'unop' else {'?'})
            elif df['kind'] == 'call':
                at = {'call:' + callee_short(df['term'])}
            else:
                at = {'?'}
            if not all(a in ('const:true', 'const:false', 'call:Story::can_continue', 'arg:1') or a.startswith(('op:Not', 'via:'))
                       for a in at):
                return None
        # the later test of m
        for b2 in sorted(g.reachable([entry])):
            t2 = ci.blocks[b2]['term']
            if t2 and t2['k'] == 'switch' and t2['d'].get('k') in ('copy', 'move') and 'p' not in t2['d']['pl']:
                src = t2['d']['pl']['l']
                seen_, w_ = set(), [src]
                while w_:
                    y = w_.pop()
                    if y in seen_:
                        continue
                    seen_.add(y)
                    for df in _du(ci).defs.get(y, []):
                        if df['kind'] == 'assign' and df['rv']['k'] == 'use' and df['rv']['op'].get('k') in ('copy', 'move'):
                            w_.append(df['rv']['op']['pl']['l'])
                if m in seen_ and g.dominates(b2, b2):
                    tgt = [tb for v, tb in t2['ts'] if v != 0] or [t2['else']]
                    return b2, tgt[0]
        return None
    mf = _merge_form(region_entry)
    if mf is not None:
        t1, region_entry = mf

    def skip_trivial(b):
        seen = set()
        while b not in seen:
            seen.add(b)
            blk = ci.blocks[b]
            if blk['st'] or not blk['term'] or blk['term']['k'] != 'goto' or len(g.pred[b]) > 1:
                return b
            b = blk['term']['t']
        return b
    region_entry = skip_trivial(region_entry)
    # entries of the region: only T1(true) and a can_continue()==false edge (possibly through trivial goto blocks)
    preds_ok = True
    why = ''

    def origin(p):
        """walk back through trivial single-pred goto blocks"""
        prev = None
        while ci.blocks[p]['term']['k'] == 'goto' and not ci.blocks[p]['st'] and len(g.pred[p]) == 1:
            prev = p
            p = g.pred[p][0]
        return p, prev
    for p0 in g.pred[region_entry]:
        p, via = origin(p0)
        via = via if via is not None else region_entry
        tt = ci.blocks[p]['term']
        if p == t1:
            continue
        c = resolve_cond(prog, ci, tt['d'], tr) if tt and tt['k'] == 'switch' else None
        if c and c.desc[0] == 'call' and c.desc[1] == 'Story::can_continue':
            tgt_vals = [v for v, tb in tt['ts'] if tb == via]
            edge_truth = [c.truth_of_value(v) for v in tgt_vals]
            if tt['else'] == via:
                rest = {0, 1} - {v for v, _ in tt['ts']}
                edge_truth += [c.truth_of_value(x) for x in rest]
            if any(edge_truth) or not edge_truth:
                preds_ok = False
                why = 'entered with can_continue() = true'
        else:
            preds_ok = False
            why = 'entered from block at %s by an edge that is not part of the completion test' % ci.loc(p)
    chk.decide(RB, chk.key(RB, 'completion-region', 'entries'), preds_ok,
               'the completion block is entered only through `output_stream_ends_in_newline || !can_continue()`',
               'the completion block of continue_internal can be ' + why, ci.loc(region_entry))
    ends = [(bb, callee_short(t)) for bb, t in ci.calls() if callee_short(t) in END_ACTIONS]
    for bb, si, s in ci.stmts():
        if s['k'] == 'assign' and field_leaf(s['pl']) == 'async_continue_active' and s['rv']['k'] == 'use' \
                and s['rv']['op'].get('bool') is False and bb not in loop_blocks and bb in g.reachable(list(loop_blocks)[:1]):
            ends.append((bb, 'async_continue_active = false'))
    for bb, t in ci.calls():
        if callee_short(t) == 'Story::add_error' and bb in g.reachable([t1]):
            ends.append((bb, 'end-of-content diagnostic'))
        if callee_short(t) == 'Story::restore_state_snapshot':
            ends.append((bb, 'restore_state_snapshot'))
    chk.floor(RB, 'end-of-line actions found', len(ends), 4)
    ords = {}
    for bb, what in ends:
        k = ords.get(what, 0)
        ords[what] = k + 1
        chk.decide(RB, chk.key(RB, 'end', what, '#%d' % k), g.dominates(region_entry, bb),
                   'inside the completion block',
                   'end-of-line action %s is reachable without passing the completion test: it would run when a '
                   'time-limited continue merely pauses' % what, ci.loc(bb))
    check_count_pairing(chk, prog, tr, RC)

    # ---- the work done when a line completes does not depend on which call started the line (shared with C11)
    from rules.c11 import closing_action_controllers
    closing_action_controllers(chk, prog, tr, 'C08.end-of-line-work-whenever-the-line-completes')


def entry_async_flow(prog, tr, ci):
    """GuardFlow over continue_internal tracking Story::async_continue_active (atom 'async', entry value 'entry:async')."""
    def atom_of(desc):
        if desc == ('field', 'Story::async_continue_active'):
            return 'async'
        return None
    gf = GuardFlow(prog, ci, atom_of, tracer=tr)
    gf.run()
    return gf


def named_source(fn, l, depth=0):
    """Follow `tmp = copy x` chains back to a user-named local."""
    from analysis.defuse import du
    if fn.local_name(l) is not None or depth > 4:
        return l
    df = du(fn).single_def(l)
    if df and df['kind'] == 'assign' and df['rv']['k'] == 'use' and df['rv']['op']['k'] in ('copy', 'move') \
            and 'p' not in df['rv']['op']['pl']:
        return named_source(fn, df['rv']['op']['pl']['l'], depth + 1)
    return l
