"""C09 — a rejected host call changes nothing: no semantic write precedes an error exit on the host-call surface,
no panic site stands where an error is specified, continue-nesting bookkeeping is paired."""
from analysis.facts import callee, callee_short
from analysis.cfg import cfg
from analysis.defuse import Tracer, du
from analysis.guards import resolve_cond
from analysis.panics import sites, guard_dominated
from analysis.wbf import WriteBeforeFail, precede_on_every_path

# boundary: below these the errors are story faults recorded by add_error, not host-call rejections
BOUNDARY = {'Story::continue_internal', 'Story::cont', 'Story::continue_async', 'Story::continue_maximally'}

# (function, error exit) -> (kind, reason[, validators])    kind: 'fault' | 'prevalidated' | 'generated' | 'ctor'
EXIT_TABLE = {
    ('Story::choose_choice_index', '?Story::choose_path'):
        ('generated', 'the target is the path of a choice the story itself generated; not a host argument'),
    ('Story::choose_path_string', '?StoryState::pass_arguments_to_evaluation_stack'):
        ('prevalidated', 'argument types are converted once before anything is changed',
         ['StoryState::values_from_arguments']),
    ('Story::choose_path_string', '?Story::choose_path'):
        ('prevalidated', 'the path is resolved once before anything is changed', ['Story::pointer_at_path']),
    ('Story::evaluate_function', '?StoryState::start_function_evaluation_from_game'):
        ('prevalidated', 'argument types are converted once before anything is changed',
         ['StoryState::values_from_arguments']),
    ('Story::evaluate_function', '?Story::cont'):
        ('fault', 'a story fault while running the function (reported as an error, contract C13/C04), not a rejection'),
    ('Story::new', '?Story::reset_globals'):
        ('ctor', 'constructor: no story exists before the call'),
    ('Story::reset_state', '?Story::reset_globals'):
        ('fault', 'a story fault while running the global declarations after the state was replaced'),
    ('Story::reset_globals', '?Story::continue_internal'):
        ('fault', 'a story fault while running the global declarations'),
    ('Story::reset_globals', '?Story::choose_path'):
        ('generated', 'constant path "global decl"'),
    ('StoryState::set_chosen_path', '?Story::pointer_at_path'):
        ('callers', 'every caller either pre-validates the path (choose_path_string) or passes a story-generated / '
         'constant path (choose_choice_index, reset_globals)',
         ['Story::choose_path']),
    ('StoryState::start_function_evaluation_from_game', '?StoryState::pass_arguments_to_evaluation_stack'):
        ('callers', 'only caller evaluate_function converts the arguments before anything is changed',
         ['Story::evaluate_function']),
    ('Story::load_state', '?StoryState::load_json'):
        ('fault', 'failed loads are governed by C15 (story can be reset afterwards)'),
    ('Story::cont', '?Story::get_current_text'):
        ('fault', 'get_current_text fails only while a time-limited continue is unfinished, and cont has just finished '
         'one without a limit (continue_internal clears async_continue_active when the limit is 0)'),
    ('Story::evaluate_function', '?StoryState::complete_function_evaluation_from_game'):
        ('fault', 'a story fault found when the function returns (wrong frame on the call stack), not a rejection'),
    ('StoryState::complete_function_evaluation_from_game', '?CallStack::pop'):
        ('fault', 'a story fault found when the function returns (wrong frame on the call stack), not a rejection'),
    ('StoryState::write_json', '?Flow::write_json'):
        ('fault', 'saving fails only on an object that cannot be serialised (an internal fault, not a bad argument); the '
         'only write is Choice::original_thread_index, which every save recomputes'),
    ('StoryState::write_json', '?VariablesState::write_json'):
        ('fault', 'as above: serialisation fault; only Choice::original_thread_index was written'),
    ('StoryState::write_json', '?json_write::write_list_rt_objs'):
        ('fault', 'as above: serialisation fault; only Choice::original_thread_index was written'),
    ('Flow::write_json', '?Thread::write_json'):
        ('fault', 'as above: serialisation fault; only Choice::original_thread_index was written'),
}

SURFACE = ['Story::choose_choice_index', 'VariablesState::set', 'Story::set_variable', 'Story::choose_path_string',
           'Story::evaluate_function', 'Story::observe_variable', 'Story::remove_variable_observer',
           'Story::bind_external_function', 'Story::unbind_external_function', 'Story::switch_flow',
           'Story::remove_flow', 'Story::switch_to_default_flow', 'StoryState::remove_flow_internal',
           'StoryState::switch_flow_internal', 'StoryState::switch_to_default_flow_internal',
           'StoryState::set_chosen_path', 'Story::choose_path', 'Story::reset_callstack',
           'StoryState::pass_arguments_to_evaluation_stack', 'StoryState::values_from_arguments',
           'StoryState::start_function_evaluation_from_game']

PANIC_TABLE = {
    ('Story::choose_choice_index', 'unwrap:Option::unwrap', 'call:Story::get_current_choices'):
        ('range', 'choices.get(i).unwrap() after `i >= choices.len()` returned Err'),
    ('Story::choose_choice_index', 'unwrap:Option::unwrap', 'call:Choice::get_thread_at_generation'):
        ('invariant', 'every choice in current_choices carries its thread: Choice::new receives it, the loader '
         'restores it or fails (Flow::load_flow_choice_threads returns Err)'),
    ('StoryState::switch_flow_internal', 'unwrap:Option::unwrap', 'field:StoryState::named_flows'):
        ('assigned', 'named_flows was assigned Some(..) on the only path where it was None'),
    ('StoryState::set_chosen_path', 'assert:overflow:Add', 'field:StoryState::current_turn_index'):
        ('counter', 'turn counter, one per choice (C04 table)'),
}


def api_functions(prog):
    return [f for f in prog.fns.values() if f.crate == 'bladeink' and f.self_adt and f.self_adt.endswith('story::Story')
            and f.pub and f.kind == 'assoc' and 'Result' in f.body['locals'][0]['ty']]


def range_guard(prog, fn, site, tr):
    """`if i >= v.len() { return }` ... `v.get(i).unwrap()`"""
    g = cfg(fn)
    dom = g.dominators()
    for b in dom.get(site['bb'], ()):
        tt = fn.blocks[b]['term']
        if not tt or tt['k'] != 'switch':
            continue
        c = resolve_cond(prog, fn, tt['d'], tr)
        if c and c.desc[0] == 'cmp2' and c.desc[1] in ('Ge', 'Gt') and any(a.startswith('arg:') for a in c.desc[2]) \
                and any(a.endswith('::len') for a in c.desc[3]):
            vals = [v for v, _ in tt['ts']]
            false_t = [tb for v, tb in tt['ts'] if not c.truth_of_value(v)]
            rest = {0, 1} - set(vals)
            if len(rest) == 1 and not c.truth_of_value(rest.pop()):
                false_t.append(tt['else'])
            true_t = [x for x in g.succ[b] if x not in false_t]
            if false_t and site['bb'] not in g.reachable(true_t):
                return True
    return False


def assigned_some_guard(prog, fn, site, tr):
    """x.as_mut().unwrap() where every path either tested x.is_some() or assigned x = Some(..)"""
    recv = {a for a in tr.prov(fn, site['term']['args'][0]) if a.startswith('field:')}
    g = cfg(fn)
    assign_blocks = []
    for bb, si, s in fn.stmts():
        if s['k'] == 'assign':
            pes = [pe for pe in s['pl'].get('p', []) if pe['k'] == 'field']
            if pes and ('field:%s::%s' % (pes[-1].get('adt', '').rsplit('::', 1)[-1], pes[-1].get('n'))) in recv:
                at = tr.prov(fn, s['rv']['op']) if s['rv']['k'] == 'use' else (
                    {'agg:Option::Some'} if s['rv']['k'] == 'agg' and s['rv'].get('var') == 'Some' else set())
                if 'agg:Option::Some' in at:
                    assign_blocks.append(bb)
    if not assign_blocks:
        return False
    # paths from entry to the site avoiding the assignment must go through the is_none==false edge
    for b in range(len(fn.blocks)):
        tt = fn.blocks[b]['term']
        if tt and tt['k'] == 'switch':
            c = resolve_cond(prog, fn, tt['d'], tr)
            if c and c.desc[0] == 'is_some' and recv & set(c.desc[1]):
                vals = [v for v, _ in tt['ts']]
                none_t = [tb for v, tb in tt['ts'] if not c.truth_of_value(v)]
                rest = {0, 1} - set(vals)
                if len(rest) == 1 and not c.truth_of_value(rest.pop()):
                    none_t.append(tt['else'])
                w = g.path(none_t, lambda x: x == site['bb'], avoid=assign_blocks)
                if w is None:
                    return True
    return False


def run(chk, prog):
    tr = Tracer(prog)
    chk.not_decided += ['that later behaviour is identical after a rejected call — implied by "no write happened" only for '
                        'the semantic fields this analysis models; cache fields are excluded by table, not proved',
                        'lock-step comparison over all histories (dynamic)']
    R1 = 'C09.write-before-fail'
    chk.rule(R1, 'For every pub fn of impl Story returning Result, and the helpers its errors come from (`?` chains, up to '
             'the interpreter loop): no error exit is reachable after a semantic write (assignment to / mutator call on '
             'a field of Story, StoryState, Flow, CallStack, Thread, Element, VariablesState, StatePatch, caches '
             'excluded), except exits listed as story faults / generated paths / pre-validated; a "pre-validated" entry '
             'is re-validated: the named validator must be called before every write of that function.')
    R2 = 'C09.no-panic-surface'
    chk.rule(R2, 'In the functions of the host-call surface every unwrap/expect/index/overflow site is guard-dominated or '
             'is a table line whose guard (range test, prior assignment, invariant) is re-validated.')
    R3 = 'C09.continue-count-paired'
    chk.rule(R3, 'In continue_internal every path from the increment of recursive_continue_count to a return passes its '
             'decrement, and no error exit precedes... follows the increment without the decrement.')

    wbf = WriteBeforeFail(prog, tr)
    api = api_functions(prog)
    chk.floor(R1, 'pub fn of impl Story returning Result', len(api), 22)
    seen = set()
    work = [(f, 0) for f in sorted(api, key=lambda f: f.short)]
    analysed = 0
    used = set()
    while work:
        f, d = work.pop(0)
        if f.p in seen:
            continue
        seen.add(f.p)
        analysed += 1
        g = cfg(f)
        wb = wbf.write_blocks(f)
        for r in wbf.analyse(f):
            ent0 = EXIT_TABLE.get((f.short, r['exit']))
            if r['src'] and not (ent0 and ent0[0] in ('fault', 'ctor', 'generated')):
                # (an exit the table gives to another contract - story faults, failed loads - is not followed further)
                h = prog.fns.get(callee(r['src'][1]))
                if h is not None and d < 5 and h.short not in BOUNDARY:
                    work.append((h, d + 1))
            key = chk.key(R1, f.short, r['exit'])
            loc = f.loc(r['exit_block'])
            if not r['writes']:
                chk.ok(R1, key + '|@%d' % len([1 for o in chk.obligations if o['key'].startswith(key)]),
                       'no semantic write can precede this error exit', loc)
                continue
            ent = EXIT_TABLE.get((f.short, r['exit']))
            wdesc = sorted({e[0][0] for _, e in r['writes']})
            if ent is None:
                chk.fail(R1, key, '%s can return this error after it already changed the story (%s): a rejected call '
                         'leaves a partial change behind' % (f.short, '; '.join(wdesc[:3])), loc,
                         {'writes': [(f.loc(b), e[0][0], e[0][1][:4]) for b, e in r['writes']]})
                continue
            used.add((f.short, r['exit']))
            kind = ent[0]
            if kind == 'prevalidated':
                vals = ent[2]
                vblocks = [bb for bb, t in f.calls() if callee_short(t) in vals]
                first_writes = [b for b, _ in r['writes']]
                # (on every path: in a function that absorbed a new helper, every path that agrees with the Ok / Err of
                # the helper's result - wbf.path_evading)
                ok = bool(vblocks) and all(precede_on_every_path(prog, f, vblocks, b, tr) for b in first_writes)
                chk.decide(R1, key, ok, 'table (pre-validated, re-validated): %s; %s dominates every write'
                           % (ent[1], vals),
                           '%s no longer calls %s before its first write: the error exit %s can again be reached after '
                           'the story was changed' % (f.short, vals, r['exit']), loc)
            elif kind == 'callers':
                callers = sorted({prog.root_fn(c).short for c, _, _ in prog.callers(f.short)})
                allowed = set(ent[2]) | {'Story::choose_path'}
                ok = bool(callers) and set(callers) <= allowed
                chk.decide(R1, key, ok, 'table (callers re-validated %s): %s' % (callers, ent[1]),
                           '%s is now also called from %s: the reason "%s" no longer covers every caller'
                           % (f.short, sorted(set(callers) - allowed), ent[1]), loc)
            else:
                chk.ok(R1, key, 'table (%s): %s' % (kind, ent[1]), loc)
    chk.extra_cov['functions_analysed_for_write_before_fail'] = analysed
    for k in EXIT_TABLE:
        if k not in used and prog.fn(k[0]) is not None:
            # entries for exits that currently have no preceding write are fine
            pass

    # ---- 2. no panic on the surface
    nsurf = 0
    for name in SURFACE:
        f = prog.fn(name)
        if not chk.anchor(R2, name, f):
            continue
        nsurf += 1
        for gfn in prog.with_closures(f):
            ords = {}
            for s in sites(prog, gfn):
                base = '%s|%s' % (gfn.short, s['kind'])
                n = ords.get(base, 0)
                ords[base] = n + 1
                key = chk.key(R2, gfn.short, s['kind'], '#%d' % n)
                loc = gfn.loc(s['bb'])
                gd = guard_dominated(prog, gfn, s, tr)
                if gd:
                    chk.ok(R2, key, 'guard-dominated: ' + gd['guard'], loc)
                    continue
                t = s['term']
                atoms = tr.prov(gfn, t['args'][0]) if t['k'] == 'call' and t['args'] else (
                    tr.prov(gfn, t['a']) | (tr.prov(gfn, t['b']) if 'b' in t else set()))
                ent = None
                for a in sorted(atoms):
                    ent = PANIC_TABLE.get((gfn.short, s['kind'], a))
                    if ent:
                        break
                if ent is None:
                    chk.fail(R2, key, '%s in %s can panic where the contract specifies an error (operand: %s)'
                             % (s['kind'], gfn.short, sorted(a for a in atoms if not a.startswith('via:'))[:4]), loc)
                    continue
                kind, reason = ent
                if kind == 'range':
                    chk.decide(R2, key, range_guard(prog, gfn, s, tr), 'table, guard re-validated: ' + reason,
                               'the range test guarding this unwrap is gone: ' + reason, loc)
                elif kind == 'assigned':
                    chk.decide(R2, key, assigned_some_guard(prog, gfn, s, tr), 'table, guard re-validated: ' + reason,
                               'the assignment guarding this unwrap no longer covers every path: ' + reason, loc)
                else:
                    chk.ok(R2, key, 'table (%s): %s' % (kind, reason), loc)
    chk.floor(R2, 'host-call surface functions', nsurf, 15)

    # ---- 2b. a host index refers to the list the host was shown
    R4 = 'C09.index-refers-to-offered-choices'
    chk.rule(R4, 'In choose_choice_index the host\'s index is applied to (and range-checked against) the list returned by '
             'the public accessor Story::get_current_choices - the choices the host was offered - not to the raw '
             'per-flow list, which also holds hidden fallback choices.')
    cci = prog.fn('Story::choose_choice_index')
    if chk.anchor(R4, 'Story::choose_choice_index', cci):
        uses = []
        for gfn in prog.with_closures(cci):
            for bb, t in gfn.calls():
                name = callee_short(t).rsplit('::', 1)[-1]
                if name in ('get', 'index', 'get_mut', 'nth', 'remove', 'swap_remove') and len(t['args']) >= 2:
                    ip = tr.prov(gfn, t['args'][1])
                    if 'arg:2' in ip or any(a.startswith('upvar:choice_index') for a in ip):
                        uses.append((gfn, bb, tr.prov(gfn, t['args'][0])))
        if chk.anchor(R4, 'use of the index argument in choose_choice_index', uses):
            for i, (gfn, bb, rp) in enumerate(uses):
                visible = any('Story::get_current_choices' in a for a in rp)
                raw = any('StoryState::get_current_choices' in a or a == 'field:Flow::current_choices' for a in rp)
                chk.decide(R4, chk.key(R4, 'use#%d' % i), visible and not raw,
                           'the index selects from the list returned by Story::get_current_choices',
                           'choose_choice_index applies the host\'s index to the raw per-flow choice list (provenance '
                           '%s) instead of the offered list: an index just past the offered choices silently selects a '
                           'hidden fallback choice instead of being refused'
                           % sorted(a for a in rp if a.startswith(('call:', 'via:', 'field:')))[:4], gfn.loc(bb))

    # ---- 2c. the binding-validation flag is a cache of (bindings, fallback setting)
    R5 = 'C09.binding-validation-is-a-cache'
    chk.rule(R5, 'Story::has_validated_externals is set before continue_internal can refuse ("can\'t continue"), so a '
             'refused continue leaves it set. That is harmless only if the flag is a pure function of the binding table '
             'and the fallback setting: every function that removes from Story::externals or assigns '
             'Story::allow_external_function_fallbacks assigns has_validated_externals = false on every path from that '
             'write to its return.')
    from analysis.facts import tyname
    nmut = 0
    for f in sorted(prog.fns.values(), key=lambda x: x.p):
        if f.crate != 'bladeink' or (prog.root_fn(f).self_adt or '').rsplit('::', 1)[-1] != 'Story':
            continue
        mut_blocks, reset_blocks = [], []
        for bb, t in f.calls():
            nm = callee_short(t).rsplit('::', 1)[-1]
            if nm in ('remove', 'clear', 'retain', 'drain', 'remove_entry') and t['args'] \
                    and 'field:Story::externals' in tr.prov(f, t['args'][0]):
                mut_blocks.append(bb)
        for bb, si, st in f.stmts():
            if st['k'] != 'assign' or 'p' not in st['pl']:
                continue
            last = st['pl']['p'][-1]
            if last['k'] == 'field' and tyname(last.get('adt', '')) == 'Story':
                if last['n'] == 'allow_external_function_fallbacks':
                    mut_blocks.append(bb)
                elif last['n'] == 'has_validated_externals' and st['rv']['k'] == 'use' \
                        and st['rv']['op'].get('k') == 'const' and st['rv']['op'].get('bool') is False:
                    reset_blocks.append(bb)
        if f.short == 'Story::new':
            continue        # constructor: the flag starts false
        g = cfg(f)
        for i, mb in enumerate(mut_blocks):
            nmut += 1
            rets = [b for b, t in f.terms() if t['k'] == 'return']
            escaped = [r for r in rets if r in g.reachable([mb], avoid=[x for x in reset_blocks if x != mb])
                       and mb not in reset_blocks]
            chk.decide(R5, chk.key(R5, f.short, '#%d' % i), not escaped,
                       'the validation flag is cleared on every path after this change of the bindings / fallback setting',
                       '%s changes which externals are bound (or whether a fallback is acceptable) and can return without '
                       'clearing has_validated_externals: the next continue skips validation and an unbound external '
                       'ends the story with a runtime error instead of being refused up front' % f.short, f.loc(mb))
    chk.floor(R5, 'functions that unbind externals or change the fallback setting', nmut, 2)

    # ---- 2d. the index a choice is saved with is fixed when the choice is generated
    function_name_looked_up_exactly(chk, prog)
    continue_refused_exactly_when_it_cannot(chk, prog, tr)
    R6 = 'C09.choice-index-fixed-at-generation'
    chk.rule(R6, 'Story::get_current_choices (also called by a refused choose_choice_index) rewrites Choice::index; the '
             'index is part of the save. The rewrite changes nothing only if the index was already right: the function '
             'that adds a generated choice to the flow\'s list assigns Choice::index before the push.')
    lt6 = Tracer(prog, transparent=lambda cs: True, use_summaries=False)
    pushes = []
    for f in sorted(prog.fns.values(), key=lambda x: x.p):
        if f.crate != 'bladeink':
            continue
        for bb, t in f.calls():
            if callee_short(t) == 'Vec::push' and t['args'] and \
                    any('get_generated_choices_mut' in a for a in lt6.prov(f, t['args'][0])):
                pushes.append((f, bb))
    if chk.anchor(R6, 'push of a generated choice', pushes):
        for i, (f, bb) in enumerate(pushes):
            g = cfg(f)
            idx_blocks = [b for b, t in f.calls() if callee_short(t) in ('RefCell::replace', 'Cell::set', 'Cell::replace')
                          and t['args'] and 'field:Choice::index' in tr.prov(f, t['args'][0])]
            ok = bool(idx_blocks) and bb not in g.reachable([0], avoid=idx_blocks)
            chk.decide(R6, chk.key(R6, prog.root_fn(f).short, '#%d' % i), ok,
                       'Choice::index is assigned on every path to the push',
                       '%s adds a generated choice without assigning its index first: the index in a save then depends '
                       'on whether get_current_choices (or a refused choose_choice_index) was called before saving'
                       % prog.root_fn(f).short, f.loc(bb))

    # ---- 3. pairing
    check_count_pairing(chk, prog, tr, R3)


def field_leaf(pl):
    pes = [pe for pe in pl.get('p', []) if pe['k'] == 'field']
    return pes[-1].get('n') if pes else None


def _arith_kind(fn, s):
    rv = s['rv']
    ops = []
    if rv['k'] == 'binop':
        ops.append(rv['op'])
    elif rv['k'] == 'use' and rv['op']['k'] in ('copy', 'move'):
        for d in du(fn).defs.get(rv['op']['pl']['l'], []):
            if d['kind'] == 'assign' and d['rv']['k'] == 'binop':
                ops.append(d['rv']['op'])
    for o in ops:
        if o.startswith('Add'):
            return 'inc'
        if o.startswith('Sub'):
            return 'dec'
    return None


def check_count_pairing(chk, prog, tr, R3):
    ci = prog.fn('Story::continue_internal')
    if not chk.anchor(R3, 'Story::continue_internal', ci):
        return
    g = cfg(ci)
    inc, dec = [], []
    for bb, si, s in ci.stmts():
        if s['k'] == 'assign' and field_leaf(s['pl']) == 'recursive_continue_count':
            k = _arith_kind(ci, s)
            if k == 'inc':
                inc.append(bb)
            elif k == 'dec':
                dec.append(bb)
    if not (chk.anchor(R3, 'increment of recursive_continue_count', inc)
            and chk.anchor(R3, 'decrement of recursive_continue_count', dec)):
        return
    for i, b in enumerate(inc):
        ok, w = g.must_pass_through(b, dec)
        chk.decide(R3, chk.key(R3, 'continue_internal', 'inc#%d' % i), ok,
                   'every path from the increment to a return passes the decrement',
                   'a return is reachable after recursive_continue_count += 1 without the matching -= 1: the count '
                   'never returns to its value and variable observation stops working', ci.loc(b),
                   {'witness_blocks': w})
    # and the decrement is never reached without the increment
    w = g.path([0], lambda x: x in dec, avoid=inc)
    chk.decide(R3, chk.key(R3, 'continue_internal', 'dec-needs-inc'), w is None,
               'the decrement is reached only after the increment',
               'recursive_continue_count is decremented on a path that did not increment it', ci.loc(dec[0]))


def function_name_looked_up_exactly(chk, prog):
    RX = 'C09.unknown-function-name-is-refused'
    chk.rule(RX, 'The container Story::evaluate_function runs is found by an exact lookup of the given name among the '
             'named content of the root container (HashMap::get on Container::named_content): the value it tests for '
             'None does not come from a path search (content_at_path / SearchResult), whose answer for a name with an '
             'unknown tail ("bump.nothing", "0") is the nearest container that does exist - unless the search result\'s '
             '`approximate` flag is read. With an approximating lookup a call that has to be refused with an error runs '
             'another function instead, and changes the story.')
    ef = prog.fn('Story::evaluate_function')
    if not chk.anchor(RX, 'Story::evaluate_function', ef):
        return
    lt = Tracer(prog, transparent=lambda cs: True, use_summaries=False)
    n = 0
    for g in prog.with_closures(ef):
        for bb, t in g.calls():
            dty = t.get('dty', '')
            if 'Option<' not in dty or 'Container' not in dty:
                continue
            cs = callee_short(t)
            h = prog.fns.get(callee(t))
            if h is not None and h.crate == 'bladeink':
                at = set(lt.prov_local(h, 0))
                reads_flag = any('approximate' in fields_of_place_names(s) for hh in prog.with_closures(h)
                                 for _, _, s in hh.stmts())
                where = h.short
            elif cs in ('HashMap::get', 'Option::cloned'):
                at = set(lt.prov(g, t['args'][0])) | {'via:' + cs}
                reads_flag = False
                where = 'Story::evaluate_function'
            else:
                continue
            if not ('field:Container::named_content' in at or any('content_at_path' in a or 'SearchResult' in a for a in at)):
                continue
            n += 1
            searched = sorted(a for a in at if 'content_at_path' in a or 'SearchResult' in a)
            exact = 'field:Container::named_content' in at and 'via:HashMap::get' in at
            chk.decide(RX, chk.key(RX, where), (exact and not searched) or (bool(searched) and reads_flag),
                       'the function container comes from an exact lookup by name',
                       '%s finds the function to run through a path search (%s) without reading SearchResult::approximate: '
                       'a name whose beginning resolves ("known.unknown", "0") is accepted and the nearest existing '
                       'container is run - evaluate_function returns Ok and the story has changed, where the call must be '
                       'refused' % (where, ', '.join(a.split(':', 1)[1] for a in searched[:3])), g.loc(bb))
    chk.floor(RX, 'function-container lookups in evaluate_function', n, 1)


def fields_of_place_names(s):
    """Names of the fields touched by a statement (read or written)."""
    out = set()

    def pl_(pl):
        for pe in (pl or {}).get('p', []):
            if pe.get('k') == 'field' and pe.get('n'):
                out.add(pe['n'])

    def op_(o):
        if isinstance(o, dict) and o.get('k') in ('copy', 'move'):
            pl_(o['pl'])
    if s.get('k') == 'assign':
        pl_(s['pl'])
        rv = s['rv']
        for key in ('op', 'a', 'b'):
            if isinstance(rv.get(key), dict):
                op_(rv[key])
        for o in rv.get('ops', []) or []:
            op_(o)
        if 'pl' in rv:
            pl_(rv['pl'])
    return out


def continue_refused_exactly_when_it_cannot(chk, prog, tr):
    """Seed C09-6: the refusal at the top of continue_internal tested the pointer alone."""
    R = 'C09.continue-refused-exactly-when-it-cannot'
    chk.rule(R, 'A continue the host was told not to make (can_continue() is false) is refused before anything is changed: '
             'in continue_internal, on every path on which no time-limited continue is in progress at entry, the first '
             'change of the story (assignment, mutator or writing callee) is reached only with the result of '
             'can_continue() known to be true - the same predicate the host reads through Story::can_continue, which '
             'hands out StoryState::can_continue, which in turn reads both the pointer and the pending errors. A guard that '
             'tests less (the pointer alone) lets a call through after an unhandled error and a flow switch, jump or load; '
             'it then runs a step, records a second error, and only then fails.')
    from analysis.guards import GuardFlow
    from analysis.effects import Effects
    ci = prog.fn('Story::continue_internal')
    if not chk.anchor(R, 'Story::continue_internal', ci):
        return

    def atom(desc):
        if desc == ('field', 'Story::async_continue_active'):
            return 'async'
        if desc[0] == 'call' and desc[1] in ('Story::can_continue', 'StoryState::can_continue'):
            return 'can'
        if desc[0] == 'call' and desc[1] in ('StoryState::has_error', 'Story::has_error'):
            return 'err'
        if desc[0] == 'call' and desc[1] == 'Pointer::is_null':
            return 'null'
        return None
    gf = GuardFlow(prog, ci, atom, tracer=tr, assume={'async': False})
    gf.run()
    ef = Effects(prog, tracer=tr)
    g = cfg(ci)
    wblocks = {}
    for e in ef.events(ci):
        fields = ef.event_fields(ci, e)
        if fields:
            wblocks.setdefault(e['bb'], e['what'])
    if not chk.anchor(R, 'a change of the story in continue_internal', sorted(wblocks)):
        return
    # first changes: reachable from the entry without passing another change
    first = [b for b in sorted(wblocks) if b == 0 or g.path([0], lambda x, b=b: x == b, avoid=[w for w in wblocks if w != b])]
    chk.floor(R, 'first changes of the story examined', len(first), 1)
    for b in first:
        vals = gf.valuations_at(b, ['can', 'err', 'null'])
        bad = [v for v in vals if not (v.get('can') is True or (v.get('err') is False and v.get('null') is False))]
        chk.decide(R, chk.key(R, 'continue_internal', 'first-change', wblocks[b].replace(' ', '_')[:60]), bool(vals) and not bad,
                   'reached only with can_continue() == true when no time-limited continue is in progress',
                   'continue_internal reaches its first change of the story (%s) on a path on which no time-limited continue '
                   'was in progress and can_continue() was not found true (%s): a call the host was told not to make is not '
                   'refused up front - it changes the story and fails later' % (wblocks[b], bad[:2]), ci.loc(b))
    # the predicate the host reads is the one tested
    pub = prog.fn('Story::can_continue')
    st = prog.fn('StoryState::can_continue')
    if chk.anchor(R, 'Story::can_continue', pub) and chk.anchor(R, 'StoryState::can_continue', st):
        inner = [callee_short(t) for bb, t in pub.calls()]
        chk.decide(R, chk.key(R, 'Story::can_continue', 'hands-out-the-state-predicate'),
                   'StoryState::can_continue' in inner and not [c for c in inner if c not in (
                       'StoryState::can_continue', 'Story::get_state', 'Story::get_state_mut')],
                   'Story::can_continue is StoryState::can_continue',
                   'Story::can_continue no longer simply hands out StoryState::can_continue (calls: %s): the predicate the '
                   'host checks and the one continue_internal refuses by may differ' % inner, pub.loc(0))
        sc = {callee_short(t) for bb, t in st.calls()}
        chk.decide(R, chk.key(R, 'StoryState::can_continue', 'pointer-and-errors'),
                   'Pointer::is_null' in sc and 'StoryState::has_error' in sc,
                   'reads the pointer and the pending errors',
                   'StoryState::can_continue no longer consults both Pointer::is_null and StoryState::has_error (calls: %s): '
                   'after an unhandled error the story would still claim it can continue' % sorted(sc), st.loc(0))
