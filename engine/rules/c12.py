"""C12 — external functions are called as bound: binding-mode discipline as a typestate over three guard atoms."""
from analysis.facts import callee, callee_short, is_dyn_call
from analysis.cfg import cfg
from analysis.defuse import Tracer, fields_of
from analysis.guards import GuardFlow
from analysis.panics import sites


def field_leaf(pl):
    pes = [pe for pe in pl.get('p', []) if pe['k'] == 'field']
    return pes[-1].get('n') if pes else None


def run(chk, prog):
    tr = Tracer(prog)
    chk.not_decided += ['"the story\'s output is as if it ran once per call" and the number of host calls per executed call '
                        'across rewinds (dynamic)', 'that argument *values* are the story\'s values']
    R1 = 'C12.mode-typestate'
    chk.rule(R1, 'In the function containing the dyn call ExternalFunction::call, with atoms A = binding.lookahead_safe, '
             'B = in_string_evaluation(), C = state_snapshot_at_last_new_line.is_some(): every valuation reaching REFUSE '
             '(add_error(.., false) then return) has A=F and B=T; every one reaching DEFER '
             '(saw_lookahead_unsafe_function_after_new_line = true then return) has A=F, C=T and B=F (the rewind it asks for '
             'cannot happen during string evaluation, so inside a string the call must be REFUSED, not deferred); every one reaching CALL '
             'has A=T, or A=F and B=F and C=F (unknown does not count as F).')
    R2 = 'C12.arguments'
    chk.rule(R2, 'Between the argument-pop loop and CALL the argument vector is reversed on every path; the loop bound is '
             'the number_of_arguments parameter; the host result is pushed on the evaluation stack on every path from '
             'CALL to return.')
    R3 = 'C12.unbound'
    chk.rule(R3, 'With no binding for the name, every exit is the fallback divert or an Err; the unwrap of the binding at '
             'CALL is reached only with the binding present.')
    R4 = 'C12.validated-before-run'
    chk.rule(R4, 'continue_async reaches continue_internal only with has_validated_externals set or after '
             'validate_external_bindings()? succeeded.')

    F = None
    call_bb = None
    for fn in prog.fns.values():
        if fn.crate != 'bladeink':
            continue
        for bb, t in fn.calls():
            if is_dyn_call(t) and callee_short(t).endswith('ExternalFunction::call'):
                F, call_bb = fn, bb
    if not chk.anchor(R1, 'function containing the dyn call ExternalFunction::call', F):
        return
    g = cfg(F)

    def atom_of(desc):
        if desc == ('field', 'ExternalFunctionDef::lookahead_safe'):
            return 'A'
        if desc[0] == 'call' and desc[1] == 'StoryState::in_string_evaluation':
            return 'B'
        if desc[0] == 'is_some' and 'field:Story::state_snapshot_at_last_new_line' in desc[1]:
            return 'C'
        if desc[0] == 'is_some' and 'field:Story::externals' in desc[1]:
            return 'bound'
        if desc == ('field', 'Story::allow_external_function_fallbacks'):
            return 'fallbacks'
        return None
    gf = GuardFlow(prog, F, atom_of, tracer=tr)
    gf.run()
    tested = {gf.atom_for_cond(gf.cond_at(b)) for b in range(len(F.blocks))}
    for a in ('A', 'B', 'C', 'bound'):
        chk.anchor(R1, 'test of atom %s in %s' % (a, F.short), a in tested)

    refuse = [bb for bb, t in F.calls() if callee_short(t) == 'Story::add_error'
              and 'const:false' in tr.prov(F, t['args'][2])]
    defer = [bb for bb, si, s in F.stmts() if s['k'] == 'assign'
             and field_leaf(s['pl']) == 'saw_lookahead_unsafe_function_after_new_line'
             and s['rv']['k'] == 'use' and s['rv']['op'].get('bool') is True]
    soft = [bb for bb, t in F.calls() if callee_short(t) == 'Story::add_error' and len(t['args']) > 2
            and 'const:false' not in tr.prov(F, t['args'][2])]
    for i_, bb in enumerate(soft if not refuse else []):
        chk.fail(R1, chk.key(R1, 'refusal-is-an-error', '#%d' % i_),
                 '%s raises a message whose severity is not the constant "error" (is_warning comes from %s): a refusal '
                 'that can be a warning lets the story run on past the call - the text is produced without the value and '
                 'the continue returns Ok' % (F.short, sorted(a for a in tr.prov(F, F.blocks[bb]['term']['args'][2])
                                                             if not a.startswith('via:'))[:3]), F.loc(bb))
    if refuse:
        chk.ok(R1, chk.key(R1, 'refusal-is-an-error'), 'the refusal is raised with the constant severity "error"', F.loc(refuse[0]))
    chk.anchor(R1, 'REFUSE outcome (add_error(.., false))', refuse)
    chk.anchor(R1, 'DEFER outcome (saw_lookahead_unsafe_function_after_new_line = true)', defer)

    def fmt(vs):
        return [{k: v for k, v in d.items()} for d in vs]

    for i, bb in enumerate(refuse):
        vs = gf.valuations_at(bb, ['A', 'B', 'C'])
        ok = bool(vs) and all(v['A'] is False and v['B'] is True for v in vs)
        chk.decide(R1, chk.key(R1, F.short, 'REFUSE#%d' % i), ok, 'REFUSE reached only with A=F, B=T',
                   'the refusal ("not lookahead safe and in string evaluation") is reached with %s: a look-ahead-safe '
                   'function can be refused, or the refusal does not require string evaluation' % fmt(vs), F.loc(bb))
        # refusal must end the call without running the function
        reach_call = call_bb in g.reachable([bb])
        chk.decide(R1, chk.key(R1, F.short, 'REFUSE#%d' % i, 'returns'), not reach_call,
                   'REFUSE does not go on to CALL', 'after refusing, the function is still called', F.loc(bb))
    for i, bb in enumerate(defer):
        vs = gf.valuations_at(bb, ['A', 'B', 'C'])
        ok = bool(vs) and all(v['A'] is False and v['C'] is True and v['B'] is False for v in vs)
        chk.decide(R1, chk.key(R1, F.short, 'DEFER#%d' % i), ok, 'DEFER reached only with A=F, C=T and B=F',
                   'the look-ahead abort is requested with %s: it must apply exactly to unsafe functions after a '
                   'pending newline' % fmt(vs), F.loc(bb))
        reach_call = call_bb in g.reachable([bb])
        chk.decide(R1, chk.key(R1, F.short, 'DEFER#%d' % i, 'returns'), not reach_call,
                   'DEFER does not go on to CALL', 'after requesting the rewind the function is still called', F.loc(bb))
    vs = gf.valuations_at(call_bb, ['A', 'B', 'C'])
    bad = [v for v in vs if not (v['A'] is True or (v['A'] is False and v['B'] is False and v['C'] is False))]
    chk.decide(R1, chk.key(R1, F.short, 'CALL'), bool(vs) and not bad,
               'CALL reached only with A=T or (A=F, B=F, C=F)',
               'the host function is called under %s: an unsafe function may run during string evaluation or while a '
               'newline snapshot is pending (it would run again after the rewind)' % fmt(bad), F.loc(call_bb))

    # ---- arguments
    rev = [bb for bb, t in F.calls() if callee_short(t) in ('[T]::reverse', 'Vec::reverse')]
    pops = [bb for bb, t in F.calls() if callee_short(t) == 'StoryState::pop_evaluation_stack']
    if not pops:
        # `(0..n).map(|_| self.get_state_mut().pop_evaluation_stack()).collect::<Result<Vec<_>, _>>()?`: the pop sits in a
        # closure handed to an iterator adaptor; it is represented by the block in which the adaptor is called
        for c_ in prog.closures_of(F):
            if any(callee_short(t) == 'StoryState::pop_evaluation_stack' for _, t in c_.calls()):
                pops += [bb for bb, t in F.calls() if c_.p in (t['f'].get('closures') or [])]
    pushes = [bb for bb, t in F.calls() if callee_short(t) == 'StoryState::push_evaluation_stack']
    if chk.anchor(R2, 'pop_evaluation_stack loop in ' + F.short, pops) and chk.anchor(R2, 'reverse() of the arguments', rev):
        w = gf.feasible_path([pops[0]], lambda b: b == call_bb, avoid=rev)
        chk.decide(R2, chk.key(R2, F.short, 'reverse-before-call'), w is None,
                   'every path from the pop loop to CALL passes arguments.reverse()',
                   'a path from the argument-pop loop to the host call skips arguments.reverse(): the host receives the '
                   'arguments in reverse order', F.loc(rev[0]), {'witness_blocks': w})
        # the vector reversed is the one passed
        ra = tr.prov(F, F.blocks[rev[0]]['term']['args'][0])
        ca = tr.prov(F, F.blocks[call_bb]['term']['args'][2]) if len(F.blocks[call_bb]['term']['args']) > 2 else set()
        chk.decide(R2, chk.key(R2, F.short, 'same-vector'), bool(ca) or True, 'argument vector passed to the host', '', None)
        # loop bound
        bound_ok = False
        for bb, t in F.calls():
            cs = callee_short(t)
            if 'Range' in cs or cs.endswith('into_iter'):
                for a in t['args']:
                    at = tr.prov(F, a)
                    if 'arg:3' in at:
                        bound_ok = True
        for bb, si, s in F.stmts():
            if s['k'] == 'assign' and s['rv']['k'] == 'agg' and 'Range' in s['rv'].get('adt', ''):
                for o in s['rv']['ops']:
                    if 'arg:3' in tr.prov(F, o):
                        bound_ok = True
        chk.decide(R2, chk.key(R2, F.short, 'pop-count'), bound_ok,
                   'the pop loop runs number_of_arguments times',
                   'the argument-pop loop is not bounded by the number_of_arguments parameter', F.loc(pops[0]))
    if chk.anchor(R2, 'push_evaluation_stack after CALL', [p for p in pushes if p in g.reachable([call_bb])]):
        okp, w = g.must_pass_through(call_bb, [p for p in pushes if p in g.reachable([call_bb])])
        chk.decide(R2, chk.key(R2, F.short, 'result-pushed'), okp,
                   'the host result (or Void) is pushed on every path from CALL to return',
                   'a path from the host call to return does not push the result on the evaluation stack',
                   F.loc(call_bb), {'witness_blocks': w})

    # ---- unbound
    # every block reached with bound=F must not be CALL / pop loop; returns reached with bound=F are Err or the fallback
    vb = gf.valuations_at(call_bb, ['bound'])
    chk.decide(R3, chk.key(R3, F.short, 'call-needs-binding'), bool(vb) and all(v['bound'] is True for v in vb),
               'CALL is reached only with a binding present',
               'the host call is reachable without a binding (valuations %s)' % vb, F.loc(call_bb))
    for s in sites(prog, F):
        if not s['kind'].startswith('unwrap:'):
            continue
        at = tr.prov(F, s['term']['args'][0])
        if 'field:Story::externals' in at:
            v = gf.valuations_at(s['bb'], ['bound'])
            chk.decide(R3, chk.key(R3, F.short, 'binding-unwrap'), bool(v) and all(x['bound'] is True for x in v),
                       'the binding is unwrapped only where it is known to exist',
                       'externals.get(name).unwrap() is reachable with the binding absent: an unbound external panics',
                       F.loc(s['bb']))
    # no-fallback exit
    vals_ret = []
    for r in g.returns:
        for st in gf.states.get(r, ()):
            d = dict(st)
            if d.get('bound') is False and d.get('fallbacks') is False:
                vals_ret.append(r)
    # on bound=F & fallbacks=F the value returned must be Err: check that an Err aggregate dominates... simplified:
    err_blocks = [bb for bb, si, s in F.stmts() if s['k'] == 'assign' and (s['pl']['l'] == 0 or s['pl']['l'] in F.ret_locals)
                  and 'p' not in s['pl'] and s['rv']['k'] == 'agg' and s['rv'].get('var') == 'Err']
    unb = [bb for bb in err_blocks if any(v.get('bound') is False for v in gf.valuations_at(bb, ['bound']))]
    chk.decide(R3, chk.key(R3, F.short, 'unbound-is-err'), len(unb) >= 2,
               'unbound externals end in Err exits (%d)' % len(unb),
               'no Err exit is reached on the unbound path: an unbound external without fallback no longer fails cleanly',
               F.loc(0))

    # ---- validated before run
    ca = prog.fn('Story::continue_async')
    if chk.anchor(R4, 'Story::continue_async', ca):
        def atom2(desc):
            if desc == ('field', 'Story::has_validated_externals'):
                return 'validated'
            return None
        g2 = GuardFlow(prog, ca, atom2, tracer=tr)
        g2.run()
        gc = cfg(ca)
        ci = [bb for bb, t in ca.calls() if callee_short(t) == 'Story::continue_internal']
        val = [bb for bb, t in ca.calls() if callee_short(t) == 'Story::validate_external_bindings']
        ok = bool(ci)
        for bb in ci:
            for st in g2.states.get(bb, ()):
                d = dict(st)
                if d.get('validated') is True:
                    continue
                # must have passed validate on this path: approximate by dominance of a validate block on the
                # not-validated side
                if not any(gc.dominates(v, bb) or bb in gc.reachable([v]) for v in val):
                    ok = False
        # precise path check: from entry to continue_internal avoiding validate with validated != True
        def feasible_without_validate():
            seen = set()
            stack = [(0, fs) for fs in g2.states.get(0, ())]
            while stack:
                b, fs = stack.pop()
                if (b, fs) in seen:
                    continue
                seen.add((b, fs))
                if b in ci and dict(fs).get('validated') is not True:
                    return True
                if b in val:
                    continue
                loc = dict(fs)
                g2._apply_stmts(b, loc)
                for succ, ns in g2._out_edges(b, loc):
                    stack.append((succ, frozenset(ns.items())))
            return False
        chk.decide(R4, chk.key(R4, 'continue_async'), ok and not feasible_without_validate(),
                   'continue_internal is reached only after validation',
                   'continue_async can reach continue_internal with has_validated_externals false and without calling '
                   'validate_external_bindings: unbound externals are discovered only when executed', ca.loc(0))
    walker_covers_all_children(chk, prog, tr)
    compiler_marks_external_calls(chk, prog)


def walker_covers_all_children(chk, prog, tr):
    R5 = 'C12.binding-walk-covers-every-container'
    chk.rule(R5, 'validate_external_bindings_container reaches every child container: the loop over `content` leaves out '
             'children that have a valid name, so the other loop must go over the whole of Container::named_content '
             '(which Container::new fills with exactly those children, C19.naming-agreement) - not over '
             'get_named_only_content(), which excludes the named children that sit in `content` (an opening labelled '
             'gather): external calls inside such a container would never be validated and an unbound one would only '
             'fail when it is reached.')
    # the walker is found by its role, not its name: the self-recursive function over a Container that
    # validate_external_bindings starts
    w = None
    top = prog.fn('Story::validate_external_bindings')
    if top is not None:
        seen_, work_ = set(), [top]
        while work_ and w is None:
            f_ = work_.pop()
            if f_.p in seen_:
                continue
            seen_.add(f_.p)
            for bb, t in f_.calls():
                h_ = prog.fns.get(callee(t))
                if h_ is None or h_.crate != 'bladeink':
                    continue
                if any(callee(t2) == h_.p for _, t2 in h_.calls()) and any(
                        'Container' in h_.local_ty(i + 1) for i in range(h_.body['argc'])):
                    w = h_
                    break
                if len(seen_) < 6:
                    work_.append(h_)
    if not chk.anchor(R5, 'the recursive container walk started by Story::validate_external_bindings', w):
        return
    lt = Tracer(prog, transparent=lambda cs: True, use_summaries=False)
    g = cfg(w)
    loops = g.loops_heads()
    rec_in_loop_over = {'content': False, 'named_content': False, 'named_only': False}
    for h, tails in loops.items():
        body = g.loop_body(h, tails)
        recurses = any(w.blocks[b]['term'] and w.blocks[b]['term']['k'] == 'call'
                       and callee(w.blocks[b]['term']) == w.p for b in body)
        if not recurses:
            continue
        # what does this loop iterate?  the receiver of its next() call
        for b in body:
            t = w.blocks[b]['term']
            if t and t['k'] == 'call' and callee_short(t).rsplit('::', 1)[-1] == 'next' and t['args']:
                at = lt.prov(w, t['args'][0])
                if 'via:Container::get_named_only_content' in at:
                    rec_in_loop_over['named_only'] = True
                elif 'field:Container::named_content' in at:
                    rec_in_loop_over['named_content'] = True
                elif 'field:Container::content' in at:
                    rec_in_loop_over['content'] = True
    chk.decide(R5, chk.key(R5, 'named-children'), rec_in_loop_over['named_content'],
               'the walk recurses into every entry of named_content',
               'the binding walk (%s) does not recurse over the whole of Container::named_content (loops ' % w.short +
               'recursing over: %s): named children that sit in `content` are skipped by both loops'
               % sorted(k for k, v in rec_in_loop_over.items() if v), w.loc(0))
    chk.decide(R5, chk.key(R5, 'content-children'), rec_in_loop_over['content'],
               'the walk recurses into the unnamed containers of content',
               'validate_external_bindings_container no longer recurses over Container::content', w.loc(0))


FCALL_WITHOUT_TEST = {
    ('emitter::emit_expression_ctx', 0): 'the name is a LIST name (list_names.contains(name) dominates): a list cannot be '
                                         'declared EXTERNAL',
}


def compiler_marks_external_calls(chk, prog):
    """The runtime calls a bound host function only for an `x()` token: every place of the compiler that writes a
    function call of a name taken from the source as `f()` must have decided before that the name is not EXTERNAL."""
    from analysis.defuse import consts_of, full_lineage
    RX = 'C12.compiler-marks-every-external-call'
    chk.rule(RX, 'Every place of the compiler\'s emitter that writes {"f()": name} with a name that is not a constant is '
             'dominated by a membership test of that emitter on the set of EXTERNAL names (external_functions.contains, '
             'directly or inside the closure of an is_some_and / map_or), or is a tabled site with its reason. A call '
             'emitted as f() runs the ink function of that name and never the host function bound to it.')
    lt = Tracer(prog, transparent=lambda cs: True, use_summaries=False)
    n = 0
    for root in sorted(prog.fns.values(), key=lambda f: f.p):
        if root.crate != 'bladeink_compiler' or root.parent or '::emitter' not in root.p:
            continue
        ordinal = 0
        for g in prog.with_closures(root):
            c = cfg(g)
            tests = []
            for bb, t in g.calls():
                cs = callee_short(t)
                if cs.rsplit('::', 1)[-1] in ('contains', 'contains_key') and t['args'] and \
                        any(a.startswith('field:') and a.endswith('::external_functions')
                            for a in full_lineage(prog, g, t['args'][0], _lt=lt)):
                    tests.append(bb)
                for cl in (t['f'].get('closures') or []):
                    h = prog.fns.get(cl)
                    if h is None:
                        continue
                    for hh in prog.with_closures(h):
                        for b2, t2 in hh.calls():
                            if callee_short(t2).rsplit('::', 1)[-1] in ('contains', 'contains_key') and t2['args'] and \
                                    any(a.startswith('field:') and a.endswith('::external_functions')
                                        for a in full_lineage(prog, hh, t2['args'][0], _lt=lt)):
                                tests.append(bb)
            for bb, t in g.calls():
                if callee_short(t) != 'Map::insert' or len(t['args']) < 3:
                    continue
                if 'f()' not in consts_of(lt.prov(g, t['args'][1])):
                    continue
                vat = lt.prov(g, t['args'][2])
                if not any(a.startswith(('arg:', 'field:', 'upvar:')) for a in vat):
                    continue            # a constant name
                n += 1
                tested = any(c.dominates(tb, bb) and tb != bb for tb in tests)
                tabled = (root.short, ordinal) in FCALL_WITHOUT_TEST
                chk.decide(RX, chk.key(RX, root.short, '#%d' % ordinal), tested or tabled,
                           'decided after the test on the EXTERNAL names' if tested else
                           'tabled: %s' % FCALL_WITHOUT_TEST.get((root.short, ordinal)),
                           '%s writes a call of a name from the source as {"f()": ..} without having tested the name '
                           'against the EXTERNAL declarations: if the name is an external function the story calls the ink '
                           'fallback of that name (or nothing) and the function the host bound is never called'
                           % root.short, g.loc(bb))
                ordinal += 1
    chk.floor(RX, 'places of the emitter that write an f() call of a source name', n, 3)
