"""Thorough tier = quick + self-test of the rule set's sensitivity:
each recorded scratch mutant (selftest/mutants/<Cxx>/*.json: exact-string edits, one broken instance each) is
applied to a scratch copy of the *current* /repo, re-extracted, and the property's rules must then report a NEW
finding (one that the unmutated tree does not have). A mutant that no longer applies is reported as skipped; an
undetected mutant is recorded as a sensitivity miss in the evidence (a weakness of the checker, not a violation
of /repo, so it does not change the exit status)."""
import glob
import json
import os
import shutil
import subprocess
import tempfile

from analysis import facts
from rules.common import Check, VERIF


def copy_repo(dst):
    subprocess.check_call(['rsync', '-a', '--exclude', 'target', '--exclude', '.git', facts.REPO + '/', dst + '/'])


def apply_edits(root, edits):
    for e in edits:
        p = os.path.join(root, e['file'])
        if not os.path.exists(p):
            return 'file missing: ' + e['file']
        s = open(p).read()
        if s.count(e['old']) < 1:
            return 'anchor text not found in ' + e['file']
        s = s.replace(e['old'], e['new'], e.get('count', 1))
        open(p, 'w').write(s)
    return None


_SLOT = None


def _init_worker(counter):
    global _SLOT
    with counter.get_lock():
        _SLOT = counter.value
        counter.value += 1


def analyse_copy(root):
    """Extract facts of the scratch copy (not cached) and load them."""
    out = tempfile.mkdtemp(prefix='facts-', dir=os.path.dirname(root))
    tdir = 'target-mut' if _SLOT is None else 'target-mut-%d' % _SLOT
    # several thorough checks may run at once (one per property): a target directory is used by one extraction at a time
    import fcntl
    os.makedirs(facts.CACHE, exist_ok=True)
    with open(os.path.join(facts.CACHE, tdir + '.lock'), 'w') as lk:
        fcntl.flock(lk, fcntl.LOCK_EX)
        try:
            rc, log = facts.run_extractor(root, out, os.path.join(facts.CACHE, tdir))
        finally:
            fcntl.flock(lk, fcntl.LOCK_UN)
    if rc != 0:
        return None, log[-3000:]
    prog = facts.Program(out)
    prog.key = 'mutant'
    prog.normalise(facts.anchor_names())
    prog.nfiles = 0
    return prog, None


def _job(args):
    import importlib
    pid, path, base_keys, benign = args
    mod = importlib.import_module('rules.' + pid.lower())
    r = run_mutant(mod, pid, path, set(base_keys))
    if benign:
        if r['status'] in ('detected', 'MISSED'):
            r['status'] = 'FALSE-ALARM' if r.get('new_findings') else 'quiet'
        r['kind'] = 'benign'
    return r


def run_mutant(mod, pid, mutant_path, base_keys):
    spec = json.load(open(mutant_path))
    tmp = tempfile.mkdtemp(prefix='inkmut-')
    try:
        root = os.path.join(tmp, 'repo')
        os.makedirs(root)
        copy_repo(root)
        if spec.get('patch'):
            pf = os.path.join(os.path.dirname(mutant_path), spec['patch'])
            r = subprocess.run(['patch', '-p1', '-s', '-d', root, '-i', pf], capture_output=True, text=True)
            err = None if r.returncode == 0 else 'patch does not apply: ' + (r.stdout + r.stderr)[-200:]
        else:
            err = apply_edits(root, spec['edits'])
        if err:
            return {'mutant': os.path.basename(mutant_path), 'status': 'skipped', 'why': err}
        prog, log = analyse_copy(root)
        if prog is None:
            return {'mutant': os.path.basename(mutant_path), 'status': 'skipped', 'why': 'mutant does not compile',
                    'log': log[-400:]}
        chk = Check(pid, 'thorough', prog)
        mod.run(chk, prog)
        new = sorted({f['key'] for f in chk.findings} - base_keys)
        want = spec.get('expect_rule')
        hit = [k for k in new if (want is None or k.startswith(want))]
        return {'mutant': os.path.basename(mutant_path), 'what': spec.get('what', ''),
                'status': 'detected' if hit else 'MISSED', 'new_findings': new[:6]}
    finally:
        shutil.rmtree(tmp, ignore_errors=True)


def run(chk, prog, mod):
    pid = chk.pid
    base_keys = sorted({f['key'] for f in chk.findings})
    jobs = [(pid, mp, base_keys, False) for mp in sorted(glob.glob(os.path.join(VERIF, 'selftest', 'mutants', pid, '*.json')))]
    # behaviour-preserving variants: the rules must stay quiet on them
    for bp in sorted(glob.glob(os.path.join(VERIF, 'selftest', 'benign', '*.json'))):
        spec = json.load(open(bp))
        if pid in spec.get('props', [pid]):
            jobs.append((pid, bp, base_keys, True))
    import multiprocessing as mp_
    nproc = max(1, min(int(os.environ.get('VERIF_JOBS', '6')), len(jobs) or 1))
    counter = mp_.Value('i', 0)
    res = []
    with mp_.Pool(nproc, initializer=_init_worker, initargs=(counter,)) as pool:
        for r in pool.imap(_job, jobs):
            res.append(r)
            print('selftest %s %s%s: %s %s' % (pid, 'benign ' if r.get('kind') == 'benign' else '', r['mutant'], r['status'],
                                               r.get('why', '') or r.get('new_findings', '')))
    chk.sensitivity = res
    chk.extra_cov['selftest_mutants'] = sum(1 for r in res if r.get('kind') != 'benign')
    chk.extra_cov['selftest_detected'] = sum(1 for r in res if r['status'] == 'detected')
    chk.extra_cov['selftest_benign_variants'] = sum(1 for r in res if r.get('kind') == 'benign')
    chk.extra_cov['selftest_false_alarms'] = [r['mutant'] for r in res if r['status'] == 'FALSE-ALARM']
    chk.extra_cov['selftest_missed'] = [r['mutant'] for r in res if r['status'] == 'MISSED']
    # canary hook: rule sets may define canary(chk) for zero-expected-count rules
    if hasattr(mod, 'canary'):
        mod.canary(chk, prog)
