"""C02 — save/load preserves all future behaviour (writer/reader agreement, field coverage, kind exhaustiveness)."""
from analysis.facts import callee, callee_short, last_seg, tyname
from analysis.defuse import Tracer, consts_of
from analysis.tables import compared_strings
from analysis.fieldcov import fields_read, fields_written

RECORDS = [
    # (record kind, writer functions, reader functions)
    ('state', ['StoryState::write_json'], ['StoryState::load_json_obj']),
    ('flow', ['Flow::write_json'], ['Flow::from_json', 'Flow::load_flow_choice_threads']),
    ('callstack', ['CallStack::write_json'], ['CallStack::load_json']),
    ('thread', ['Thread::write_json'], ['Thread::from_json']),
    ('choice', ['json_write::write_choice'], ['json_read::jobject_to_choice', 'json_read::jarray_to_tags']),
    ('object', ['json_write::write_rtobject', 'json_write::write_ink_list', 'json_write::write_choice'],
     ['json_read::jtoken_to_runtime_object', 'json_read::jobject_to_choice', 'json_read::jarray_to_tags']),
]
# one-sided keys confirmed by reading
ONE_SIDED = {
    ('state', 'callstackThreads'): 'read-only: pre-flows save format (old saves)',
    ('state', 'outputStream'): 'read-only: pre-flows save format',
    ('state', 'currentChoices'): 'read-only: pre-flows save format',
    ('state', 'choiceThreads'): 'read-only: pre-flows save format',
    ('state', 'inkFormatVersion'): 'write-only: informational ("not using this right now")',
    ('object', '#'): 'legacy tag object: still written for Tag objects and read',
}

# field classification: (struct, field) -> reason why it is legitimately not written to / read from a save
FIELD_TABLE = {
    ('StoryState', 'output_stream_text_dirty'): 'derived cache flag (set by output_stream_dirty after load)',
    ('StoryState', 'output_stream_tags_dirty'): 'derived cache flag',
    ('StoryState', 'current_text'): 'derived cache of the output stream',
    ('StoryState', 'current_tags'): 'derived cache of the output stream',
    ('StoryState', 'alive_flow_names_dirty'): 'derived cache flag',
    ('StoryState', 'did_safe_exit'): 'transient: reset by every continue',
    ('StoryState', 'current_errors'): 'transient: delivered / returned by the continue that raised them',
    ('StoryState', 'current_warnings'): 'transient: same',
    ('StoryState', 'patch'): 'exists only inside a continue (look-ahead)',
    ('StoryState', 'main_content_container'): 'the program, constructor argument',
    ('StoryState', 'list_definitions'): 'the program, constructor argument',
    ('StoryState', 'named_flows'): 'written/read as entries of "flows" (dynamic keys)',
    ('Flow', 'name'): 'written/read as the key of its "flows" entry',
    ('CallStack', 'start_of_root'): 'recomputed from the program on load',
    ('Thread', 'previous_pointer'): 'written as previousContentObject, read through Story::pointer_at_path',
    ('Element', 'evaluation_stack_height_when_pushed'):
        'only meaningful for the host-evaluation frame, which cannot be live at a save point '
        '(evaluate_function holds &mut Story)',
    ('Choice', 'obj'): 'runtime object header (parent/path cache), not state',
    ('Choice', 'thread_at_generation'): 'written separately under choiceThreads / restored from the live call stack',
    ('Choice', 'target_path'): 'written as targetPath (to_string), read by the constructor',
    ('VariablesState', 'default_global_variables'): 'rebuilt from the program (reset_globals); used to elide defaults',
    ('VariablesState', 'batch_observing_variable_changes'): 'true only inside a continue',
    ('VariablesState', 'changed_variables_for_batch_obs'): 'exists only inside a continue',
    ('VariablesState', 'callstack'): 're-pointed at the current flow after load (rule C10)',
    ('VariablesState', 'patch'): 'exists only inside a continue',
    ('VariablesState', 'list_defs_origin'): 'the program',
    ('InkList', 'origins'): 'derived from the origin names whenever the list is pushed on the evaluation stack',
}
STRUCTS = [
    ('StoryState', ['StoryState::write_json'], ['StoryState::load_json_obj']),
    ('Flow', ['Flow::write_json', 'StoryState::write_json'], ['Flow::from_json', 'Flow::load_flow_choice_threads']),
    ('CallStack', ['CallStack::write_json'], ['CallStack::load_json']),
    ('Thread', ['Thread::write_json', 'CallStack::write_json'], ['Thread::from_json']),
    ('Element', ['Thread::write_json'], ['Thread::from_json']),
    ('Choice', ['json_write::write_choice', 'Flow::write_json', 'json_write::write_choice_tags'],
     ['json_read::jobject_to_choice', 'Flow::load_flow_choice_threads']),
    ('VariablesState', ['VariablesState::write_json'], ['VariablesState::load_json']),
    ('InkList', ['json_write::write_ink_list'], ['json_read::jtoken_to_runtime_object']),
]


LOOP_EXEMPT = {
    ('json_write::write_ink_list', 'InkList::origins'):
        'merges the origin definitions\' names into the saved origin-name list without duplicates (conditional push by design)',
}


def inserted_keys(prog, fns, tr):
    out = {}
    for fn in fns:
        for f in prog.with_closures(fn):
            for bb, t in f.calls():
                if callee_short(t) == 'Map::insert' and len(t['args']) >= 2:
                    for c in consts_of(tr.prov(f, t['args'][1])) - {'promoted', '?'}:
                        out.setdefault(c, f.loc(bb))
    return out


def read_keys(prog, fns, tr):
    out = {}
    for fn in fns:
        for k, uses in compared_strings(prog, fn, tr).items():
            for cs, loc in uses:
                if cs.rsplit('::', 1)[-1] in ('get', 'contains_key', 'remove'):
                    out.setdefault(k, loc)
    return out


def run(chk, prog):
    tr = Tracer(prog)
    chk.not_decided += ['that equal save text implies equal futures (needs execution)', 'numeric fidelity of floats',
                        'every history-dependent aspect of fidelity']
    R1 = 'C02.key-agreement'
    chk.rule(R1, 'For every record kind the set of literal JSON keys the writer inserts equals the set the reader looks '
             'up; one-sided keys must be in the table (legacy read-only / informational write-only) with a reason.')
    R2 = 'C02.field-coverage'
    chk.rule(R2, 'Every field of the persistent structs (StoryState, Flow, CallStack, Thread, Element, Choice, '
             'VariablesState, InkList) is read by its writer and assigned by its reader, or is classified in the table '
             '(derived cache / transient by design / persisted elsewhere). A new field is unclassified and therefore '
             'reported: new state must be given an answer to "is it saved?".')
    R3 = 'C02.kind-exhaustive'
    chk.rule(R3, 'write_rtobject tests for every impl RTObject type and every ValueType variant; the reader constructs '
             'each of the same kinds.')

    # ---- 1. keys
    nk = 0
    for kind, ws, rs in RECORDS:
        wf = [prog.fn(w) for w in ws]
        rf = [prog.fn(r) for r in rs]
        if not all(chk.anchor(R1, n, f) for n, f in zip(ws + rs, wf + rf)):
            continue
        wk = inserted_keys(prog, wf, tr)
        rk = read_keys(prog, rf, tr)
        if kind == 'object':
            # bare tokens are compared with eq, not looked up: keys only
            pass
        for k in sorted(set(wk) | set(rk)):
            nk += 1
            key = chk.key(R1, kind, k)
            if k in wk and k in rk:
                chk.ok(R1, key, 'written and read', wk[k])
            elif (kind, k) in ONE_SIDED:
                chk.ok(R1, key, 'table: ' + ONE_SIDED[(kind, k)], wk.get(k) or rk.get(k))
            elif k in rk:
                chk.fail(R1, key, 'key "%s" of the %s record is read by the loader but never written by the saver: '
                         'that piece of state is lost by every save' % (k, kind), rk[k])
            else:
                chk.fail(R1, key, 'key "%s" of the %s record is written by the saver but never read by the loader: '
                         'that piece of state is dropped by every load' % (k, kind), wk[k])
    chk.floor(R1, 'save-record keys', nk, 50)

    # ---- 2. field coverage
    nf = 0
    for sname, ws, rs in STRUCTS:
        adt = prog.adt(sname) if sname not in ('Choice', 'Flow') else prog.adts.get(
            {'Choice': 'bladeink::choice::Choice', 'Flow': 'bladeink::flow::Flow'}[sname])
        if not chk.anchor(R2, 'struct ' + sname, adt):
            continue
        wf = [prog.fn(w) for w in ws if prog.fn(w) is not None]
        rf = [prog.fn(r) for r in rs if prog.fn(r) is not None]
        rd = fields_read(prog, wf, sname, depth=1)
        wr, defaulted = fields_written(prog, rf, sname, depth=1, tr=tr)
        for f in adt['variants'][0]['fields']:
            nf += 1
            n = f['n']
            loc = '%s:%s' % (adt['sp']['f'], adt['sp']['l'])
            key = chk.key(R2, sname, n)
            if n in rd and n in wr:
                chk.ok(R2, key, 'read by the writer (%s) and assigned by the reader (%s)' % (rd[n], wr[n]), loc)
            elif (sname, n) in FIELD_TABLE:
                chk.ok(R2, key, 'table: ' + FIELD_TABLE[(sname, n)], loc)
            else:
                miss = []
                if n not in rd:
                    miss.append('never read by the saver')
                if n not in wr:
                    miss.append('never restored by the loader' + (' (constructor default only)' if n in defaulted else ''))
                chk.fail(R2, key, 'field %s::%s is %s and is not classified: it is lost across save/load'
                         % (sname, n, ' and '.join(miss)), loc)
    chk.floor(R2, 'fields of persistent structs', nf, 55)
    for (s_, f_) in FIELD_TABLE:
        a = prog.adts.get({'Choice': 'bladeink::choice::Choice', 'Flow': 'bladeink::flow::Flow'}.get(s_, '')) or prog.adt(s_)
        if a is None or f_ not in [x['n'] for x in a['variants'][0]['fields']]:
            chk.note('C02 field table entry is stale: %s::%s' % (s_, f_))

    # ---- 2a. values are written in a form the reader takes back, and read back through the engine's own door
    R2a = 'C02.values-survive-the-text-form'
    chk.rule(R2a, '(a) a float handed to the JSON writer has been made finite first (clamp + NaN test): serde_json writes '
             'an infinity or NaN as null and the loader rejects the whole save; (b) the loaded evaluation stack is filled '
             'through push_evaluation_stack (which resolves list origins), never assigned as a whole; (c) the "equal to '
             'its default, do not save" test compares the origin names of lists too; (d) write_ink_list takes the origin '
             'names from get_origin_names only, not from the resolved-origins cache (InkList::origins), which can still '
             'hold the lists of an earlier value.')
    wro = prog.fn('json_write::write_rtobject')
    if chk.anchor(R2a, 'json_write::write_rtobject', wro):
        lt2 = Tracer(prog, transparent=lambda cs: True, use_summaries=False)
        conv = []
        for gfn in prog.with_closures(wro):
            for bb, t in gfn.calls():
                cs = callee_short(t)
                targs = ' '.join(t['f'].get('targs', []) or [])
                st = t['f'].get('self', '') or ''
                if ('f32' in targs.split() or st == 'f32' or 'f32' in targs) and \
                        (cs.endswith('to_value') or cs.endswith('::from') or cs.endswith('::into')
                         or cs.endswith('serialize')) and t['args']:
                    conv.append((gfn, bb, lt2.prov(gfn, t['args'][0])))
        if chk.anchor(R2a, 'conversion of an f32 to a JSON value in write_rtobject', conv):
            for i, (gfn, bb, at) in enumerate(conv):
                ok = any(a.split(':', 1)[-1].endswith('f32::clamp') for a in at) and \
                    any(callee_short(t2) == 'f32::is_nan' for _, t2 in wro.calls())
                chk.decide(R2a, chk.key(R2a, 'float-made-finite', '#%d' % i), ok,
                           'the float passes through clamp (and NaN is tested) before it becomes JSON',
                           'write_rtobject hands a float to the JSON writer as it is: an infinite or NaN value is saved '
                           'as null and load_state rejects the save', gfn.loc(bb))
    ljo = prog.fn('StoryState::load_json_obj')
    if chk.anchor(R2a, 'StoryState::load_json_obj', ljo):
        whole = []
        for gfn in prog.with_closures(ljo):
            for bb, si, st_ in gfn.stmts():
                if st_['k'] == 'assign' and 'p' in st_['pl']:
                    last = st_['pl']['p'][-1]
                    if last['k'] == 'field' and last.get('n') == 'evaluation_stack' and st_['rv']['k'] == 'use':
                        if any('jarray_to_runtime_obj_list' in a for a in tr.prov(gfn, st_['rv']['op'])):
                            whole.append(gfn.loc(bb, si))
        pushes = [bb for gfn in prog.with_closures(ljo) for bb, t in gfn.calls()
                  if callee_short(t) == 'StoryState::push_evaluation_stack']
        chk.decide(R2a, chk.key(R2a, 'eval-stack-pushed'), not whole and bool(pushes),
                   'the loaded values go through push_evaluation_stack',
                   'load_json_obj assigns the decoded evaluation stack as a whole: lists parked there are restored '
                   'without their origins (list + int then yields the empty list)', whole[0] if whole else ljo.loc(0))
    ve = prog.fn('VariablesState::val_equal')
    if chk.anchor(R2a, 'VariablesState::val_equal', ve):
        chk.decide(R2a, chk.key(R2a, 'default-elision-compares-origins'),
                   any(callee_short(t) == 'InkList::get_origin_names' for gfn in prog.with_closures(ve)
                       for _, t in gfn.calls()),
                   'val_equal consults get_origin_names for lists',
                   'val_equal compares lists by their items only: an empty list that belongs to other lists than the '
                   'default value is elided from the save and comes back without its origins', ve.loc(0))
    if ve is not None:
        # "equal to its default" is exact: the value that is left out of the save is replaced by the default on load
        approx = []
        for gfn in prog.with_closures(ve):
            for bb, si, st_ in gfn.stmts():
                if st_['k'] == 'assign' and st_['rv']['k'] == 'binop':
                    op_ = st_['rv']['op']
                    tys = [gfn.local_ty(o['pl']['l']) for o in (st_['rv']['a'], st_['rv']['b'])
                           if o.get('k') in ('copy', 'move') and 'p' not in o['pl']]
                    if op_ in ('Lt', 'Le', 'Gt', 'Ge') or (op_ in ('Sub', 'SubWithOverflow', 'Div') and any(
                            t_ in ('f32', 'f64', 'i32') for t_ in tys)):
                        approx.append((gfn.loc(bb, si), op_))
            for bb, t in gfn.calls():
                if callee_short(t).rsplit('::', 1)[-1] in ('abs', 'abs_diff', 'round', 'floor', 'ceil', 'trunc', 'total_cmp',
                                                           'partial_cmp', 'max', 'min', 'to_lowercase', 'trim',
                                                           'eq_ignore_ascii_case'):
                    approx.append((gfn.loc(bb), callee_short(t)))
        chk.decide(R2a, chk.key(R2a, 'default-elision-is-exact'), not approx,
                   'val_equal compares with ==, nothing approximate',
                   'val_equal decides "equal to the default" with %s: a value that is merely close to (or a normalised form '
                   'of) its default is left out of the save and comes back as the default' % (approx[0][1] if approx else ''),
                   approx[0][0] if approx else ve.loc(0))
    wil = prog.fn('json_write::write_ink_list')
    if chk.anchor(R2a, 'json_write::write_ink_list', wil):
        reads_cache = [gfn.loc(bb, si) for gfn in prog.with_closures(wil) for bb, si, st_ in gfn.stmts()
                       if st_['k'] == 'assign' and any(
                           pe['k'] == 'field' and pe.get('n') == 'origins' and 'InkList' in pe.get('adt', '')
                           for pl in ([st_['rv'].get('pl')] if 'pl' in st_['rv'] else []) +
                           ([st_['rv']['op']['pl']] if isinstance(st_['rv'].get('op'), dict) and st_['rv']['op'].get('k') in ('copy', 'move') else [])
                           for pe in (pl or {}).get('p', []))]
        chk.decide(R2a, chk.key(R2a, 'origins-from-names-only'), not reads_cache,
                   'write_ink_list does not read the resolved-origins cache',
                   'write_ink_list reads InkList::origins: the cache can hold the lists of an earlier value, which the '
                   'running story never consults, so the loaded list belongs to more lists than the saved one',
                   reads_cache[0] if reads_cache else wil.loc(0))

    # ---- 2b. writer loops are total
    R4 = 'C02.writer-loops-total'
    chk.rule(R4, 'In the save writers every iteration of a loop over a state collection reaches the insert/push that '
             'emits the element (no element is filtered out), except VariablesState::write_json, whose elision of '
             'default-valued globals is undone by the loader (it refills from default_global_variables).')
    TOTAL_WRITERS = ['json_write::write_int_dictionary', 'json_write::write_dictionary_values',
                     'json_write::write_list_rt_objs', 'json_write::write_choice_tags', 'json_write::write_ink_list',
                     'CallStack::write_json', 'Thread::write_json', 'StoryState::write_json']
    nloops = 0
    from analysis.cfg import cfg
    for name in TOTAL_WRITERS:
        f = prog.fn(name)
        if not chk.anchor(R4, name, f):
            continue
        g = cfg(f)
        heads = g.loops_heads()
        li = 0
        for bb, t in f.calls():
            if callee_short(t).rsplit('::', 1)[-1] != 'next' or not (t['f'].get('trait') or '').endswith('iterator::Iterator'):
                continue
            loop = None
            for h, tails in heads.items():
                body = g.loop_body(h, tails)
                if bb in body and (loop is None or len(body) < len(loop)):
                    loop = body
            if loop is None:
                continue
            sw = f.blocks[t['t']]['term'] if 't' in t else None
            if not sw or sw['k'] != 'switch':
                continue
            some_t = [tb for v, tb in sw['ts'] if v == 1] or ([sw['else']] if 1 not in [v for v, _ in sw['ts']] else [])
            sinks = [b for b in loop if f.blocks[b]['term'] and f.blocks[b]['term']['k'] == 'call'
                     and callee_short(f.blocks[b]['term']) in ('Map::insert', 'Vec::push', 'HashMap::insert')]
            src = sorted(a[6:] for a in tr.prov(f, t['args'][0]) if a.startswith('field:') and not a.startswith('field:Option'))
            srcname = src[-1] if src else 'param'
            if (name, srcname) in LOOP_EXEMPT:
                chk.ok(R4, chk.key(R4, name, srcname), 'table: ' + LOOP_EXEMPT[(name, srcname)], f.loc(bb))
                continue
            nloops += 1
            # a path from the Some edge back to the loop head that stays in the loop and avoids every sink
            w = g.path(some_t, lambda b: b == bb, avoid=set(sinks) | (set(range(len(f.blocks))) - set(loop)))
            chk.decide(R4, chk.key(R4, name, srcname, '#%d' % li), bool(sinks) and w is None,
                       'every iteration emits its element',
                       '%s can skip an element of the collection it saves (an iteration reaches the next one without '
                       'insert/push): that entry is silently missing from every save' % name, f.loc(bb),
                       {'witness_blocks': w})
            li += 1
    chk.floor(R4, 'writer loops', nloops, 8)
    vw, vl = prog.fn('VariablesState::write_json'), prog.fn('VariablesState::load_json')
    if chk.anchor(R4, 'VariablesState::write_json', vw) and chk.anchor(R4, 'VariablesState::load_json', vl):
        refills = 'default_global_variables' in fields_read(prog, [vl], 'VariablesState', depth=0)
        elides = 'default_global_variables' in fields_read(prog, [vw], 'VariablesState', depth=0)
        chk.decide(R4, chk.key(R4, 'VariablesState', 'elision-undone-by-loader'), refills and elides,
                   'the writer elides against default_global_variables and the loader refills from it',
                   'the global-variable writer elides entries but the loader no longer refills them from '
                   'default_global_variables (or vice versa)', vl.loc(0))

    # ---- 3. exhaustiveness
    wro = prog.fn('json_write::write_rtobject')
    if chk.anchor(R3, 'json_write::write_rtobject', wro):
        tested = set()
        got_values = set()
        for bb, t in wro.calls():
            cs = callee_short(t)
            name = cs.rsplit('::', 1)[-1]
            if name in ('downcast', 'downcast_ref', 'is'):
                for ta in t['f'].get('targs', []):
                    tested.add(last_seg(ta.lstrip('&')))
            if cs in ('Value::get_value',):
                for ta in t['f'].get('targs', []):
                    got_values.add(last_seg(ta.replace('&', '').strip()))
            if cs == 'Value::get_bool_value':
                got_values.add('bool')
        impls = prog.impls_of_trait('bladeink::object::RTObject')
        chk.floor(R3, 'impl RTObject types', len(impls), 12)
        for im in impls:
            T = last_seg(im['self'])
            if T == 'Value':
                continue
            chk.decide(R3, chk.key(R3, 'write', T), T in tested, 'write_rtobject has a branch for ' + T,
                       'write_rtobject has no branch for runtime object kind %s: such an object on the evaluation stack '
                       '/ output stream makes save_state fail or lose it' % T, wro.loc(0))
        vt = prog.adt('ValueType')
        for v in vt['variants']:
            pay = last_seg(v['fields'][0]['ty']) if v['fields'] else v['n']
            chk.decide(R3, chk.key(R3, 'write-value', v['n']), pay in got_values,
                       'write_rtobject handles ValueType::%s (%s)' % (v['n'], pay),
                       'write_rtobject has no branch for ValueType::%s (payload %s)' % (v['n'], pay), wro.loc(0))
    rdo = prog.fn('json_read::jtoken_to_runtime_object')
    if chk.anchor(R3, 'json_read::jtoken_to_runtime_object', rdo):
        built = set()
        for f in [rdo, prog.fn('json_read::jarray_to_container'), prog.fn('json_read::jobject_to_choice')]:
            if f is None:
                continue
            for g in prog.with_closures(f):
                for bb, t in g.calls():
                    cs = callee_short(t)
                    h = prog.fns.get(callee(t))
                    if h is not None and h.self_adt:
                        built.add(last_seg(h.self_adt))
                    if cs == 'Value::new':
                        for ta in t['f'].get('targs', []):
                            built.add('value:' + last_seg(ta.replace('&', '').strip()))
        for im in prog.impls_of_trait('bladeink::object::RTObject'):
            T = last_seg(im['self'])
            chk.decide(R3, chk.key(R3, 'read', T), T in built, 'the reader constructs ' + T,
                       'the reader never constructs runtime object kind %s although the writer can emit it' % T,
                       rdo.loc(0))

    # ---- each flow is saved once
    RF_ = 'C02.saved-flows-distinct'
    chk.rule(RF_, 'StoryState::write_json writes the current flow and then every parked flow under its name into one '
             'object; the two never collide only if the parked map never holds the current flow. Loading must therefore '
             'not leave the flow it makes current parked as well (same clause as C10.parked-map-has-no-current-flow): a '
             'stale parked copy would overwrite the live flow in every later save.')
    from rules.c10 import check_load_parks_no_current_flow
    check_load_parks_no_current_flow(chk, prog, tr, RF_)
    from rules.c10 import check_load_replaces_parked_flows
    check_load_replaces_parked_flows(chk, prog, tr, RF_)
    key_field_pairing(chk, prog, tr)
    # ---- the writer reads the committed maps, so no look-ahead patch may outlive its look-ahead
    RG_ = 'C02.no-patch-outlives-its-look-ahead'
    chk.rule(RG_, 'StoryState::write_json and VariablesState::write_json serialise visit_counts, turn_indices and '
             'global_variables directly; while a look-ahead patch is live, changes made after the tentative line end are '
             'only in the patch. Every way a look-ahead ends (discard_snapshot, restore_state_snapshot) therefore applies '
             'the patch on every path (except under async_saving): otherwise a save taken afterwards silently drops '
             'those changes (same clause as C01.commit-or-rewind-applies-patch).')
    from rules.c01 import applies_patch_unless_saving
    for name in ('Story::discard_snapshot', 'Story::restore_state_snapshot'):
        f_ = prog.fn(name)
        if chk.anchor(RG_, name, f_):
            ok_, _ap = applies_patch_unless_saving(prog, tr, f_)
            chk.decide(RG_, chk.key(RG_, name), ok_, 'the patch is applied on every path',
                       '%s can return without applying the look-ahead patch: the changes stay in the patch, which the save '
                       'writers do not read' % name, f_.loc(0))
    optional_keys_are_tabled(chk, prog)



# ---------------------------------------------------------------------------------------------------------------
def _writer_map(prog, tr, lt, fn):
    from analysis.tables import const_strings_of_operand
    out = {}
    for g in prog.with_closures(fn):
        for bb, t in g.calls():
            if callee_short(t) == 'Map::insert' and len(t['args']) >= 3:
                ks = const_strings_of_operand(g, t['args'][1], tr)
                fs = {a[6:] for a in lt.prov(g, t['args'][2]) if a.startswith('field:')
                      and not a.startswith(('field:Option', 'field:Result', 'field:ControlFlow'))}
                for k in ks:
                    out.setdefault(k, set()).update(fs)
    return out


def _keys_behind(prog, tr, fn, op, depth=0, seen=None):
    """JSON keys whose looked-up value an operand derives from (`obj.get("key")`, `obj["key"]`)."""
    from analysis.defuse import du
    from analysis.tables import const_strings_of_operand
    # a worklist over the locals the operand is defined from: every local is visited once (`seen`), so the walk ends
    # without a depth bound - a bound combined with the shared `seen` set made the answer depend on the ORDER of the
    # arguments (a long chain explored first marked the locals of the short one as seen and was then cut off), and a
    # spliced-in helper lengthens every chain by its parameter copies
    seen = seen if seen is not None else set()
    out = set()
    work = [op]
    while work:
        o_ = work.pop()
        if not isinstance(o_, dict) or o_.get('k') not in ('copy', 'move'):
            continue
        l = o_['pl']['l']
        if l in seen:
            continue
        seen.add(l)
        for df in du(fn).defs.get(l, []):
            if df['kind'] in ('assign', 'partial'):
                rv = df['rv']
                for k in ('op', 'a', 'b'):
                    o = rv.get(k)
                    if isinstance(o, dict):
                        work.append(o)
                work.extend(rv.get('ops', []))
                if 'pl' in rv:
                    work.append({'k': 'copy', 'pl': rv['pl']})
            elif df['kind'] in ('call', 'partial_call'):
                t = df['term']
                nm = callee_short(t).rsplit('::', 1)[-1]
                if nm in ('get', 'index', 'get_mut', 'remove') and len(t['args']) >= 2:
                    ks = set(const_strings_of_operand(fn, t['args'][1], tr))
                    if ks:
                        out |= ks
                        continue
                work.extend(t['args'] if nm in ('from_json', 'new') else t['args'][:1])
    return out


def _ctor_param_fields(prog, tr, g):
    out = {}
    for bb, si, s in g.stmts():
        if s['k'] == 'assign' and s['rv']['k'] == 'agg' and s['rv'].get('ak') == 'adt' and s['rv'].get('fields'):
            T = tyname(s['rv']['adt'])
            for n, o in zip(s['rv']['fields'], s['rv']['ops']):
                for a in tr.prov(g, o):
                    if a.startswith('arg:'):
                        out.setdefault(int(a[4:]), set()).add('%s::%s' % (T, n))
    return out


CONTAINER_ADDS = ('insert', 'push', 'push_back', 'push_front', 'extend', 'append')


def flow_loader(prog, tr):
    """The function that restores the parked flows of a save, found by what it does: it inserts Flow values decoded by
    Flow::from_json into StoryState::named_flows (a map String -> Flow).  On the confirmed tree that is
    StoryState::load_json_obj; a new single-caller helper is spliced into it before the rules run (Program.normalise),
    a helper that is not (public, or called from two places) is found here.  Falls back to the function of that name
    when the role has no or several holders."""
    from rules.c10 import _is_flow_map
    found = []
    for f in sorted(prog.fns.values(), key=lambda f_: f_.p):
        if f.crate != 'bladeink' or f.kind == 'closure' or '::tests::' in f.p:
            continue
        for bb, t in f.calls():
            if callee_short(t) == 'HashMap::insert' and len(t['args']) >= 3 and (
                    'field:StoryState::named_flows' in tr.prov(f, t['args'][0]) or _is_flow_map(f, t)) \
                    and 'call:Flow::from_json' in tr.prov(f, t['args'][2]):
                found.append(f)
                break
    return found[0] if len(found) == 1 else prog.fn('StoryState::load_json_obj')


def _reader_map(prog, tr, fn):
    out = {}
    for g in prog.with_closures(fn):
        for bb, si, s in g.stmts():
            if s['k'] == 'assign' and s['pl'].get('p') and s['pl']['p'][-1]['k'] == 'field' and 'adt' in s['pl']['p'][-1]:
                f = '%s::%s' % (tyname(s['pl']['p'][-1]['adt']), s['pl']['p'][-1]['n'])
                rv = s['rv']
                ops = [rv.get('op')] if rv['k'] in ('use', 'cast') else rv.get('ops', [])
                for o in ops:
                    if isinstance(o, dict):
                        for k in _keys_behind(prog, tr, g, o):
                            out.setdefault(k, set()).add(f)
        for bb, t in g.calls():
            h = prog.fns.get(callee(t))
            if h is None and callee_short(t).rsplit('::', 1)[-1] in CONTAINER_ADDS and len(t['args']) >= 2:
                # a collection-valued field is read back entry by entry: `self.f.insert(k, decoded)` / `.push(decoded)`
                # puts what is behind the key into field f just as `self.f = decoded` does
                fs = {a[6:] for a in tr.prov(g, t['args'][0]) if a.startswith('field:')
                      and not a.startswith(('field:Option', 'field:Result', 'field:ControlFlow'))}
                if fs:
                    for a in t['args'][1:]:
                        for k in _keys_behind(prog, tr, g, a):
                            out.setdefault(k, set()).update(fs)
                continue
            if h is None or h.crate != 'bladeink':
                continue
            pf = _ctor_param_fields(prog, tr, h)
            if not pf:
                continue
            for i, a in enumerate(t['args']):
                fs = pf.get(i + 1)
                if fs:
                    for k in _keys_behind(prog, tr, g, a):
                        out.setdefault(k, set()).update(fs)
    return out


PAIRS = (('StoryState::write_json', 'StoryState::load_json_obj'), ('Thread::write_json', 'Thread::from_json'),
         ('CallStack::write_json', 'CallStack::load_json'), ('json_write::write_choice', 'json_read::jobject_to_choice'))
GENERIC_FIELDS = ('Option::', 'Result::', 'Thread::callstack', 'StoryState::current_flow')


def key_field_pairing(chk, prog, tr):
    RP = 'C02.key-field-pairing'
    chk.rule(RP, 'For every save key whose written value can be traced to a field and whose read value can be traced to a '
             'field (assignment, or parameter of the constructor that initialises it), the two are the same field: the '
             'writer stores field f under key k and the reader puts k back into f. Swapping two keys on one side keeps the '
             'key sets, the field sets and every type intact.')
    lt = Tracer(prog, transparent=lambda cs: True, use_summaries=False)
    n = 0
    for wn, rn in PAIRS:
        wf, rf = prog.fn(wn), prog.fn(rn)
        if not (chk.anchor(RP, wn, wf) and chk.anchor(RP, rn, rf)):
            continue
        w, r = _writer_map(prog, tr, lt, wf), _reader_map(prog, tr, rf)
        for k in sorted(set(w) & set(r)):
            fw = {f for f in w[k] if not f.startswith(GENERIC_FIELDS)}
            fr = {f for f in r[k] if not f.startswith(GENERIC_FIELDS)}
            if not fw or not fr:
                continue
            n += 1
            chk.decide(RP, chk.key(RP, wn.split('::')[0], k), bool(fw & fr),
                       'written from and read into %s' % sorted(fw & fr),
                       'save key "%s" is written from %s but read back into %s: the loaded story has the two values '
                       'exchanged / misplaced' % (k, sorted(fw), sorted(fr)), rf.loc(0))
    chk.floor(RP, 'save keys paired field-to-field', n, 14)


# ---------------------------------------------------------------------------------------------------------------
OPTIONAL_KEYS = {
    ('Thread::write_json', 'cPath'): 'element with a null pointer: the reader leaves the pointer null',
    ('Thread::write_json', 'idx'): 'written together with cPath',
    ('Thread::write_json', 'fnStart'): '0 is the reader\'s default',
    ('Thread::write_json', 'temp'): 'no temporaries: the reader starts from an empty map',
    ('Thread::write_json', 'previousContentObject'): 'null previous pointer',
    ('Flow::write_json', 'choiceThreads'): 'only threads that are no longer on the call stack',
    ('StoryState::write_json', 'currentDivertTarget'): 'no pending divert',
    ('json_write::write_choice', 'isInvisibleDefault'): 'false is the reader\'s default',
    ('json_write::write_ink_list', 'origins'): 'only an empty list needs its origin names spelled out',
    ('json_write::write_rt_container', '#f'): 'no count flags: 0 is the reader\'s default',
    ('json_write::write_rt_container', '#n'): 'unnamed container',
    ('json_write::write_rtobject', 'var'): 'a divert has either a variable target or a path',
    ('json_write::write_rtobject', 'c'): 'conditional diverts only; false is the reader\'s default',
    ('json_write::write_rtobject', 'exArgs'): 'external calls with arguments; 0 is the reader\'s default',
    ('json_write::write_rtobject', 'CNT?'): 'a variable reference is written either as CNT? (path) or VAR? (name)',
    ('json_write::write_rtobject', 'VAR?'): 'a variable reference is written either as CNT? (path) or VAR? (name)',
    ('json_write::write_rtobject', 're'): 're-assignments only; the reader defaults to a new declaration = !re',
}


def _map_origin(fn, op):
    """Block of the Map::new call that built the map a Map::insert receiver refers to (None when it is not local)."""
    from analysis.defuse import du
    seen, work = set(), [op]
    while work:
        o = work.pop()
        if o.get('k') not in ('copy', 'move') or 'p' in o['pl']:
            continue
        l = o['pl']['l']
        if l in seen:
            continue
        seen.add(l)
        for df in du(fn).defs.get(l, []):
            if df['kind'] == 'assign':
                rv = df['rv']
                if rv['k'] == 'ref' and 'p' not in rv['pl']:
                    work.append({'k': 'copy', 'pl': {'l': rv['pl']['l']}})
                elif rv['k'] in ('use', 'cast'):
                    work.append(rv['op'])
            elif df['kind'] == 'call' and callee_short(df['term']) == 'Map::new':
                return df['bb']
    return None


def optional_keys_are_tabled(chk, prog):
    from analysis.cfg import cfg
    from analysis.wbf import err_exits
    RO = 'C02.optional-keys-are-the-tabled-ones'
    chk.rule(RO, 'In the save writers (json_write::*, *::write_json) a constant key is put into the object being built on '
             'every successful path from the creation of that object (Map::new) to the return, except the keys of the '
             'frozen table (each with the reader default that makes leaving it out exact). The readers fill in a default '
             'for a missing key; a key that becomes optional is safe only if that default is the value left out - '
             '"ci" of a variable pointer is read back as -1, which is not the 0 of a pointer to a global, and the '
             'difference decides where an assignment through the pointer goes.')
    lt = Tracer(prog, transparent=lambda cs: True, use_summaries=False)
    n = nopt = 0
    for f in sorted(prog.fns.values(), key=lambda f: f.p):
        if f.crate != 'bladeink' or f.parent or not (f.short.startswith('json_write::') or f.short.endswith('::write_json')):
            continue
        g = cfg(f)
        errs = [b for b, d_, s_ in err_exits(prog, f)]
        for bb, t in f.calls():
            if callee_short(t) != 'Map::insert' or len(t['args']) < 3:
                continue
            ks = consts_of(lt.prov(f, t['args'][1]))
            M = _map_origin(f, t['args'][0]) if ks else None
            if M is None:
                continue
            optional = g.path(g.succ[M], lambda b: b in g.returns, avoid=[bb] + errs) is not None
            for k in sorted(ks):
                n += 1
                if not optional:
                    continue
                nopt += 1
                chk.decide(RO, chk.key(RO, f.short, k), (f.short, k) in OPTIONAL_KEYS,
                           'tabled optional key: %s' % OPTIONAL_KEYS.get((f.short, k)),
                           '%s writes the key "%s" only under a condition and the key is not in the table of optional '
                           'keys: what the reader assumes when the key is missing has to be exactly the value that was '
                           'left out, for every value that is left out' % (f.short, k), f.loc(bb))
    chk.floor(RO, 'constant keys written into locally built objects by the save writers', n, 52)
    chk.floor(RO, 'optional keys among them', nopt, 17)
