"""C11 — variable observers see each committed change once, with the final value (four structural clauses)."""
from analysis.facts import callee, callee_short, is_dyn_call
from analysis.cfg import cfg
from analysis.defuse import Tracer, fields_of, full_lineage
from analysis.effects import Effects
from analysis.guards import GuardFlow
from analysis.panics import sites, guard_dominated
from rules.c17 import direct_writers
from rules.c09 import field_leaf, _arith_kind


def run(chk, prog):
    tr = Tracer(prog)
    eff = Effects(prog, tracer=tr)
    chk.not_decided += ['that the value delivered equals what polling would show in every history (needs execution)',
                        'order of notifications across distinct variables (hash order; not part of the contract)']
    RA = 'C11.once-per-variable'
    chk.rule(RA, 'The set handed from complete_variable_observation to the notifier is a map keyed by variable name, and '
             'continue_internal calls notify_variable_changed from exactly one site inside one loop over that map; '
             'notify_variable_changed calls VariableObserver::changed once per registered observer (one dyn call site in '
             'one loop over the variable\'s observer list).')
    RB = 'C11.after-the-work'
    chk.rule(RB, 'In continue_internal every call of notify_variable_changed is dominated by '
             'complete_variable_observation, by the decrement of recursive_continue_count and by the completion block\'s '
             'snapshot test/restore; the values come from global_variables read inside complete_variable_observation.')
    RC = 'C11.look-ahead-deferred'
    chk.rule(RC, 'In set_global, while batch observing, the name goes into the patch when a patch is active and into '
             'changed_variables_for_batch_obs only when none is; apply_patch merges patch.changed_variables into the '
             'batch set; outside batch observing set_global returns true and Story::set_variable notifies iff it did.')
    RD = 'C11.registrations'
    chk.rule(RD, 'Story::variable_observers is written only by observe_variable, remove_variable_observer and Story::new '
             '(not by reset_state / load_state); remove_variable_observer has no unguarded panic site.')

    ci = prog.fn('Story::continue_internal')
    cvo = prog.fn('VariablesState::complete_variable_observation')
    nvc = prog.fn('Story::notify_variable_changed')
    if not (chk.anchor(RA, 'Story::continue_internal', ci) and chk.anchor(RA, 'complete_variable_observation', cvo)
            and chk.anchor(RA, 'Story::notify_variable_changed', nvc)):
        return
    g = cfg(ci)
    # ---- (a)
    rty = cvo.body['locals'][0]['ty']
    chk.decide(RA, chk.key(RA, 'result-keyed-by-name'), 'HashMap<alloc::string::String,' in rty or 'BTreeMap<alloc::string::String,' in rty,
               'complete_variable_observation returns a map keyed by variable name (%s)' % rty.split('<')[0],
               'complete_variable_observation no longer returns a map keyed by name (%s): a variable could be listed '
               'twice' % rty, cvo.loc(0))
    # call sites in continue_internal itself or in a closure it hands to an iterator adaptor (`.for_each(|(n, v)| ..)`);
    # such a site is represented by the block of continue_internal in which the adaptor is called
    from analysis.defuse import full_lineage as _full_lineage
    calls, call_origin = [], {}
    for g_ in prog.with_closures(ci):
        for bb, t in g_.calls():
            if callee_short(t) != 'Story::notify_variable_changed':
                continue
            if g_ is ci:
                calls.append((bb, t))
                call_origin[bb] = (ci, bb, t, False)
            else:
                host = [b2 for b2, t2 in ci.calls() if g_.p in (t2['f'].get('closures') or [])]
                if host:
                    calls.append((host[0], t))
                    call_origin[host[0]] = (g_, bb, t, callee_short(ci.blocks[host[0]]['term']).rsplit('::', 1)[-1]
                                            in ('for_each', 'try_for_each', 'map', 'fold'))
    allc = [(fn.short, fn.loc(bb)) for fn, bb, t in prog.callers('Story::notify_variable_changed')]
    chk.decide(RA, chk.key(RA, 'single-notify-site'), len(calls) == 1,
               'one call site of notify_variable_changed in continue_internal',
               'continue_internal has %d call sites of notify_variable_changed (expected exactly one)' % len(calls),
               ci.loc(calls[0][0]) if calls else ci.loc(0))
    roots = sorted({prog.root_fn(fn).short for fn, bb, t in prog.callers('Story::notify_variable_changed')})
    chk.decide(RA, chk.key(RA, 'notifier-callers'), set(roots) <= {'Story::continue_internal', 'Story::set_variable'},
               'notify_variable_changed is called only from continue_internal and set_variable',
               'notify_variable_changed is also called from %s' % sorted(set(roots) - {'Story::continue_internal', 'Story::set_variable'}),
               None)
    if calls:
        nb, nt = calls[0]
        heads = g.loops_heads()
        loop = None
        for h, tails in heads.items():
            body = g.loop_body(h, tails)
            if nb in body and (loop is None or len(body) < len(loop)):
                loop = body
        in_loop = loop is not None or call_origin[nb][3]
        # the loop iterates the map returned by complete_variable_observation
        og, ob, ot, _ad = call_origin[nb]
        name_prov = tr.prov(ci, nt['args'][1]) if og is ci else _full_lineage(prog, og, ot['args'][1])
        name_prov = set(name_prov) | {('call:' + a[4:]) for a in name_prov if a.startswith('via:')}
        from_map = 'call:VariablesState::complete_variable_observation' in name_prov
        chk.decide(RA, chk.key(RA, 'loop-over-result'), in_loop and from_map,
                   'the notification loop iterates the map returned by complete_variable_observation',
                   'notify_variable_changed is not driven by a loop over the result of complete_variable_observation '
                   '(in loop: %s, name derives from the result: %s)' % (in_loop, from_map), ci.loc(nb))
    dyn = [(bb, t) for g_ in prog.with_closures(nvc) for bb, t in g_.calls()
           if is_dyn_call(t) and callee_short(t).endswith('VariableObserver::changed')]
    chk.decide(RA, chk.key(RA, 'one-dyn-call'), len(dyn) == 1, 'one dyn call site VariableObserver::changed',
               'notify_variable_changed has %d dyn call sites of VariableObserver::changed' % len(dyn), nvc.loc(0))

    # ---- (b)
    comp = [bb for bb, t in ci.calls() if callee_short(t) == 'VariablesState::complete_variable_observation']
    dec = [bb for bb, si, s in ci.stmts() if s['k'] == 'assign' and field_leaf(s['pl']) == 'recursive_continue_count'
           and _arith_kind(ci, s) == 'dec']
    restore = [bb for bb, t in ci.calls() if callee_short(t) == 'Story::restore_state_snapshot']
    for bb, t in calls:
        og, ob, ot, _ad = call_origin[bb]
        nprov = tr.prov(ci, t['args'][1]) if og is ci else _full_lineage(prog, og, ot['args'][1])
        nprov = set(nprov) | {('call:' + a[4:]) for a in nprov if a.startswith('via:')}
        chk.decide(RB, chk.key(RB, 'after-completion'), 'call:VariablesState::complete_variable_observation' in nprov
                   and bool(comp), 'the notified names/values are the ones produced by complete_variable_observation',
                   'notifications are not fed by complete_variable_observation', ci.loc(bb))
        chk.decide(RB, chk.key(RB, 'after-decrement'), bool(dec) and all(g.dominates(d, bb) for d in dec),
                   'notification is dominated by the decrement of recursive_continue_count',
                   'observers can be notified before the continue has left its bookkeeping (count not yet decremented): '
                   'ink run from the observer would be treated as nested', ci.loc(bb))
        # snapshot handling precedes: the restore call cannot be reached after the notification
        late = [r for r in restore if r in g.reachable([bb])]
        chk.decide(RB, chk.key(RB, 'after-rewind'), not late,
                   'no look-ahead rewind can follow a notification',
                   'a look-ahead rewind (restore_state_snapshot) can run after observers were notified: they would have '
                   'seen a value that is then rolled back', ci.loc(bb))
    # values from global_variables
    reads_globals = False
    for g_ in prog.with_closures(cvo):
        for bb, t in g_.calls():
            if callee_short(t) in ('HashMap::get', 'HashMap::get_mut', 'HashMap::get_key_value') and t['args']:
                at = tr.prov(g_, t['args'][0])
                if 'field:VariablesState::global_variables' in at or any(
                        a.startswith('upvar:') and 'global_variables' in a for a in at) or (
                        g_.parent and 'closure_env' in at and any('global' in a for a in at)):
                    reads_globals = True
    chk.decide(RB, chk.key(RB, 'values-from-globals'), reads_globals,
               'values are read from global_variables at completion time',
               'complete_variable_observation no longer reads the committed values from global_variables', cvo.loc(0))

    # ---- (c)
    sg = prog.fn('VariablesState::set_global')
    ap = prog.fn('VariablesState::apply_patch')
    if chk.anchor(RC, 'VariablesState::set_global', sg) and chk.anchor(RC, 'VariablesState::apply_patch', ap):
        def atom(desc):
            if desc[0] == 'is_some' and 'field:VariablesState::patch' in desc[1]:
                return 'patch'
            if desc == ('field', 'VariablesState::batch_observing_variable_changes'):
                return 'batch'
            return None
        gf = GuardFlow(prog, sg, atom, tracer=tr)
        gf.run()
        ins = [(bb, t) for bb, t in sg.calls() if callee_short(t) == 'HashSet::insert'
               and 'field:VariablesState::changed_variables_for_batch_obs' in tr.prov(sg, t['args'][0])]
        pat = [(bb, t) for bb, t in sg.calls() if callee_short(t) == 'StatePatch::add_changed_variable']
        if chk.anchor(RC, 'insert into changed_variables_for_batch_obs in set_global', ins) and \
                chk.anchor(RC, 'StatePatch::add_changed_variable in set_global', pat):
            for bb, t in ins:
                vs = gf.valuations_at(bb, ['patch', 'batch'])
                chk.decide(RC, chk.key(RC, 'batch-insert-only-without-patch'),
                           bool(vs) and all(v['patch'] is False and v['batch'] is True for v in vs),
                           'the batch set is written only with no patch active and while batch observing',
                           'set_global records a look-ahead change directly in changed_variables_for_batch_obs '
                           '(valuations %s): a change made only in discarded look-ahead would be reported' % vs,
                           sg.loc(bb))
            for bb, t in pat:
                vs = gf.valuations_at(bb, ['patch', 'batch'])
                chk.decide(RC, chk.key(RC, 'patch-records-lookahead-change'),
                           bool(vs) and all(v['patch'] is True and v['batch'] is True for v in vs),
                           'with a patch active the change is recorded in the patch',
                           'the patch records changed variables under %s' % vs, sg.loc(bb))
            # return true only when not batch observing
            gsg = cfg(sg)
            okret = True
            for r in gsg.returns:
                pass
        _lt11 = Tracer(prog, transparent=lambda cs: True, use_summaries=False)
        merged = any(callee_short(t).rsplit('::', 1)[-1] in ('insert', 'extend', 'extend_from_slice', 'union', 'append')
                     and len(t['args']) > 1
                     and 'field:VariablesState::changed_variables_for_batch_obs' in (
                         tr.prov(g_, t['args'][0]) | full_lineage(prog, g_, t['args'][0], _lt=_lt11))
                     and ('field:StatePatch::changed_variables' in full_lineage(prog, g_, t['args'][1], _lt=_lt11))
                     for g_ in prog.with_closures(ap) for bb, t in g_.calls())
        chk.decide(RC, chk.key(RC, 'apply_patch-merges'), merged,
                   'apply_patch inserts patch.changed_variables into the batch set',
                   'apply_patch no longer merges the look-ahead\'s changed variables into the batch set: a committed '
                   'change made after a line end would never be reported', ap.loc(0))
    sv = prog.fn('Story::set_variable')
    if chk.anchor(RC, 'Story::set_variable', sv):
        def atom2(desc):
            if desc[0] == 'call' and desc[1] == 'VariablesState::set':
                return 'notify'
            return None
        # the notify call must be guarded by the bool returned from VariablesState::set
        nb2 = [bb for bb, t in sv.calls() if callee_short(t) == 'Story::notify_variable_changed']
        from analysis.guards import resolve_cond
        guarded = False
        gs = cfg(sv)
        for b in range(len(sv.blocks)):
            tt = sv.blocks[b]['term']
            if tt and tt['k'] == 'switch' and tt.get('dty') == 'bool':
                at = tr.prov(sv, tt['d'])
                if any('VariablesState::set' in a for a in at) and nb2 and all(gs.dominates(b, x) for x in nb2):
                    guarded = True
        chk.decide(RC, chk.key(RC, 'set_variable-notifies-iff-changed'), bool(nb2) and guarded,
                   'set_variable notifies exactly when VariablesState::set reports a change outside batch observing',
                   'set_variable no longer notifies conditionally on the result of VariablesState::set', sv.loc(0))

    # ---- (d)
    wr = direct_writers(prog, 'variable_observers', eff)
    allowed = {'Story::new', 'Story::observe_variable', 'Story::remove_variable_observer'}
    extra = sorted(set(wr) - allowed)
    chk.decide(RD, chk.key(RD, 'who-may-write'), not extra and len(wr) >= 3,
               'written only by %s' % sorted(wr), 'Story::variable_observers is written by %s: registrations would not '
               'survive reset / load' % extra, wr[extra[0]] if extra else None)
    rvo = prog.fn('Story::remove_variable_observer')
    if chk.anchor(RD, 'Story::remove_variable_observer', rvo):
        bad = []
        for gfn in prog.with_closures(rvo):
            for s in sites(prog, gfn):
                if not guard_dominated(prog, gfn, s, tr):
                    bad.append((s['kind'], gfn.loc(s['bb'])))
        chk.decide(RD, chk.key(RD, 'remove-never-panics'), not bad, 'no unguarded panic site',
                   'remove_variable_observer has unguarded panic site(s) %s' % bad, bad[0][1] if bad else None)

    # ---- a removal / registration visits every list it means to
    RG = 'C11.no-effects-under-short-circuit'
    chk.rule(RG, 'In observe_variable, remove_variable_observer and notify_variable_changed no closure that changes a '
             'collection (retain / remove / push / insert / clear ...) or calls an observer is handed to a '
             'short-circuiting iterator adaptor (any, all, find, find_map, position, take_while, skip_while, '
             'try_for_each, try_fold): the adaptor stops at the first hit, so "remove from all variables" would stop at '
             'the first variable the observer was registered for, and which one that is depends on hash order.')
    SHORT = ('any', 'all', 'find', 'find_map', 'position', 'rposition', 'take_while', 'skip_while', 'map_while',
             'try_for_each', 'try_fold')
    MUT = ('retain', 'retain_mut', 'remove', 'swap_remove', 'push', 'insert', 'clear', 'drain', 'truncate', 'pop',
           'extend', 'append', 'dedup')
    n_ad = 0
    for nm_ in ('Story::observe_variable', 'Story::remove_variable_observer', 'Story::notify_variable_changed'):
        f_ = prog.fn(nm_)
        if not chk.anchor(RG, nm_, f_):
            continue
        for g_ in prog.with_closures(f_):
            for bb, t in g_.calls():
                ad = callee_short(t).rsplit('::', 1)[-1]
                cls = [prog.fns[c] for c in (t['f'].get('closures') or []) if c in prog.fns]
                # a closure stored in a local first (`let remove_from = |v| ..; it.any(remove_from)`)
                for a in t['args'][1:]:
                    if a.get('k') in ('copy', 'move'):
                        ty = g_.local_ty(a['pl']['l']) if 'p' not in a['pl'] else ''
                        for c in prog.closures_of(f_):
                            if c.p in ty and c not in cls:
                                cls.append(c)
                if not cls:
                    continue
                n_ad += 1
                if ad not in SHORT:
                    continue
                for c in cls:
                    eff_calls = [callee_short(t2) for c2 in [c] + prog.closures_of(c) for _, t2 in c2.calls()
                                 if callee_short(t2).rsplit('::', 1)[-1] in MUT or is_dyn_call(t2)]
                    chk.decide(RG, chk.key(RG, nm_, ad, c.short.rsplit('::', 1)[-1]), not eff_calls,
                               'the closure handed to %s() only reads' % ad,
                               '%s hands a closure that changes state (%s) to the short-circuiting adaptor %s(): it stops '
                               'at the first element for which the closure answers, the remaining lists are never '
                               'visited' % (nm_, ', '.join(sorted(set(eff_calls))[:3]), ad), g_.loc(bb))
    chk.floor(RG, 'iterator adaptors with closures in the observer functions', n_ad, 2)

    # ---- the batch is closed whenever a line completes
    closing_action_controllers(chk, prog, tr, 'C11.batch-closed-whenever-opened')

    closed_batch_is_delivered(chk, prog, tr, ci)

    RE = 'C11.batch-opened-once-per-continue'
    chk.rule(RE, 'In continue_internal start_variable_observation (which empties the set of changed names) runs only when '
             'async_continue_active was false at entry, i.e. when a continue starts - not when a time-limited continue is '
             'resumed: names recorded by earlier slices would be wiped and their observers never told.')
    if ci is not None:
        from rules.c08 import entry_async_flow
        gfa = entry_async_flow(prog, tr, ci)
        sites_ = [bb for bb, t in ci.calls() if callee_short(t) == 'VariablesState::start_variable_observation']
        if chk.anchor(RE, 'start_variable_observation in continue_internal', sites_):
            for i, bb in enumerate(sites_):
                vs = gfa.valuations_at(bb, ['entry:async'])
                chk.decide(RE, chk.key(RE, 'site', '#%d' % i), bool(vs) and all(v['entry:async'] is False for v in vs),
                           'reached only when no time-limited continue is in progress',
                           'start_variable_observation is reachable while a time-limited continue is being resumed (entry '
                           'valuations %s): the names changed in earlier slices of the same continue are forgotten' % vs,
                           ci.loc(bb))


def closing_action_controllers(chk, prog, tr, RF):
    """Shared by C11 and C08: what decides whether complete_variable_observation runs."""
    from analysis.guards import resolve_cond as _rc
    from analysis.defuse import du as _du
    from analysis.wbf import err_exits as _ee
    chk.rule(RF, 'complete_variable_observation is the only place that leaves batch mode (VariablesState keeps recording '
             'host assignments silently until then) and the place the changes of a line are collected for the observers. '
             'What decides whether it runs in continue_internal is nothing but (a) the refusal at entry (a test one side of '
             'which only leads to an error return), (b) the test that the line is complete and (c) the outermost-continue '
             'test on recursive_continue_count. In particular it does not depend - directly or through a flag set earlier '
             'in the same call - on whether THIS call started the line: a time-limited continue finishes a line in a later '
             'call than the one that started it.')
    ci = prog.fn('Story::continue_internal')
    if not chk.anchor(RF, 'Story::continue_internal', ci):
        return
    gci = cfg(ci)
    d = _du(ci)
    errs = {b for b, d_, s_ in _ee(prog, ci)}
    # (`helper()?` on a spliced helper is not an error exit of its own for write-before-fail, but the path dies there)
    errs |= {bb for bb, t in ci.calls() if callee_short(t).endswith('::from_residual') and t['dest'].get('l') == 0
             and 'p' not in t['dest']}
    # return blocks reached only through an error exit: control dependence is computed over the successful runs
    err_returns = set(errs)        # the blocks that produce an Err result are dead ends for this purpose
    comp = [bb for bb, t in ci.calls() if callee_short(t) == 'VariablesState::complete_variable_observation']
    if not chk.anchor(RF, 'complete_variable_observation in continue_internal', comp):
        return

    def refusal_type(b):
        """one side of the branch reaches error returns only"""
        tt = ci.blocks[b]['term']
        for x in [tb for _, tb in tt['ts']] + [tt['else']]:
            r = gci.reachable([x], avoid=[b])
            rets = [y for y in r if y in gci.returns]
            if rets and all(y in errs or any(e in gci.reachable([x], avoid=[b]) and gci.dominates(e, y) for e in errs)
                            for y in rets):
                return True
        return False
    for i, cb in enumerate(comp):
        seen_, work_, ctrl = set(), [cb], []
        via_flag = {}
        while work_:
            c_ = work_.pop()
            for b in gci.controllers(c_, exclude_exits=err_returns):
                if b not in seen_:
                    seen_.add(b)
                    ctrl.append(b)
                    work_.append(b)
                    # a flag tested here: whatever decided its `true` assignments decides this branch too
                    tt = ci.blocks[b]['term']
                    if tt and tt['k'] == 'switch' and tt['d'].get('k') in ('copy', 'move') and 'p' not in tt['d']['pl']:
                        lin, w2 = set(), [tt['d']['pl']['l']]
                        while w2:
                            y = w2.pop()
                            if y in lin:
                                continue
                            lin.add(y)
                            for df in d.defs.get(y, []):
                                if df['kind'] == 'assign' and df['rv']['k'] == 'use':
                                    o = df['rv']['op']
                                    if o.get('k') in ('copy', 'move') and 'p' not in o['pl']:
                                        w2.append(o['pl']['l'])
                                    elif o.get('k') == 'const' and o.get('bool') is True and len(d.defs.get(y, [])) > 1:
                                        work_.append(df['bb'])
                                        via_flag[df['bb']] = b
        foreign = []
        for b in sorted(ctrl):
            tt = ci.blocks[b]['term']
            if not tt or tt['k'] != 'switch':
                continue
            c_ = _rc(prog, ci, tt['d'], tr)
            at = tr.prov(ci, tt['d']) if tt['d'].get('k') in ('copy', 'move') else set()
            ok_ = False
            if c_ is not None:
                d_ = c_.desc
                ok_ = (d_[0] == 'call' and d_[1] == 'Story::can_continue') or \
                    (d_[0] in ('cmp', 'cmp2') and any('field:Story::recursive_continue_count' in x
                                                        for x in d_[2:] if isinstance(x, frozenset))) or \
                    (d_[0] == 'is_ok' and any('Story::continue_single_step' in a for a in d_[1]))
            if not ok_ and at and 'field:Story::recursive_continue_count' in at:
                # `match self.recursive_continue_count { 1 => .., _ => .. }` switches on the field itself
                ok_ = all(a in ('arg:1', 'field:Story::recursive_continue_count') or a.startswith(('via:', 'op:'))
                          for a in at)
            if not ok_:
                ok_ = bool(at) and all(a.startswith('const:') or 'Story::continue_single_step' in a
                                       or 'Story::can_continue' in a or a.startswith(('field:Result', 'field:Option',
                                                                                        'op:', 'via:'))
                                       for a in at)
            if not ok_:
                foreign.append((ci.loc(b), c_.desc if c_ is not None else sorted(at)[:3]))
        chk.decide(RF, chk.key(RF, 'site', '#%d' % i), not foreign,
                   'controlled only by the refusal, the completion test and the outermost-continue test '
                   '(%d controlling branches)' % len(ctrl),
                   'whether complete_variable_observation runs also depends on %s: when that condition is false a '
                   'completed line leaves VariablesState in batch mode - its observers are told nothing, and a later '
                   'set_variable from the host is recorded silently' % ((foreign[0][1] if foreign else ''),),
                   foreign[0][0] if foreign else ci.loc(cb))


def closed_batch_is_delivered(chk, prog, tr, ci):
    """Found by a seed-writing sub-agent in passing (batch 13): the no-handler error exit sat between close and delivery."""
    R = 'C11.closed-batch-is-delivered'
    chk.rule(R, 'complete_variable_observation closes the batch and hands over the changed names - after it they exist nowhere '
             'else. So in continue_internal every path from that call to a return, the error returns included, passes the '
             'start of a delivery loop (an iteration over the value it returned) - otherwise the changes a continue committed '
             'are never reported to their observers when the call ends in Err (no error handler installed).')
    if ci is None:
        return
    from analysis.defuse import full_lineage
    g = cfg(ci)
    closes = [bb for bb, t in ci.calls() if callee_short(t) == 'VariablesState::complete_variable_observation']
    if not chk.anchor(R, 'complete_variable_observation in continue_internal', closes):
        return
    starts = []
    for bb, t in ci.calls():
        nm = callee_short(t).rsplit('::', 1)[-1]
        if nm in ('into_iter', 'iter', 'drain', 'for_each', 'into_keys', 'into_values', 'keys') and t['args']:
            at = full_lineage(prog, ci, t['args'][0])
            if any('complete_variable_observation' in a for a in at):
                starts.append(bb)
    if not chk.anchor(R, 'a delivery loop over the names handed over by complete_variable_observation', starts):
        return
    # `if let Some(changed) = handed_over { for .. }`: the test of the Option that holds the names is the entry of the
    # delivery (its None side is the case in which nothing was closed by this call)
    for bb, si, st in ci.stmts():
        if st['k'] == 'assign' and st['rv']['k'] == 'discr' and any(
                'complete_variable_observation' in a for a in tr.prov_place(ci, st['rv']['pl'])):
            if any(g.path([bb], lambda b, s_=s_: b == s_) for s_ in starts):
                starts.append(bb)
    for i, cb in enumerate(closes):
        w = g.path(g.succ[cb], lambda b: b in g.returns, avoid=starts)
        chk.decide(R, chk.key(R, 'continue_internal', 'close#%d' % i), w is None,
                   'every path from the close of the batch to a return starts a delivery loop',
                   'continue_internal can return after complete_variable_observation has closed the batch without delivering '
                   'the changed names (a return between the close and the notification loop - the error exit taken when no '
                   'error handler is installed): variables this continue committed are never reported to their observers',
                   ci.loc(w[-1]) if w else ci.loc(cb), {'witness_blocks': w})
