#!/bin/bash
# seeds_status_parallel.sh [jobs] — like seeds_status.sh, but on scratch copies (never touches /repo) and <jobs> at a time.
# For every stored seeded change: does the patch apply to the current tree and does the check of the property it breaks report it?
J=${1:-6}
cd /verif
ls -d seeded/*/ | xargs -P $J -I{} bash -c 'd={}; id=$(basename $d); P=${id%%-*}; slot=$((40 + $(echo $id | cksum | cut -d" " -f1) % '$J')); out=$(flock /tmp/seedslot-$slot.lock python3 engine/scratch_verdict.py $d/patch.diff $P --slot $slot 2>&1); n=$(echo "$out" | grep -c " NEW "); if echo "$out" | grep -q "DOES NOT APPLY"; then echo "$id: PATCH NO LONGER APPLIES"; elif echo "$out" | grep -q "DOES NOT COMPILE"; then echo "$id: PATCH NO LONGER COMPILES"; elif [ $n -gt 0 ]; then echo "$id: CAUGHT $(echo "$out" | grep " NEW " | head -1 | cut -d" " -f3 | cut -c1-110)"; else echo "$id: MISSED"; fi' | sort
