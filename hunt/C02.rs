//! C02 "saving and loading a game preserves all future behaviour": one test per
//! defect found. Every test plays a story for a few lines, saves, keeps playing
//! the original to the end, then loads the save into a freshly constructed
//! story of the same program and plays that to the end as well. The two
//! futures must be the same. All tests FAIL on the unchanged code.
//!
//! Run: CARGO_TARGET_DIR=/tmp/wh-C02/target cargo test --offline -p conformance-tests --test hunt
//! (the exploration harness that found these is kept in /tmp/hunt-C02-explore.rs)

use bladeink::story::Story;
use bladeink_compiler::Compiler;

/// Lines (and choice texts) produced from the current point to the end; the
/// first choice is always taken. Bounded so a broken story cannot hang.
fn future(story: &mut Story) -> Vec<String> {
    let mut out = Vec::new();
    for _ in 0..100 {
        if story.can_continue() {
            match story.cont() {
                Ok(line) => out.push(line),
                Err(e) => {
                    out.push(format!("ERROR {e:?}"));
                    break;
                }
            }
        } else if !story.get_current_choices().is_empty() {
            out.push(format!("CHOICE {}", story.get_current_choices()[0].text));
            story.choose_choice_index(0).unwrap();
        } else {
            break;
        }
    }
    out
}

/// Continue `lines_before_save` times, save, and return
/// (future of the original, future of a fresh story that loaded the save).
fn original_and_restored_future(ink: &str, lines_before_save: usize) -> (Vec<String>, Vec<String>) {
    let json = Compiler::new().compile(ink).unwrap();

    let mut original = Story::new(&json).unwrap();
    for _ in 0..lines_before_save {
        original.cont().unwrap();
    }
    let saved = original.save_state().unwrap();
    let original_future = future(&mut original);

    let mut restored = Story::new(&json).unwrap();
    if let Err(e) = restored.load_state(&saved) {
        panic!("the save could not be loaded: {e:?}\nsave text: {saved}");
    }
    let restored_future = future(&mut restored);

    (original_future, restored_future)
}

/// 1. A float variable that overflowed to infinity is written as JSON `null`
///    (`json!(f32::INFINITY)`), and `load_state` then rejects the whole save:
///    BadJson("Failed to convert token to runtime RTObject: null").
#[test]
fn save_with_infinite_float_cannot_be_loaded() {
    let ink = r#"
VAR f = 0.0
~ f = POW(10.0, 40.0)
{f}
end
"#;
    let (original, restored) = original_and_restored_future(ink, 1);
    assert_eq!(original, restored);
}

/// 2. A list that sits on the evaluation stack while a function prints several
///    lines (`x + f()`) is restored without its origin definitions, because
///    "evalStack" is loaded with jarray_to_runtime_obj_list and never goes
///    through push_evaluation_stack. `list + int` then finds no origin and
///    yields the empty list: original prints "twob", restored prints "two".
#[test]
fn list_on_evaluation_stack_loses_origins() {
    let ink = r#"
LIST L = a, b, c
VAR x = a
{x + f()}
end
== function f
one
two
~ return 1
"#;
    let (original, restored) = original_and_restored_future(ink, 1);
    assert_eq!(original, restored);
}

/// 3. Globals equal to their default are not written, and two lists are "equal"
///    when they have the same items. An empty list that has acquired origins
///    (here B, after `x -= b1`) is therefore dropped from the save when the
///    default is `()`, and comes back as the origin-less default:
///    original prints "b1, b2", restored prints an empty line.
#[test]
fn empty_list_equal_to_default_loses_origins() {
    let ink = r#"
LIST B = b1, b2
VAR x = ()
~ x = (b1)
~ x -= b1
one
{LIST_ALL(x)}
end
"#;
    let (original, restored) = original_and_restored_future(ink, 1);
    assert_eq!(original, restored);
}

/// 4. For an empty list write_ink_list() also writes the names found in the
///    list's resolved-origins cache. After `x = A` (A empty) the value keeps the
///    origin names of the old value (B) but still carries the stale cache [A],
///    so the save says "origins":["B","A"]. The running story only ever uses
///    the names: original prints "two b1, b2", restored "two a1, b1, b2".
#[test]
fn empty_list_save_adds_stale_origin() {
    let ink = r#"
LIST A = a1
LIST B = b1, (b2)
VAR x = (b2)
~ x = A
one
two {LIST_ALL(x)}
end
"#;
    let (original, restored) = original_and_restored_future(ink, 1);
    assert_eq!(original, restored);
}

/// 5. `function_start_in_output_stream` of a call-stack element is not saved and
///    a loaded element gets 0 instead of the -1 it had ("leading whitespace of
///    the function already trimmed"). After a load made inside a function the
///    engine is again in trim-the-function-start mode and swallows a newline:
///    original gives "A", "" (blank line), "B"; restored gives "A", "B".
#[test]
fn whitespace_line_inside_function_dropped_after_load() {
    let ink = r#"
{f()}
end
== function f
A
{" "}
B
"#;
    let (original, restored) = original_and_restored_future(ink, 1);
    assert_eq!(original, restored);
}

/// 6. A variable the save *does* contain is ignored by load: `t` is a temp whose
///    declaration was skipped; passing it by reference makes the runtime store
///    it as a global. write_json emits "variablesState":{"t":1}, but load_json
///    only walks the declared globals. Original prints "two 1", restored "two 0".
#[test]
fn saved_variable_not_declared_as_global_is_dropped_on_load() {
    let ink = r#"
VAR skip = true
{not skip:
  ~ temp t = 5
}
~ bump(t)
one {t}
two {t}
end
== function bump(ref r)
~ r = r + 1
"#;
    let (original, restored) = original_and_restored_future(ink, 1);
    assert_eq!(original, restored);
}
