#![allow(dead_code)]
use std::panic::{AssertUnwindSafe, catch_unwind};

use bladeink::story::Story;
use bladeink_compiler::Compiler;

#[derive(Debug)]
enum Outcome {
    CompileError(String),
    CompilePanic,
    NewErr(String),
    Played { text: String, errs: Vec<String> },
    Panic(String),
}

fn panic_msg(e: Box<dyn std::any::Any + Send>) -> String {
    if let Some(s) = e.downcast_ref::<String>() {
        s.clone()
    } else if let Some(s) = e.downcast_ref::<&str>() {
        s.to_string()
    } else {
        "<?>".to_string()
    }
}

fn play(ink: &str, save_load: bool) -> Outcome {
    let json = match catch_unwind(|| Compiler::new().compile(ink)) {
        Ok(Ok(j)) => j,
        Ok(Err(e)) => return Outcome::CompileError(format!("{e:?}")),
        Err(_) => return Outcome::CompilePanic,
    };
    let r = catch_unwind(AssertUnwindSafe(|| {
        let mut story = match Story::new(&json) {
            Ok(s) => s,
            Err(e) => return Outcome::NewErr(e.to_string()),
        };
        let mut text = String::new();
        let mut errs = vec![];
        let mut steps = 0;
        loop {
            steps += 1;
            if steps > 200 {
                break;
            }
            if story.can_continue() {
                match story.cont() {
                    Ok(t) => text.push_str(&t),
                    Err(e) => {
                        errs.push(e.to_string());
                        break;
                    }
                }
                if save_load {
                    let s = story.save_state().unwrap();
                    story.load_state(&s).unwrap();
                }
            } else {
                let n = story.get_current_choices().len();
                if n == 0 {
                    break;
                }
                if let Err(e) = story.choose_choice_index(steps % n) {
                    errs.push(e.to_string());
                    break;
                }
            }
        }
        Outcome::Played { text, errs }
    }));
    match r {
        Ok(o) => o,
        Err(e) => Outcome::Panic(panic_msg(e)),
    }
}

#[test]
fn explore() {
    let dir = std::env::var("HUNT_DIR").unwrap_or("/tmp/hunt-cases".to_string());
    let mut entries: Vec<_> = std::fs::read_dir(&dir)
        .unwrap()
        .map(|e| e.unwrap().path())
        .collect();
    entries.sort();
    for p in entries {
        let ink = std::fs::read_to_string(&p).unwrap();
        for sl in [false, true] {
            let o = play(&ink, sl);
            println!("=== {} save_load={sl}: {:?}", p.display(), o);
        }
    }
}

#[test]
fn dump() {
    let Ok(f) = std::env::var("HUNT_FILE") else { return };
    let ink = std::fs::read_to_string(&f).unwrap();
    println!("{}", Compiler::new().compile(&ink).unwrap());
}

use bladeink::value_type::ValueType;
use rand::{RngExt, SeedableRng, rngs::StdRng};

fn collect_inks(dir: &std::path::Path, out: &mut Vec<std::path::PathBuf>) {
    for e in std::fs::read_dir(dir).unwrap() {
        let p = e.unwrap().path();
        if p.is_dir() {
            collect_inks(&p, out);
        } else if p.extension().is_some_and(|x| x == "ink") {
            out.push(p);
        }
    }
}

fn names_in(ink: &str) -> (Vec<String>, Vec<String>) {
    let mut paths = vec![];
    let mut vars = vec![];
    let mut knot = String::new();
    for l in ink.lines() {
        let t = l.trim();
        if let Some(r) = t.strip_prefix("==") {
            let r = r.trim_start_matches('=').trim();
            let r = r.strip_prefix("function").unwrap_or(r).trim();
            let n: String = r.chars().take_while(|c| c.is_alphanumeric() || *c == '_').collect();
            if !n.is_empty() {
                knot = n.clone();
                paths.push(n);
            }
        } else if let Some(r) = t.strip_prefix("=") {
            let n: String = r.trim().chars().take_while(|c| c.is_alphanumeric() || *c == '_').collect();
            if !n.is_empty() && !knot.is_empty() {
                paths.push(format!("{knot}.{n}"));
            }
        } else if let Some(r) = t.strip_prefix("VAR ") {
            let n: String = r.trim().chars().take_while(|c| c.is_alphanumeric() || *c == '_').collect();
            vars.push(n);
        }
    }
    (paths, vars)
}

fn fuzz_one(json: &str, paths: &[String], vars: &[String], seed: u64, wild: bool) -> Result<(), (String, Vec<String>)> {
    let mut trace: Vec<String> = vec![];
    let tr = std::cell::RefCell::new(&mut trace);
    let r = catch_unwind(AssertUnwindSafe(|| {
        let mut rng = StdRng::seed_from_u64(seed);
        let Ok(mut story) = Story::new(json) else { return };
        let mut saves: Vec<String> = vec![];
        let flows = ["default", "a", "b"];
        for _ in 0..80 {
            let op = rng.random_range(0..20);
            let mut log = |s: String| { if std::env::var("HUNT_VERBOSE").is_ok() { println!("  op: {s}"); } tr.borrow_mut().push(s) };
            match op {
                0..=5 => {
                    log("cont".into());
                    if story.can_continue() {
                        let _ = story.cont();
                    }
                }
                6 | 7 => {
                    let n = story.get_current_choices().len();
                    let i = if n > 0 { rng.random_range(0..n + 1) } else { 0 };
                    log(format!("choose {i}/{n}"));
                    let _ = story.choose_choice_index(i);
                }
                8 => {
                    log("save".into());
                    if let Ok(s) = story.save_state() {
                        saves.push(s);
                    }
                }
                9 => {
                    if !saves.is_empty() {
                        let i = rng.random_range(0..saves.len());
                        log(format!("load {i}"));
                        let _ = story.load_state(&saves[i]);
                    }
                }
                10 => {
                    let f = flows[rng.random_range(0..3)];
                    log(format!("switch_flow {f}"));
                    let _ = story.switch_flow(f);
                }
                11 => {
                    let f = flows[rng.random_range(0..3)];
                    log(format!("remove_flow {f}"));
                    let _ = story.remove_flow(f);
                }
                12 | 13 => {
                    if !paths.is_empty() {
                        let mut p = paths[rng.random_range(0..paths.len())].clone();
                        if wild {
                            match rng.random_range(0..4) {
                                0 => p.push_str(".0"),
                                1 => p.push_str(".7"),
                                2 => p = format!("{}", rng.random_range(0..3)),
                                _ => {}
                            }
                        }
                        let reset = rng.random_bool(0.5);
                        log(format!("choose_path_string {p} {reset}"));
                        let _ = story.choose_path_string(&p, reset, None);
                    }
                }
                14 => {
                    if !paths.is_empty() {
                        let p = &paths[rng.random_range(0..paths.len())];
                        if !p.contains('.') {
                            log(format!("evaluate_function {p}"));
                            let mut out = String::new();
                            let args = vec![ValueType::Int(1), ValueType::Int(2)];
                            let a = if rng.random_bool(0.5) { Some(&args) } else { None };
                            let _ = story.evaluate_function(p, a, &mut out);
                        }
                    }
                }
                15 => {
                    log("reset_state".into());
                    let _ = story.reset_state();
                }
                16 => {
                    log("continue_async".into());
                    if story.can_continue() {
                        let _ = story.continue_async(0.0001);
                    }
                }
                17 => {
                    log("tags/text".into());
                    let _ = story.get_current_tags();
                    let _ = story.get_current_text();
                    let _ = story.get_global_tags();
                    let _ = story.get_current_path();
                    if !paths.is_empty() {
                        let p = &paths[rng.random_range(0..paths.len())];
                        let _ = story.tags_for_content_at_path(p);
                        let _ = story.get_visit_count_at_path_string(p);
                    }
                }
                18 => {
                    if !vars.is_empty() {
                        let v = &vars[rng.random_range(0..vars.len())];
                        log(format!("set_variable {v}"));
                        let val = match rng.random_range(0..4) {
                            0 => ValueType::Int(i32::MAX),
                            1 => ValueType::Float(1.5),
                            2 => ValueType::new::<&str>("str"),
                            _ => ValueType::Bool(true),
                        };
                        let _ = story.set_variable(v, &val);
                        let _ = story.get_variable(v);
                    }
                }
                _ => {
                    log("continue_maximally".into());
                    let mut n = 0;
                    while story.can_continue() && n < 50 {
                        n += 1;
                        if story.cont().is_err() {
                            break;
                        }
                    }
                }
            }
        }
    }));
    match r {
        Ok(()) => Ok(()),
        Err(e) => Err((panic_msg(e), trace)),
    }
}

static CURRENT: std::sync::Mutex<(String, Option<std::time::Instant>)> = std::sync::Mutex::new((String::new(), None));

#[test]
fn fuzz_hosts() {
    let wild = std::env::var("HUNT_WILD").is_ok();
    let seeds: u64 = std::env::var("HUNT_SEEDS").ok().and_then(|s| s.parse().ok()).unwrap_or(30);
    let dir = std::env::var("HUNT_CORPUS").unwrap_or(format!("{}/inkfiles", env!("CARGO_MANIFEST_DIR")));
    let mut inks = vec![];
    collect_inks(std::path::Path::new(&dir), &mut inks);
    inks.sort();
    std::panic::set_hook(Box::new(|_| {}));
    let skip: Vec<String> = std::env::var("HUNT_SKIP").map(|s| s.split(',').filter(|x| !x.is_empty()).map(|x| x.to_string()).collect()).unwrap_or_default();
    std::thread::spawn(|| loop {
        std::thread::sleep(std::time::Duration::from_secs(1));
        let g = CURRENT.lock().unwrap();
        if g.1.is_some_and(|t| t.elapsed().as_secs() > 10) {
            println!("HANG {}", g.0);
            std::process::exit(3);
        }
    });
    let first_seed: u64 = std::env::var("HUNT_FIRST").ok().and_then(|s| s.parse().ok()).unwrap_or(0);
    let mut seen = std::collections::HashSet::new();
    for p in inks {
        if p.to_string_lossy().contains("/include/") { continue; }
        let ink = std::fs::read_to_string(&p).unwrap();
        let Ok(Ok(json)) = catch_unwind(|| Compiler::new().compile(&ink)) else { continue };
        let (paths, vars) = names_in(&ink);
        for seed in first_seed..seeds {
            if skip.iter().any(|s| p.to_string_lossy().contains(s.as_str())) { continue; }
            *CURRENT.lock().unwrap() = (format!("{} seed={seed}", p.display()), Some(std::time::Instant::now()));
            if let Err((msg, trace)) = fuzz_one(&json, &paths, &vars, seed, wild) {
                if seen.insert(msg.clone()) {
                    println!("PANIC {} seed={seed}: {msg}\n   trace: {:?}", p.display(), trace);
                }
            }
        }
    }
}
