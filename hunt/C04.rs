//! C04 hunt: "Story faults are reported as errors; the runtime never panics".
//!
//! One test per finding. Every test FAILS on the unchanged code because of the
//! defect it is named after.
//!
//!   cargo test --offline -p conformance-tests --test hunt
//!
//! (the exploratory harness that found these lives in /tmp/hunt-gen/)

use std::panic::{AssertUnwindSafe, catch_unwind};

use bladeink::story::Story;
use bladeink_compiler::Compiler;

fn compile(ink: &str) -> String {
    Compiler::new()
        .compile(ink)
        .expect("the compiler accepts this program")
}

fn panic_msg(e: Box<dyn std::any::Any + Send>) -> String {
    if let Some(s) = e.downcast_ref::<String>() {
        s.clone()
    } else if let Some(s) = e.downcast_ref::<&str>() {
        s.to_string()
    } else {
        "<non-string panic payload>".to_string()
    }
}

/// Plays a story to the end (always the first choice, bounded number of
/// steps) and returns the transcript and the first error, if any.
fn play_to_end(story: &mut Story) -> (String, Option<String>) {
    let mut text = String::new();
    for _ in 0..200 {
        if story.can_continue() {
            match story.cont() {
                Ok(t) => text.push_str(&t),
                Err(e) => return (text, Some(e.to_string())),
            }
        } else if !story.get_current_choices().is_empty() {
            if let Err(e) = story.choose_choice_index(0) {
                return (text, Some(e.to_string()));
            }
        } else {
            break;
        }
    }
    (text, None)
}

/// Compiles and plays `ink`; a panic anywhere in the runtime is returned as Err.
fn play_catching(ink: &str) -> Result<(String, Option<String>), String> {
    let json = compile(ink);
    catch_unwind(AssertUnwindSafe(|| {
        let mut story = Story::new(&json).expect("story loads");
        play_to_end(&mut story)
    }))
    .map_err(panic_msg)
}

// ---------------------------------------------------------------------------
// 1. A tag produced by a function that is called inside a string (or inside
//    the text of a choice) is pushed on the evaluation stack as a `Tag`
//    object. If it ends up as an operand of a binary operation whose other
//    operand is a list, `NativeFunctionCall::call_binary_list_operation`
//    does `downcast::<Value>().unwrap()` on it.
//    runtime/src/native_function_call.rs:255
// ---------------------------------------------------------------------------
#[test]
fn tag_operand_in_list_operation_panics() {
    let ink = r#"
LIST L = a, b
VAR s = ""
~ s = "{(a) + f()}"
{s}
-> END
=== function f()
# sometag
~ return (b)
"#;
    let r = play_catching(ink);
    assert!(
        r.is_ok(),
        "runtime panicked instead of reporting an error: {}",
        r.unwrap_err()
    );
}

/// Same defect reached through the text of a choice.
#[test]
fn tag_operand_in_list_operation_panics_in_choice_text() {
    let ink = r#"
LIST L = a, b
* [pick {(a) + f()}]
- -> END
=== function f()
# sometag
~ return (b)
"#;
    let r = play_catching(ink);
    assert!(
        r.is_ok(),
        "runtime panicked instead of reporting an error: {}",
        r.unwrap_err()
    );
}

// ---------------------------------------------------------------------------
// 2. `{(): yes|no}` (the empty list literal used as a condition; also
//    `* {()} choice`). The compiler emits a function call with an empty
//    target, {"f()": ""}; `Divert::get_target_pointer` unwraps the last
//    component of the empty path.
//    runtime/src/divert.rs:107
// ---------------------------------------------------------------------------
#[test]
fn empty_list_literal_as_condition_panics() {
    let ink = "{(): yes|no}\n-> END\n";
    let r = play_catching(ink);
    assert!(
        r.is_ok(),
        "runtime panicked instead of reporting an error: {}",
        r.unwrap_err()
    );
}

// ---------------------------------------------------------------------------
// 3. A dotted name that does not lead to a container (`{k.0}`: the first
//    piece of content of knot k, a string) is compiled to a read count
//    {"CNT?": "k.0"}. `VariableReference::get_container_for_count` unwraps
//    `SearchResult::container()`.
//    runtime/src/variable_reference.rs:36 (called from control_logic.rs:690)
// ---------------------------------------------------------------------------
#[test]
fn read_count_of_non_container_path_panics() {
    let ink = "{k.0}\n-> END\n=== k\nhi\n-> DONE\n";
    let r = play_catching(ink);
    assert!(
        r.is_ok(),
        "runtime panicked instead of reporting an error: {}",
        r.unwrap_err()
    );
}

// ---------------------------------------------------------------------------
// 4. A divert target value may carry an index (`-> k.2147483647` is accepted
//    by the compiler as a value, and `choose_path_string("k.2147483647")`
//    is accepted from the host). `increment_content_pointer` does
//    `pointer.index += 1` on the i32 index: debug builds panic with
//    "attempt to add with overflow", release builds wrap to i32::MIN, which
//    `Pointer::resolve` treats as "the container itself", so the knot is
//    played from its start. Any other index past the end of the knot
//    (e.g. 2147483646) reports "ran out of content".
//    runtime/src/story/progress.rs:589
// ---------------------------------------------------------------------------
#[test]
fn divert_to_max_index_overflows_content_pointer() {
    let program = |idx: &str| format!("VAR t = -> k.{idx}\n-> t\n=== k\nhi\n-> DONE\n");
    let reference = play_catching(&program("2147483646"));
    let r = play_catching(&program("2147483647"));
    assert!(
        r.is_ok(),
        "runtime panicked instead of reporting an error: {}",
        r.unwrap_err()
    );
    // Release builds: no panic, but not what every other out-of-range index does.
    assert_eq!(r.unwrap(), reference.unwrap());
}

/// Same defect reached from the host through a path jump.
#[test]
fn path_jump_to_max_index_overflows_content_pointer() {
    let json = compile("-> k\n=== k\nhi\n-> DONE\n");
    let r = catch_unwind(AssertUnwindSafe(|| {
        let mut story = Story::new(&json).unwrap();
        story
            .choose_path_string("k.2147483647", true, None)
            .map_err(|e| e.to_string())?;
        story.cont().map_err(|e| e.to_string())
    }));
    assert!(
        r.is_ok(),
        "runtime panicked: {}",
        panic_msg(r.err().unwrap())
    );
    // every other index past the end gives an error, not the text of the knot
    assert!(r.unwrap().is_err());
}

// ---------------------------------------------------------------------------
// 5. After the story has stepped over a pointer whose index is past the end
//    of its container (`-> t` with `VAR t = -> 0.99`; or the host call
//    `choose_path_string("0.99")`), that pointer is remembered as the
//    previous pointer of the thread. `Thread::write_json` does
//    `previous_pointer.resolve().unwrap()`, so the next `save_state()` panics.
//    runtime/src/callstack.rs:178
// ---------------------------------------------------------------------------
#[test]
fn save_after_divert_past_end_of_container_panics() {
    let ink = "VAR t = -> 0.99\nfirst\n-> t\n";
    let json = compile(ink);
    let r = catch_unwind(AssertUnwindSafe(|| {
        let mut story = Story::new(&json).unwrap();
        let played = play_to_end(&mut story);
        let saved = story.save_state().map(|_| ()).map_err(|e| e.to_string());
        (played, saved)
    }));
    assert!(
        r.is_ok(),
        "save_state panicked: {}",
        panic_msg(r.err().unwrap())
    );
}

/// Same defect reached from the host through a path jump.
#[test]
fn save_after_path_jump_past_end_of_container_panics() {
    let json = compile("hello\n-> END\n");
    let r = catch_unwind(AssertUnwindSafe(|| {
        let mut story = Story::new(&json).unwrap();
        let jumped = story
            .choose_path_string("0.99", true, None)
            .map_err(|e| e.to_string());
        let played = play_to_end(&mut story);
        let saved = story.save_state().map(|_| ()).map_err(|e| e.to_string());
        (jumped, played, saved)
    }));
    assert!(
        r.is_ok(),
        "save_state panicked: {}",
        panic_msg(r.err().unwrap())
    );
}

// ---------------------------------------------------------------------------
// 6. A call whose target does not exist is accepted by the compiler
//    (`{nosuch()}`; also `{CHOICE_COUNT(): a|b}`, `{TURNS(): a|b}`,
//    `* {CHOICE_COUNT()} x`, `~ CHOICE_COUNT()`, and `fn(x)` where fn is a
//    `-> fn` parameter: all compiled to a static {"f()": "<name>"}).
//    `Divert::get_target_pointer` does not report the unresolvable path: the
//    approximate search result is the root container, so the "function"
//    that is called is the whole story, which calls itself again, and so on.
//    `cont()` never returns and the call stack grows (about 30 MB/s in a
//    debug build) until the process is killed. The fault is never reported.
//    runtime/src/divert.rs:96-123 (+ compiler/src/emitter/conditional.rs:9,
//    compiler/src/emitter/expression.rs:392, no check in the validator)
//
//    The story is played in a child process so that the test can fail
//    instead of hanging.
// ---------------------------------------------------------------------------
fn run_in_child_with_timeout(test_name: &str, secs: u64) -> Option<std::process::ExitStatus> {
    let exe = std::env::current_exe().unwrap();
    let mut child = std::process::Command::new(exe)
        .args([test_name, "--exact", "--nocapture", "--test-threads=1"])
        .env("HUNT_CHILD", test_name)
        .stdout(std::process::Stdio::null())
        .stderr(std::process::Stdio::null())
        .spawn()
        .unwrap();
    let start = std::time::Instant::now();
    loop {
        if let Some(status) = child.try_wait().unwrap() {
            return Some(status);
        }
        if start.elapsed().as_secs() >= secs {
            child.kill().unwrap();
            child.wait().unwrap();
            return None;
        }
        std::thread::sleep(std::time::Duration::from_millis(50));
    }
}

fn hang_case(test_name: &str, ink: &str) {
    let json = compile(ink);
    if std::env::var("HUNT_CHILD").as_deref() == Ok(test_name) {
        // child: an Err from cont() is fine, a panic is not, never coming back is not
        let mut story = Story::new(&json).unwrap();
        let _ = play_to_end(&mut story);
        return;
    }
    match run_in_child_with_timeout(test_name, 5) {
        Some(status) => assert!(status.success(), "child failed: {status:?}"),
        None => panic!(
            "cont() did not return within 5 s: the story re-enters its root container forever \
             instead of reporting the unresolvable call target"
        ),
    }
}

#[test]
fn call_to_undefined_function_never_returns() {
    hang_case(
        "call_to_undefined_function_never_returns",
        "{nosuch()}\n-> END\n",
    );
}

#[test]
fn choice_count_as_condition_never_returns() {
    hang_case(
        "choice_count_as_condition_never_returns",
        "{CHOICE_COUNT(): yes|no}\n-> END\n",
    );
}

// ---------------------------------------------------------------------------
// Extra (host call with a path that leads to a non-container):
// `tags_for_content_at_path("k.0")` unwraps `SearchResult::container()`.
// runtime/src/story/tags.rs:34
// ---------------------------------------------------------------------------
#[test]
fn tags_for_content_at_non_container_path_panics() {
    let json = compile("-> k\n=== k\nhi\n-> DONE\n");
    let r = catch_unwind(AssertUnwindSafe(|| {
        let story = Story::new(&json).unwrap();
        story
            .tags_for_content_at_path("k.0")
            .map_err(|e| e.to_string())
    }));
    assert!(
        r.is_ok(),
        "tags_for_content_at_path panicked: {}",
        panic_msg(r.err().unwrap())
    );
}
