// C10 hunt: "Flows are independent except for global variables and counts".
//
// Every test below FAILS on the unchanged code because of the defect it is
// named after.  Run with:
//
//   CARGO_TARGET_DIR=/tmp/wh-C10/target cargo test --offline -p conformance-tests --test hunt
//
use bladeink::{story::Story, value_type::ValueType};
use bladeink_compiler::Compiler;

fn compile(src: &str) -> String {
    Compiler::new()
        .compile(src)
        .unwrap_or_else(|e| panic!("compile error: {e:?}"))
}

/// Finding 1a - the evaluation stack is one per story, not one per flow:
/// arguments handed to `choose_path_string` in one flow are consumed by the
/// flow that happens to continue first.
///
/// Two flows, two host operations each, disjoint knots, no globals.
#[test]
fn f1a_shared_evaluation_stack_swaps_jump_arguments_between_flows() {
    let json = compile(
        "-> END\n\
         == ka(a) ==\n\
         ka got {a}\n\
         -> END\n\
         == kb(b) ==\n\
         kb got {b}\n\
         -> END\n",
    );

    // Each flow run alone.
    let mut s = Story::new(&json).unwrap();
    s.switch_flow("A").unwrap();
    s.choose_path_string("ka", true, Some(&vec![ValueType::from(1)]))
        .unwrap();
    assert_eq!("ka got 1\n", s.cont().unwrap());

    let mut s = Story::new(&json).unwrap();
    s.switch_flow("B").unwrap();
    s.choose_path_string("kb", true, Some(&vec![ValueType::from(2)]))
        .unwrap();
    assert_eq!("kb got 2\n", s.cont().unwrap());

    // Interleaving  A.jump  B.jump  A.cont  B.cont
    let mut s = Story::new(&json).unwrap();
    s.switch_flow("A").unwrap();
    s.choose_path_string("ka", true, Some(&vec![ValueType::from(1)]))
        .unwrap();
    s.switch_flow("B").unwrap();
    s.choose_path_string("kb", true, Some(&vec![ValueType::from(2)]))
        .unwrap();
    s.switch_flow("A").unwrap();
    let a = s.cont().unwrap();
    s.switch_flow("B").unwrap();
    let b = s.cont().unwrap();

    // actual: a == "ka got 2\n", b == "kb got 1\n"
    assert_eq!(("ka got 1\n", "kb got 2\n"), (a.as_str(), b.as_str()));
}

/// Finding 1b - same root cause, no host arguments involved: a flow that is
/// parked in the middle of an expression (a function that prints several lines
/// is being evaluated as an operand) keeps its pending operands on the shared
/// evaluation stack; another flow parked the same way puts its own on top, and
/// each flow then pops the other one's operand.
///
/// Two flows, four host operations each (start, cont, cont, cont).
#[test]
fn f1b_shared_evaluation_stack_mixes_pending_operands_of_parked_flows() {
    let json = compile(
        "-> END\n\
         == ka ==\n\
         ~ temp x = 1 + ka_f()\n\
         ka x={x}\n\
         -> END\n\
         == function ka_f ==\n\
         ka f line 1\n\
         ka f line 2\n\
         ~ return 10\n\
         == kb ==\n\
         ~ temp y = 100 + kb_f()\n\
         kb y={y}\n\
         -> END\n\
         == function kb_f ==\n\
         kb f line 1\n\
         kb f line 2\n\
         ~ return 1000\n",
    );

    let run_alone = |flow: &str, knot: &str| -> Vec<String> {
        let mut s = Story::new(&json).unwrap();
        s.switch_flow(flow).unwrap();
        s.choose_path_string(knot, true, None).unwrap();
        (0..3).map(|_| s.cont().unwrap()).collect()
    };
    let a_alone = run_alone("A", "ka");
    let b_alone = run_alone("B", "kb");
    assert_eq!(vec!["ka f line 1\n", "ka f line 2\n", "ka x=11\n"], a_alone);
    assert_eq!(vec!["kb f line 1\n", "kb f line 2\n", "kb y=1100\n"], b_alone);

    // Interleaving  A: start cont | B: start cont | A: cont cont | B: cont cont
    let mut s = Story::new(&json).unwrap();
    let mut a = Vec::new();
    let mut b = Vec::new();
    s.switch_flow("A").unwrap();
    s.choose_path_string("ka", true, None).unwrap();
    a.push(s.cont().unwrap());
    s.switch_flow("B").unwrap();
    s.choose_path_string("kb", true, None).unwrap();
    b.push(s.cont().unwrap());
    s.switch_flow("A").unwrap();
    a.push(s.cont().unwrap());
    a.push(s.cont().unwrap());
    s.switch_flow("B").unwrap();
    b.push(s.cont().unwrap());
    b.push(s.cont().unwrap());

    // actual: a ends with "ka x=110\n", b ends with "kb y=1001\n"
    assert_eq!((a_alone, b_alone), (a, b));
}

/// Finding 2 - loading a save written before flows existed (save version 8,
/// still accepted: MIN_COMPATIBLE_LOAD_VERSION = 8) names the loaded flow
/// "default" instead of "DEFAULT_FLOW".  Switching away and "back" with
/// `switch_to_default_flow()` then does not come back to it: a brand-new
/// DEFAULT_FLOW is created at the top of the story and the loaded position is
/// left behind in a flow called "default" (and is written to later saves under
/// that name next to the new DEFAULT_FLOW).
#[test]
fn f2_old_format_load_misnames_default_flow_so_switching_back_restarts_it() {
    let json = compile(
        "Default one\n\
         Default two\n\
         Default three\n\
         -> END\n\
         == ka ==\n\
         ka 1\n\
         -> END\n",
    );

    // Produce a version-8 style save (no "flows" object: call stack, output
    // stream and choices live at the top level).
    let mut s = Story::new(&json).unwrap();
    assert_eq!("Default one\n", s.cont().unwrap());
    let mut v: serde_json::Value = serde_json::from_str(&s.save_state().unwrap()).unwrap();
    let o = v.as_object_mut().unwrap();
    let flows = o.remove("flows").unwrap();
    let f = flows.get("DEFAULT_FLOW").unwrap();
    o.remove("currentFlowName");
    o.insert("callstackThreads".into(), f["callstack"].clone());
    o.insert("outputStream".into(), f["outputStream"].clone());
    o.insert("currentChoices".into(), f["currentChoices"].clone());
    o.insert("inkSaveVersion".into(), serde_json::json!(8));
    let old_save = v.to_string();

    let mut t = Story::new(&json).unwrap();
    t.load_state(&old_save).unwrap();
    assert_eq!("Default one\n", t.get_current_text().unwrap());

    // switch away and back
    t.switch_flow("A").unwrap();
    t.choose_path_string("ka", true, None).unwrap();
    assert_eq!("ka 1\n", t.cont().unwrap());
    t.switch_to_default_flow();

    // actual: current text is "" and the next line is "Default one\n" again
    assert_eq!("Default one\n", t.get_current_text().unwrap());
    assert_eq!("Default two\n", t.cont().unwrap());
}

/// Finding 3 - `switch_flow` refuses to act while a time-limited
/// `continue_async` is half way through a line, but `switch_to_default_flow`
/// (and `remove_flow` of the current flow, which goes through it) are not
/// guarded.  The half-finished continue of flow A is then carried on in the
/// default flow: the default flow's pending text is not cleared (it shows its
/// previous line again, glued to the next one) and flow A loses the text it had
/// already produced for its line.
#[test]
fn f3_switch_to_default_flow_during_async_continue_corrupts_both_flows() {
    // Find a spin length that makes continue_async(0.5ms) stop mid-line on
    // this machine.
    let mut n = 2000;
    loop {
        let src = format!(
            "Default one\n\
             Default two\n\
             Default three\n\
             -> END\n\
             == ka ==\n\
             ka start {{spin({n})}}\n\
             ka second\n\
             -> END\n\
             == function spin(n) ==\n\
             {{ n > 0:\n\
               ~ return spin(n-1)\n\
             }}\n\
             ~ return 0\n"
        );
        let json = compile(&src);
        let mut s = Story::new(&json).unwrap();
        assert_eq!("Default one\n", s.cont().unwrap());

        s.switch_flow("A").unwrap();
        s.choose_path_string("ka", true, None).unwrap();
        s.continue_async(0.5).unwrap();

        // still in the middle of the async continue?
        if s.get_current_text().is_ok() {
            n *= 2;
            assert!(n < 100_000, "could not interrupt an async continue");
            continue;
        }

        // The guarded entry point refuses ...
        assert!(s.switch_flow("DEFAULT_FLOW").is_err());
        // ... the unguarded one goes ahead.
        s.switch_to_default_flow();

        let d = s.cont().unwrap();
        s.switch_flow("A").unwrap();
        let a = s.cont().unwrap();

        // actual: d == "Default one\nDefault two\n", a == "0\n"
        assert_eq!(
            ("Default two\n", "ka start 0\n"),
            (d.as_str(), a.as_str())
        );
        break;
    }
}
