//! C15 hunt: malformed story / save input must be rejected with an error, not a crash.
//!
//! Every test below FAILS on the unchanged code. Run with
//!
//!   CARGO_TARGET_DIR=/tmp/wh-C15/target cargo test --offline -p conformance-tests --test hunt
//!   CARGO_TARGET_DIR=/tmp/wh-C15/target cargo test --offline -p conformance-tests \
//!       --features bladeink/stream-json-parser --test hunt          (streaming loader)
//!
//! Inputs that kill the process (stack overflow, allocation abort) are run in a
//! child process: the test re-executes its own binary with HUNT_CHILD set.
use bladeink::story::Story;
use std::{
    panic::{catch_unwind, AssertUnwindSafe},
    process::Command,
    sync::mpsc,
    time::Duration,
};

/// Story::new in a helper thread: "Ok", "Err(..)", "PANIC: .." or "HANG".
fn outcome_of_new(json: &str) -> String {
    let (tx, rx) = mpsc::channel();
    let json = json.to_string();
    std::thread::spawn(move || {
        let r = catch_unwind(AssertUnwindSafe(|| Story::new(&json).map(|_| ())));
        let _ = tx.send(match r {
            Ok(Ok(())) => "Ok".to_string(),
            Ok(Err(e)) => format!("Err({e})"),
            Err(p) => format!(
                "PANIC: {}",
                p.downcast_ref::<String>()
                    .cloned()
                    .or_else(|| p.downcast_ref::<&str>().map(|s| s.to_string()))
                    .unwrap_or_default()
            ),
        });
    });
    rx.recv_timeout(Duration::from_secs(10))
        .unwrap_or_else(|_| "HANG".to_string())
}

fn assert_new_is_ok_or_err(json: &str) {
    let o = outcome_of_new(json);
    assert!(
        o == "Ok" || o.starts_with("Err("),
        "Story::new must return Ok or Err for\n  {json}\nbut: {o}"
    );
}

fn doc(global_decl: &str) -> String {
    format!(
        r##"{{"inkVersion":21,"root":["done",{{"global decl":[{global_decl}]}}],"listDefs":{{}}}}"##
    )
}

/// Entry point of the child processes (does nothing in a normal run).
#[test]
fn zz_child() {
    let Ok(json) = std::env::var("HUNT_CHILD") else {
        return;
    };
    match Story::new(&json) {
        Ok(_) => println!("CHILD-RESULT Ok"),
        Err(e) => println!("CHILD-RESULT Err({e})"),
    }
}

/// Runs Story::new(json) in a child process; `vmem_kb` caps its address space.
fn child_new(json: &str, vmem_kb: Option<u64>) -> (Option<i32>, String) {
    let exe = std::env::current_exe().unwrap();
    let inner = format!(
        "{}exec timeout 120 \"{}\" zz_child --exact --nocapture --test-threads=1",
        vmem_kb.map(|k| format!("ulimit -v {k}; ")).unwrap_or_default(),
        exe.display()
    );
    let out = Command::new("sh")
        .arg("-c")
        .arg(inner)
        .env("HUNT_CHILD", json)
        .env("RUST_BACKTRACE", "0")
        .output()
        .unwrap();
    let text = format!(
        "{}{}",
        String::from_utf8_lossy(&out.stdout),
        String::from_utf8_lossy(&out.stderr)
    );
    (out.status.code(), text)
}

fn assert_child_new_is_ok_or_err(json: &str, vmem_kb: Option<u64>) {
    let (code, text) = child_new(json, vmem_kb);
    assert!(
        text.contains("CHILD-RESULT"),
        "Story::new did not return in the child process (exit code {code:?}) for\n  {json}\nchild output:\n{}",
        text.lines()
            .filter(|l| !l.trim().is_empty() && !l.starts_with("running") && !l.starts_with("note:"))
            .collect::<Vec<_>>()
            .join("\n")
    );
}

// ---------------------------------------------------------------------------
// 1. A global that holds a variable pointer to itself: reading it recurses for
//    ever (VariablesState::get_variable_with_name <-> value_at_variable_pointer)
//    and the process dies with "stack overflow".
// ---------------------------------------------------------------------------
#[test]
fn f1_self_referencing_variable_pointer_overflows_the_stack() {
    let json = doc(r##""ev",{"^var":"y","ci":0},{"VAR=":"y"},{"VAR?":"y"},"/ev","end",null"##);
    assert_child_new_is_ok_or_err(&json, None);
}

/// Same value, but assigned to instead of read: the de-referencing loop of
/// VariablesState::assign never ends (one instruction, not a looping story).
#[test]
fn f1b_assigning_through_a_self_referencing_variable_pointer_hangs() {
    let json = doc(
        r##""ev",{"^var":"y","ci":0},{"VAR=":"y"},1,{"VAR=":"y","re":true},"/ev","end",null"##,
    );
    assert_new_is_ok_or_err(&json);
}

// ---------------------------------------------------------------------------
// 2. Out-of-range number: a shuffle ("seq") over 2147483647 elements makes
//    Story::next_sequence_shuffle_index collect 0..n into a Vec<i32> (8 GiB).
//    With the address space capped at 3 GB the process aborts
//    ("memory allocation of 8589934588 bytes failed", SIGABRT).
// ---------------------------------------------------------------------------
#[test]
fn f2_shuffle_over_i32_max_elements_aborts_on_allocation() {
    let json = doc(r##""ev",0,2147483647,"seq","/ev","end",null"##);
    assert_child_new_is_ok_or_err(&json, Some(3_000_000));
}

// ---------------------------------------------------------------------------
// 3. Divert with an empty target path: Divert::get_target_pointer unwraps
//    get_last_component() of an empty path (divert.rs:107).
// ---------------------------------------------------------------------------
#[test]
fn f3_divert_with_empty_target_panics() {
    assert_new_is_ok_or_err(&doc(r##"{"->":""},"end",null"##));
}

// ---------------------------------------------------------------------------
// 4. Named-only content whose key is "": the container has no valid name and is
//    not in its parent's content list, so Object::get_path unwraps a failed
//    position() (object.rs:75) as soon as its visit is counted.
// ---------------------------------------------------------------------------
#[test]
fn f4_named_content_with_empty_key_panics_in_get_path() {
    assert_new_is_ok_or_err(&doc(r##"{"->":"global decl."},{"":["end",{"#f":1}]}"##));
}

// ---------------------------------------------------------------------------
// 5. A non-value object (glue, tag ...) as operand of a binary operator whose
//    other operand is a list: NativeFunctionCall::call_binary_list_operation
//    unwraps the downcast to Value (native_function_call.rs:255/256). Without
//    the list the same input is rejected ("RTObject of type Value expected").
// ---------------------------------------------------------------------------
#[test]
fn f5_glue_operand_next_to_a_list_panics() {
    assert_new_is_ok_or_err(&doc(r##""ev","<>",{"list":{}},"+","/ev","end",null"##));
}

// ---------------------------------------------------------------------------
// 6. A save whose call stack has no thread (or a thread without elements) is
//    accepted by load_state (Ok); the very next can_continue() panics in
//    CallStack::get_current_thread / get_current_element (callstack.rs:208/210).
// ---------------------------------------------------------------------------
fn load_then_query(save: &str) {
    let story_json = r##"{"inkVersion":21,"root":["^Hello","\n","done",null],"listDefs":{}}"##;
    let mut story = Story::new(story_json).unwrap();
    let loaded = catch_unwind(AssertUnwindSafe(|| story.load_state(save)));
    let loaded = loaded.expect("load_state itself must not panic");
    if loaded.is_err() {
        return; // rejected: fine
    }
    let r = catch_unwind(AssertUnwindSafe(|| story.can_continue()));
    assert!(
        r.is_ok(),
        "load_state returned Ok for\n  {save}\nbut the next can_continue() panicked"
    );
}

#[test]
fn f6_save_without_threads_is_accepted_then_can_continue_panics() {
    load_then_query(
        r##"{"flows":{"DEFAULT_FLOW":{"callstack":{"threads":[],"threadCounter":0},"outputStream":[],"currentChoices":[]}},"inkSaveVersion":10}"##,
    );
}

#[test]
fn f6b_save_with_empty_thread_callstack_is_accepted_then_can_continue_panics() {
    load_then_query(
        r##"{"flows":{"DEFAULT_FLOW":{"callstack":{"threads":[{"callstack":[],"threadIndex":0}],"threadCounter":0},"outputStream":[],"currentChoices":[]}},"inkSaveVersion":10}"##,
    );
}

// ---------------------------------------------------------------------------
// Further unwraps of the same family (a path that resolves to something other
// than the expected named container), each with its own panic site.
// ---------------------------------------------------------------------------

/// `CNT?` on a path that is not a container: variable_reference.rs:36.
#[test]
fn x1_read_count_of_non_container_panics() {
    assert_new_is_ok_or_err(&doc(r##""ev",{"CNT?":"global decl.0"},"/ev","end",null"##));
}

/// Once-only choice whose target is not a container: story/choices.rs:80.
#[test]
fn x2_once_only_choice_with_non_container_target_panics() {
    assert_new_is_ok_or_err(&doc(r##""ev",true,"/ev",{"*":"0","flg":17},"end",null"##));
}

/// TURNS_SINCE on an unnamed container (here: the root): the error message
/// unwraps the container's name, story_state.rs:1136.
#[test]
fn x3_turns_since_unnamed_container_panics() {
    assert_new_is_ok_or_err(&doc(r##""ev",{"^->":""},"turns","/ev","end",null"##));
}
