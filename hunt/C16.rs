// C16 hunt: "Evaluating an Ink function from the host does not disturb the story".
// Every test below FAILS on the unchanged code because of the defect it is named after.
//
// Run with:
//   CARGO_TARGET_DIR=/tmp/wh-C16/target cargo test --offline -p conformance-tests --test hunt

use std::{cell::RefCell, rc::Rc};

use bladeink::{
    story::{Story, external_functions::ExternalFunction},
    value_type::ValueType,
};
use bladeink_compiler::Compiler;

fn compile(ink: &str) -> String {
    Compiler::new().compile(ink).unwrap()
}

/// Plays a story to the end (always taking the first choice), with a step limit.
fn play(story: &mut Story) -> Vec<String> {
    let mut lines = Vec::new();
    let mut fuel = 100;
    loop {
        while story.can_continue() && fuel > 0 {
            fuel -= 1;
            match story.cont() {
                Ok(l) => lines.push(l),
                Err(e) => {
                    lines.push(format!("ERR {e:?}"));
                    return lines;
                }
            }
        }
        if story.get_current_choices().is_empty() || fuel == 0 {
            return lines;
        }
        story.choose_choice_index(0).unwrap();
    }
}

struct Ext;
impl ExternalFunction for Ext {
    fn call(&mut self, _name: &str, _args: Vec<ValueType>) -> Option<ValueType> {
        Some(ValueType::Int(42))
    }
}

/// Finding 1.
/// evaluate_function() pushes its call-stack frame, clears the output stream and
/// pushes the arguments BEFORE the nested cont() validates the external
/// bindings. When that validation fails (an EXTERNAL is not bound yet), the `?`
/// in evaluate_function returns the error without undoing anything: the
/// FunctionEvaluationFromGame frame stays on the main story's call stack.
/// After the host binds the external, the main story plays the *function body*
/// as its own text and then stops for good; "Line one"/"Line two" never appear.
#[test]
fn refused_evaluation_with_unbound_external_hijacks_the_story() {
    let ink = r#"
EXTERNAL ext()
Line one
Line two {ext()}
-> END
== function f
f text
~ return 1
"#;
    let json = compile(ink);

    // uninjected history
    let mut base = Story::new(&json).unwrap();
    base.bind_external_function("ext", Rc::new(RefCell::new(Ext)), true)
        .unwrap();
    let base_lines = play(&mut base);
    assert_eq!(base_lines, vec!["Line one\n", "Line two 42\n"]);

    // injected history: the host evaluates a pure function before binding
    let mut s = Story::new(&json).unwrap();
    let state_before = s.save_state().unwrap();
    let mut out = String::new();
    let r = s.evaluate_function("f", None, &mut out);
    assert!(r.is_err(), "call is refused: the external is not bound");
    let state_after = s.save_state().unwrap();
    s.bind_external_function("ext", Rc::new(RefCell::new(Ext)), true)
        .unwrap();
    let lines = play(&mut s);

    assert_eq!(
        lines, base_lines,
        "the refused evaluate_function changed what the main story plays"
    );
    assert_eq!(state_before, state_after);
}

/// Finding 2.
/// The "previous pointer" lives on the current thread, which evaluate_function
/// shares with the main story; it is neither saved nor restored. After the
/// call it points into the function, so the next
/// choose_path_string(.., reset_call_stack = false, ..) computes a different
/// set of "newly entered" containers: the knot's visit count (and everything
/// that reads it) differs from the uninjected history.
#[test]
fn evaluation_leaves_previous_pointer_in_function_changing_visit_counts() {
    let ink = r#"
-> knot
== knot
In knot {knot}
-> DONE
== function f
~ return 1
"#;
    let json = compile(ink);

    let run = |inject: bool| -> (Vec<String>, i32) {
        let mut s = Story::new(&json).unwrap();
        let mut lines = vec![s.continue_maximally().unwrap()];
        if inject {
            let mut out = String::new();
            let r = s.evaluate_function("f", None, &mut out).unwrap();
            assert_eq!(r.unwrap().get::<i32>(), Some(1));
        }
        s.choose_path_string("knot", false, None).unwrap();
        lines.push(s.continue_maximally().unwrap());
        (lines, s.get_visit_count_at_path_string("knot").unwrap())
    };

    let base = run(false);
    let injected = run(true);
    assert_eq!(
        injected, base,
        "a later continue behaves differently after evaluate_function"
    );
}

/// Finding 3.
/// When the story holds an undelivered error (no error handler: cont() returned
/// Err and the message stays in the state) can_continue() is false, so the
/// `while self.can_continue()` loop of evaluate_function never runs the
/// function. The call still reports success: no text, and the "return value"
/// is whatever is left on the evaluation stack, i.e. the LAST ARGUMENT.
/// add(1, 2) == Ok(2).
#[test]
fn evaluation_on_story_with_pending_error_returns_last_argument_as_value() {
    let ink = r#"
-> k
== k
Line
== function add(x, y)
x{x}
~ return x + y
"#;
    let json = compile(ink);
    let args = vec![ValueType::Int(1), ValueType::Int(2)];

    // reference result on a fresh story
    let mut fresh = Story::new(&json).unwrap();
    let mut fresh_out = String::new();
    let fresh_val = fresh
        .evaluate_function("add", Some(&args), &mut fresh_out)
        .unwrap()
        .unwrap()
        .get::<i32>();
    assert_eq!((fresh_val, fresh_out.as_str()), (Some(3), "x1\n"));

    let mut s = Story::new(&json).unwrap();
    assert!(s.cont().is_err()); // "ran out of content", no handler assigned
    let mut out = String::new();
    match s.evaluate_function("add", Some(&args), &mut out) {
        // refusing would be fine ...
        Err(_) => {}
        // ... but a successful call has to return the function's value and text
        Ok(v) => {
            assert_eq!(
                (v.and_then(|v| v.get::<i32>()), out.as_str()),
                (Some(3), "x1\n"),
                "evaluate_function reported success without running the function"
            );
        }
    }
}

/// Finding 4.
/// Function names are looked up in *all* named content of the root container,
/// which includes the compiler-internal "global decl" container. It is not a
/// function any ink author wrote, yet the name is accepted; running it
/// re-initialises every global variable and its trailing `end` resets the call
/// stack: the call returns Err, g is back to 10 and the main story can no
/// longer continue.
#[test]
fn global_decl_is_accepted_as_a_function_name_and_wipes_the_story() {
    let ink = r#"
VAR g = 10
~ g = 11
Line {g}
Line2 {g}
"#;
    let json = compile(ink);
    let mut s = Story::new(&json).unwrap();
    assert_eq!(s.cont().unwrap(), "Line 11\n");

    let mut out = String::new();
    let r = s.evaluate_function("global decl", None, &mut out);
    assert!(r.is_err(), "not an ink function: has to be refused");

    // refused without change:
    assert_eq!(s.get_variable("g").unwrap().get::<i32>(), Some(11));
    assert!(s.can_continue());
    assert_eq!(s.cont().unwrap(), "Line2 11\n");
}

/// Finding 5 (borderline: wrong argument COUNT, not type).
/// The FunctionEvaluationFromGame frame records the evaluation-stack height,
/// but nothing stops the function from popping *below* it. If the main story
/// is paused with a value parked on the evaluation stack (here: inside
/// `100 + mainfn(2)`, after mainfn's first line) a call with too few arguments
/// takes the main story's operand as its parameter and leaves its own result
/// in its place. The call reports Ok(None), and the main story later prints
/// "Total 107" instead of "Total 102".
#[test]
fn too_few_arguments_consume_the_main_storys_evaluation_stack() {
    let ink = r#"
~ temp total = 100 + mainfn(2)
Total {total}
-> END
== function mainfn(k)
mf a
mf b
~ return k
== function add(x, y)
~ return x + y
"#;
    let json = compile(ink);

    let mut base = Story::new(&json).unwrap();
    assert_eq!(base.cont().unwrap(), "mf a\n");
    let base_rest = play(&mut base);
    assert_eq!(base_rest, vec!["mf b\n", "Total 102\n"]);

    let mut s = Story::new(&json).unwrap();
    assert_eq!(s.cont().unwrap(), "mf a\n");
    let mut out = String::new();
    let _ = s.evaluate_function("add", Some(&vec![ValueType::Int(5)]), &mut out);
    assert_eq!(
        play(&mut s),
        base_rest,
        "the host call changed a value the main story had on its evaluation stack"
    );
}
