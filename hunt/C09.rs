//! C09 hunt: "a rejected host call leaves the story exactly as it was".
//! One test per finding; each FAILS on the unchanged code.
//! (The exploration / lockstep harness used during the hunt is kept in
//! /tmp/wh-C09-exploration-harness.rs.)
use std::{
    cell::RefCell,
    panic::{AssertUnwindSafe, catch_unwind},
    rc::Rc,
};

use bladeink::{
    story::{Story, external_functions::ExternalFunction},
    value_type::ValueType,
};
use bladeink_compiler::Compiler;

fn story(ink: &str) -> Story {
    Story::new(&Compiler::new().compile(ink).unwrap()).unwrap()
}

fn save(s: &Story) -> serde_json::Value {
    serde_json::from_str(&s.save_state().unwrap()).unwrap()
}

struct Ext;
impl ExternalFunction for Ext {
    fn call(&mut self, _f: &str, _args: Vec<ValueType>) -> Option<ValueType> {
        Some(ValueType::Int(40))
    }
}

/// Finding 1: a refused `load_state` is not transactional. The smallest bad save
/// `{"inkSaveVersion":10}` is refused with BadJson, but by then every parked flow has been
/// dropped and the current flow has been renamed to "default".
#[test]
fn rejected_load_state_destroys_parked_flows() {
    let mut s = story("Hello\n* a\n  A\n-> END\n== knot ==\nIn knot\n-> END\n");
    assert_eq!(s.cont().unwrap(), "Hello\n"); // default flow now waits at the choice
    s.switch_flow("F").unwrap();
    s.choose_path_string("knot", true, None).unwrap();
    assert_eq!(s.cont().unwrap(), "In knot\n");

    let before = save(&s);
    assert!(s.load_state(r#"{"inkSaveVersion":10}"#).is_err());
    let after = save(&s);

    // what a host sees next: going back to the default flow finds nothing to choose
    s.switch_to_default_flow();
    let choices = s.get_current_choices().len();

    assert_eq!(before, after, "refused load_state changed the state");
    assert_eq!(choices, 1);
}

/// Finding 1b (same root cause, other symptom): a save that is fine up to its last field
/// is refused, yet flows, variables, visit counts have already been replaced.
#[test]
fn rejected_load_state_half_loads_the_save() {
    let ink = "VAR x = 1\nOne\n~ x = 2\nTwo\n-> END\n";
    let mut other = story(ink);
    other.cont().unwrap();
    other.cont().unwrap(); // x == 2, text "Two"
    let mut bad = save(&other);
    bad["turnIdx"] = serde_json::json!("oops");

    let mut s = story(ink);
    s.cont().unwrap(); // "One", x == 1
    let before = (s.get_current_text().unwrap(), s.get_variable("x").unwrap().coerce_to_int().unwrap());
    assert!(s.load_state(&bad.to_string()).is_err());
    let after = (s.get_current_text().unwrap(), s.get_variable("x").unwrap().coerce_to_int().unwrap());
    assert_eq!(before, after, "refused load_state replaced text / variables");
}

/// Finding 2: `evaluate_function` with a missing argument (a bad argument) returns Err but
/// leaves the story force-ended: pending choices gone, current text gone, error stuck in
/// the state so that nothing can ever continue again.
#[test]
fn evaluate_function_with_missing_argument_wrecks_story() {
    let mut s = story("Hello\n* a\n  A\n-> END\n== function f(p) ==\n~ return p + 1\n");
    assert_eq!(s.cont().unwrap(), "Hello\n");
    assert_eq!(s.get_current_choices().len(), 1);
    let before = save(&s);

    let mut out = String::new();
    assert!(s.evaluate_function("f", None, &mut out).is_err()); // f needs one argument

    assert_eq!(s.get_current_text().unwrap(), "Hello\n", "current text lost");
    assert_eq!(s.get_current_choices().len(), 1, "choices lost");
    assert!(!s.has_error(), "error left behind: {:?}", s.get_current_errors());
    assert_eq!(before, save(&s));
    s.choose_choice_index(0).unwrap();
    assert_eq!(s.cont().unwrap(), "a\n");
}

/// Finding 3: `tags_for_content_at_path` with a path that resolves to something that is
/// not a container panics (tags.rs:34 `container().unwrap()`) instead of returning Err.
#[test]
fn tags_for_content_at_path_panics_on_non_container_path() {
    let s = story("Hello\n-> END\n== knot ==\nIn knot\n-> END\n");
    let r = catch_unwind(AssertUnwindSafe(|| s.tags_for_content_at_path("knot.0").is_ok()));
    assert!(r.is_ok(), "tags_for_content_at_path(\"knot.0\") panicked");
}

/// Finding 4: `cont()` on a story that cannot continue is refused, but only after
/// `continue_async` has run `validate_external_bindings` and latched
/// `has_validated_externals = true`. Later continues skip the validation they would
/// otherwise have performed.
#[test]
fn rejected_cont_marks_externals_validated() {
    let ink = "EXTERNAL ext()\nHello\n* go\n  {ext()}\n-> END\n";
    let json = Compiler::new().compile(ink).unwrap();
    let saved = {
        let mut s0 = Story::new(&json).unwrap();
        s0.bind_external_function("ext", Rc::new(RefCell::new(Ext)), true).unwrap();
        s0.cont().unwrap();
        s0.save_state().unwrap() // waiting at the choice
    };

    let play = |inject: bool| -> Vec<String> {
        let mut s = Story::new(&json).unwrap();
        s.bind_external_function("ext", Rc::new(RefCell::new(Ext)), true).unwrap();
        s.load_state(&saved).unwrap();
        if inject {
            assert!(s.cont().is_err()); // cannot continue: refused
        }
        s.unbind_external_function("ext").unwrap();
        s.choose_choice_index(0).unwrap();
        let mut log = vec![];
        for _ in 0..3 {
            log.push(match s.cont() {
                Ok(t) => format!("Ok({t:?})"),
                Err(e) => format!("Err({e})"),
            });
        }
        log.push(format!("can_continue={} errors={:?}", s.can_continue(), s.get_current_errors()));
        log
    };

    assert_eq!(play(true), play(false));
}

/// Finding 5: a refused `choose_choice_index` (out of range) rewrites the `index` of every
/// pending choice, which shows up in the next `save_state`.
#[test]
fn rejected_choose_choice_index_changes_save() {
    let mut a = story("* a\n* b\n");
    let mut b = story("* a\n* b\n");
    let init = a.save_state().unwrap(); // same random seed for both
    a.load_state(&init).unwrap();
    b.load_state(&init).unwrap();
    a.cont().unwrap();
    b.cont().unwrap();
    assert!(a.choose_choice_index(7).is_err());
    assert_eq!(a.save_state().unwrap(), b.save_state().unwrap());
}
