#![allow(dead_code)]
use std::collections::{BTreeMap, HashMap};
use std::panic::{AssertUnwindSafe, catch_unwind};

use bladeink::story::Story;
use bladeink_compiler::Compiler;
use serde_json::Value;

/// One object of the story tree, as seen in the JSON document.
#[derive(Debug, Clone)]
struct Obj {
    path: String,
    is_container: bool,
    named_only: bool,
    desc: String,
}

fn valid_name(v: &Value) -> Option<String> {
    let arr = v.as_array()?;
    let last = arr.last()?.as_object()?;
    let n = last.get("#n")?.as_str()?;
    if n.is_empty() { None } else { Some(n.to_string()) }
}

fn join(base: &str, comp: &str) -> String {
    if base.is_empty() {
        comp.to_string()
    } else {
        format!("{base}.{comp}")
    }
}

/// Walk a container array; `path` is the path of the container itself.
fn walk(arr: &[Value], path: &str, out: &mut Vec<Obj>, problems: &mut Vec<String>) {
    let n = arr.len();
    let mut names_here: HashMap<String, String> = HashMap::new();
    for (i, item) in arr.iter().take(n.saturating_sub(1)).enumerate() {
        if let Some(sub) = item.as_array() {
            let comp = match valid_name(item) {
                Some(name) => {
                    if let Some(prev) = names_here.insert(name.clone(), format!("content[{i}]")) {
                        problems.push(format!(
                            "duplicate name '{name}' in container '{path}' ({prev} and content[{i}])"
                        ));
                    }
                    check_name(&name, path, problems);
                    name
                }
                None => i.to_string(),
            };
            let p = join(path, &comp);
            out.push(Obj {
                path: p.clone(),
                is_container: true,
                named_only: false,
                desc: format!("container@{i}"),
            });
            walk(sub, &p, out, problems);
        } else {
            out.push(Obj {
                path: join(path, &i.to_string()),
                is_container: false,
                named_only: false,
                desc: item.to_string(),
            });
        }
    }
    if let Some(term) = arr.last().and_then(|v| v.as_object()) {
        for (k, v) in term {
            if k == "#f" || k == "#n" {
                continue;
            }
            if let Some(sub) = v.as_array() {
                if let Some(prev) = names_here.insert(k.clone(), "named-only".to_string()) {
                    problems.push(format!(
                        "duplicate name '{k}' in container '{path}' ({prev} and named-only)"
                    ));
                }
                check_name(k, path, problems);
                if let Some(inner) = valid_name(v) {
                    if &inner != k {
                        problems.push(format!(
                            "named-only key '{k}' in '{path}' has different #n '{inner}'"
                        ));
                    }
                }
                let p = join(path, k);
                out.push(Obj {
                    path: p.clone(),
                    is_container: true,
                    named_only: true,
                    desc: format!("named-only {k}"),
                });
                walk(sub, &p, out, problems);
            }
        }
    }
}

fn check_name(name: &str, path: &str, problems: &mut Vec<String>) {
    if name.parse::<usize>().is_ok() {
        problems.push(format!("numeric name '{name}' in container '{path}'"));
    }
    if name.contains('.') {
        problems.push(format!("dotted name '{name}' in container '{path}'"));
    }
    if name == "^" || name.is_empty() {
        problems.push(format!("reserved name '{name}' in container '{path}'"));
    }
}

fn reported_paths(h: &str) -> Vec<String> {
    let mut v = Vec::new();
    for line in h.lines() {
        if line.ends_with(')') {
            if let Some(pos) = line.rfind("  (") {
                v.push(line[pos + 3..line.len() - 1].to_string());
            }
        }
    }
    v
}

/// Returns the list of failures for a story JSON.
fn audit_json(json: &str) -> Vec<String> {
    let mut problems = Vec::new();
    let doc: Value = serde_json::from_str(json).expect("json");
    let root = doc.get("root").and_then(|r| r.as_array()).expect("root");
    let mut objs = Vec::new();
    walk(root, "", &mut objs, &mut problems);

    let story = match catch_unwind(AssertUnwindSafe(|| Story::new(json))) {
        Ok(Ok(s)) => s,
        Ok(Err(e)) => {
            problems.push(format!("Story::new failed: {e}"));
            return problems;
        }
        Err(_) => {
            problems.push("Story::new panicked".to_string());
            return problems;
        }
    };
    let mut story = story;

    // 1. paths reported by the engine
    let h = match catch_unwind(AssertUnwindSafe(|| story.build_string_of_hierarchy())) {
        Ok(h) => h,
        Err(_) => {
            problems.push("build_string_of_hierarchy panicked".to_string());
            String::new()
        }
    };
    let mut reported: BTreeMap<String, usize> = BTreeMap::new();
    for p in reported_paths(&h) {
        *reported.entry(p).or_default() += 1;
    }
    let mut expected: BTreeMap<String, usize> = BTreeMap::new();
    for o in objs.iter().filter(|o| !o.named_only) {
        *expected.entry(o.path.clone()).or_default() += 1;
    }
    for (p, c) in &reported {
        if *c > 1 {
            problems.push(format!("engine reports path '{p}' for {c} different objects"));
        }
        if !expected.contains_key(p) {
            problems.push(format!("engine reports unexpected path '{p}'"));
        }
    }
    for (p, _) in &expected {
        if !reported.contains_key(p) {
            problems.push(format!("expected path '{p}' is not reported by the engine"));
        }
    }

    // 2. resolution via choose_path_string / get_current_path
    for o in &objs {
        let last_is_index = o
            .path
            .rsplit('.')
            .next()
            .map(|c| c.parse::<usize>().is_ok())
            .unwrap_or(false);
        let want = if last_is_index {
            o.path.clone()
        } else {
            format!("{}.0", o.path)
        };
        let r = catch_unwind(AssertUnwindSafe(|| {
            story
                .choose_path_string(&o.path, true, None)
                .map(|_| story.get_current_path())
        }));
        match r {
            Ok(Ok(Some(got))) => {
                // save / load round trip of the chosen position
                let rt = catch_unwind(AssertUnwindSafe(|| {
                    let st = story.save_state()?;
                    let mut s2 = Story::new(json)?;
                    s2.load_state(&st)?;
                    Ok::<_, bladeink::story_error::StoryError>(s2.get_current_path())
                }));
                match rt {
                    Ok(Ok(Some(p2))) if p2 == got => {}
                    Ok(Ok(other)) => problems.push(format!("position '{got}' read back from a save as {other:?}")),
                    Ok(Err(e)) => problems.push(format!("save/load at '{got}' failed: {e}")),
                    Err(_) => problems.push(format!("save/load at '{got}' panicked")),
                }
                if got != want {
                    problems.push(format!(
                        "choose_path_string('{}') -> current path '{}', wanted '{}'",
                        o.path, got, want
                    ));
                }
            }
            Ok(Ok(None)) => problems.push(format!("choose_path_string('{}') -> null", o.path)),
            Ok(Err(e)) => problems.push(format!("choose_path_string('{}') error {e}", o.path)),
            Err(_) => problems.push(format!("choose_path_string('{}') panicked", o.path)),
        }
    }
    problems
}

fn compile(ink: &str) -> Result<String, String> {
    match catch_unwind(AssertUnwindSafe(|| Compiler::new().compile(ink))) {
        Ok(Ok(j)) => Ok(j),
        Ok(Err(e)) => Err(format!("compile error: {e}")),
        Err(_) => Err("compiler panicked".to_string()),
    }
}

fn audit_ink(ink: &str) -> Vec<String> {
    match compile(ink) {
        Ok(j) => audit_json(&j),
        Err(e) => vec![format!("NOCOMPILE {e}")],
    }
}

fn explore(label: &str, ink: &str) {
    println!("=== {label} ===");
    match compile(ink) {
        Ok(j) => {
            println!("{j}");
            for p in audit_json(&j) {
                println!("  PROBLEM: {p}");
            }
        }
        Err(e) => println!("  {e}"),
    }
}

#[test]
#[ignore]
fn explore_names() {
    explore("numeric knot", "-> 1\n=== 1 ===\nhello\n-> END\n");
    explore("numeric stitch", "-> k.2\n=== k ===\nfoo\n-> END\n= 2\nhello\n-> END\n");
    explore("numeric label", "- (3) hello\n* (4) a\n* (5) b\n- -> END\n");
    explore("dup label", "- (a) hello\n* x\n- (a) again\n-> END\n");
    explore("dup choice label", "* (a) x\n* (a) y\n- -> END\n");
    explore("label = stitch", "-> k\n=== k ===\n- (s) top\n-> s\n= s\nstitch\n-> END\n");
    explore("label = knot", "- (k) top\n-> k\n=== k ===\nknot\n-> END\n");
    explore("dup knot", "-> k\n=== k ===\none\n-> END\n=== k ===\ntwo\n-> END\n");
    explore("dup stitch", "-> k\n=== k ===\n= s\none\n-> END\n= s\ntwo\n-> END\n");
    explore("knot = function", "-> k\n=== k ===\none\n-> END\n=== function k() ===\n~ return 1\n");
}

#[test]
#[ignore]
fn explore_names2() {
    explore("gather c-0", "* a\n- (c-0) text\n-> END\n");
    explore("gather g-0", "* a\n- x\n* b\n- (g-0) text\n-> END\n");
    explore("gather g-0 first", "- (g-0) first\n* a\n- second\n-> END\n");
    explore("dotted label", "- (Mr. Smith) said hello\n-> END\n");
    explore("caret label", "- (^) said hello\n* a\n- -> END\n");
    explore("empty label", "- () said hello\n* a\n- -> END\n");
    explore("empty choice label", "* () said hello\n- -> END\n");
    explore("dotted knot", "-> a.b\n=== a.b ===\nhello\n-> END\n");
    explore("dotted stitch", "-> k\n=== k ===\n-> x.y\n= x.y\nhello\n-> END\n");
    explore("choice label c-1", "* (c-1) a\n* b\n- -> END\n");
    explore("choice label", "* (lab) a\n* b\n- {lab} -> END\n");
    explore("label s", "* (s) a[b]c\n  ** (s) inner\n- (s) -> END\n");
}

fn collect(dir: &std::path::Path, out: &mut Vec<std::path::PathBuf>) {
    for e in std::fs::read_dir(dir).unwrap() {
        let p = e.unwrap().path();
        if p.is_dir() {
            collect(&p, out);
        } else {
            out.push(p);
        }
    }
}

#[test]
#[ignore]
fn explore_corpus() {
    let base = std::path::Path::new(env!("CARGO_MANIFEST_DIR")).join("inkfiles");
    let mut files = Vec::new();
    collect(&base, &mut files);
    files.sort();
    let mut nj = 0;
    let mut ni = 0;
    for f in files {
        let name = f.to_string_lossy().to_string();
        let text = match std::fs::read_to_string(&f) { Ok(t) => t, Err(_) => continue };
        let text = text.trim_start_matches('\u{feff}').to_string();
        if name.ends_with(".json") {
            nj += 1;
            let r = catch_unwind(AssertUnwindSafe(|| audit_json(&text)));
            match r {
                Ok(ps) => for p in ps.iter().take(8) { println!("{name}: {p}"); },
                Err(_) => println!("{name}: audit panicked"),
            }
        } else if name.ends_with(".ink") {
            let dir = f.parent().unwrap().to_path_buf();
            let c = catch_unwind(AssertUnwindSafe(|| Compiler::new().compile_with_file_handler(&text, |inc| {
                std::fs::read_to_string(dir.join(inc)).map_err(|e| bladeink_compiler::CompilerError::invalid_source(e.to_string()))
            })));
            match c {
                Ok(Ok(j)) => {
                    ni += 1;
                    let r = catch_unwind(AssertUnwindSafe(|| audit_json(&j)));
                    match r {
                        Ok(ps) => for p in ps.iter().take(8) { println!("{name} [rust-compiled]: {p}"); },
                        Err(_) => println!("{name}: audit panicked"),
                    }
                }
                Ok(Err(e)) => println!("{name}: compile error {e}"),
                Err(_) => println!("{name}: compiler panicked"),
            }
        }
    }
    println!("audited {nj} json, {ni} ink");
}

fn play(label: &str, json: &str, choices: &[usize], save_reload: bool) {
    println!("--- play {label} (save_reload={save_reload}) ---");
    let mut story = Story::new(json).unwrap();
    let mut ci = 0;
    for _ in 0..50 {
        let mut n = 0;
        while story.can_continue() && n < 100 {
            n += 1;
            match catch_unwind(AssertUnwindSafe(|| story.cont())) {
                Ok(Ok(l)) => print!("  > {l}"),
                Ok(Err(e)) => { println!("  ERR {e}"); return; }
                Err(_) => { println!("  PANIC in cont"); return; }
            }
            println!("    [path {:?}]", story.get_current_path());
            if save_reload {
                let st = story.save_state().unwrap();
                let mut s2 = Story::new(json).unwrap();
                match catch_unwind(AssertUnwindSafe(|| s2.load_state(&st))) {
                    Ok(Ok(())) => {}
                    Ok(Err(e)) => { println!("  LOAD ERR {e}"); return; }
                    Err(_) => { println!("  PANIC in load_state"); return; }
                }
                if s2.get_current_path() != story.get_current_path() {
                    println!("  !! path after reload {:?} vs {:?}", s2.get_current_path(), story.get_current_path());
                }
                story = s2;
            }
        }
        let ch = story.get_current_choices();
        if ch.is_empty() { break; }
        for c in &ch { println!("  * {}", c.text); }
        if save_reload {
            let st = story.save_state().unwrap();
            println!("  save: {st}");
            let mut s2 = Story::new(json).unwrap();
            s2.load_state(&st).unwrap();
            story = s2;
        }
        let pick = choices.get(ci).copied().unwrap_or(0);
        ci += 1;
        if let Err(e) = story.choose_choice_index(pick) { println!("  CHOOSE ERR {e}"); return; }
    }
    println!("  errors: {:?}", story.get_current_errors());
}

#[test]
#[ignore]
fn explore_play1() {
    let ink = "- (1) First step.\n* go on\n- (2) Second step.\n* more\n- done\n-> END\n";
    explore("numeric gather labels", ink);
    let j = compile(ink).unwrap();
    play("numeric", &j, &[0,0], false);
    play("numeric", &j, &[0,0], true);
    let ink = "-> 1\n=== 1 ===\nhello\n-> END\n";
    let j = compile(ink).unwrap();
    play("numeric knot", &j, &[], false);
}

use rand::{RngExt, SeedableRng, rngs::StdRng};

const NAMES: &[&str] = &["a", "b", "s", "s0", "g", "c", "k", "x", "nop", "t"];

fn gen_inline(r: &mut StdRng) -> String {
    match r.random_range(0..8) {
        0 => "{~one|two|three}".to_string(),
        1 => "{&ping|pong}".to_string(),
        2 => "{v > 1: big|small}".to_string(),
        3 => "{!once|twice}".to_string(),
        4 => "{alpha|beta|gamma}".to_string(),
        5 => "{v}".to_string(),
        _ => "plain".to_string(),
    }
}

fn gen_weave(r: &mut StdRng, depth: usize, labels: &mut Vec<String>, knots: &[String], out: &mut String, budget: &mut i32) {
    let n = r.random_range(1..4);
    for _ in 0..n {
        if *budget <= 0 { return; }
        *budget -= 1;
        let stars = "*".repeat(depth);
        let dashes = "- ".repeat(depth);
        match r.random_range(0..12) {
            0..=3 => {
                // a choice group
                let nc = r.random_range(1..4);
                for _ in 0..nc {
                    let sym = if r.random_bool(0.3) { "+".repeat(depth) } else { stars.clone() };
                    let lab = if r.random_bool(0.4) {
                        let l = NAMES[r.random_range(0..NAMES.len())].to_string();
                        labels.push(l.clone());
                        format!("({l}) ")
                    } else { String::new() };
                    let cond = if r.random_bool(0.2) { "{v < 100} " } else { "" };
                    let txt = match r.random_range(0..4) { 0 => "start[only]end", 1 => "[only]", 2 => "text {v}", _ => "choice" };
                    out.push_str(&format!("{sym} {lab}{cond}{txt} {}\n", gen_inline(r)));
                    if depth < 3 && r.random_bool(0.5) {
                        gen_weave(r, depth + 1, labels, knots, out, budget);
                    } else if r.random_bool(0.3) {
                        out.push_str("  inner text\n  ~ v = v + 1\n");
                    }
                }
                // gather
                let lab = if r.random_bool(0.4) {
                    let l = NAMES[r.random_range(0..NAMES.len())].to_string();
                    labels.push(l.clone());
                    format!("({l}) ")
                } else { String::new() };
                out.push_str(&format!("{dashes}{lab}gathered {}\n", gen_inline(r)));
            }
            4 => out.push_str(&format!("line {} <> glue\n", gen_inline(r))),
            5 => out.push_str("~ v = v + 1\n"),
            6 => out.push_str("{ v > 2:\n  yes branch\n- else:\n  no branch\n}\n"),
            7 => out.push_str("{ stopping:\n- first time\n- second time\n- later\n}\n"),
            8 => { if !knots.is_empty() { let k = &knots[r.random_range(0..knots.len())]; out.push_str(&format!("-> tun_{k} ->\n")); } }
            9 => { if !labels.is_empty() && r.random_bool(0.5) { let l = &labels[r.random_range(0..labels.len())]; out.push_str(&format!("~ v = v + 1\n{{v < 6: -> {l}}}\n")); } }
            10 => { if !knots.is_empty() { let k = &knots[r.random_range(0..knots.len())]; out.push_str(&format!("<- thr_{k}\n")); } }
            _ => { if !labels.is_empty() { let l = &labels[r.random_range(0..labels.len())]; out.push_str(&format!("seen {{{l}}}\n")); } }
        }
    }
}

fn gen_program(seed: u64) -> String {
    let mut r = StdRng::seed_from_u64(seed);
    let mut out = String::from("VAR v = 0\n");
    let nk = r.random_range(0..3);
    let knots: Vec<String> = (0..nk).map(|i| NAMES[(seed as usize + i) % NAMES.len()].to_string()).collect();
    let mut labels = Vec::new();
    let mut budget = 8;
    gen_weave(&mut r, 1, &mut labels, &knots, &mut out, &mut budget);
    if !knots.is_empty() { out.push_str(&format!("-> {}\n", knots[0])); } else { out.push_str("-> END\n"); }
    for (i, k) in knots.iter().enumerate() {
        out.push_str(&format!("=== {k} ===\n"));
        let mut labels = Vec::new();
        let mut budget = 6;
        if r.random_bool(0.7) { gen_weave(&mut r, 1, &mut labels, &knots, &mut out, &mut budget); }
        let ns = r.random_range(0..3);
        let mut stitches: Vec<String> = Vec::new();
        for _ in 0..ns {
            let s = NAMES[r.random_range(0..NAMES.len())].to_string();
            if !stitches.contains(&s) && !knots.contains(&s) { stitches.push(s); }
        }
        if let Some(s) = stitches.first() { out.push_str(&format!("-> {s}\n")); }
        else if i + 1 < knots.len() { out.push_str(&format!("-> {}\n", knots[i + 1])); } else { out.push_str("-> END\n"); }
        for (j, s) in stitches.iter().enumerate() {
            out.push_str(&format!("= {s}\n"));
            let mut budget = 5;
            gen_weave(&mut r, 1, &mut labels, &knots, &mut out, &mut budget);
            if j + 1 < stitches.len() { out.push_str(&format!("-> {}\n", stitches[j + 1])); }
            else if i + 1 < knots.len() { out.push_str(&format!("-> {}\n", knots[i + 1])); } else { out.push_str("-> END\n"); }
        }
    }
    for k in &knots {
        out.push_str(&format!("=== tun_{k} ===\ntunnel text {{v}}\n* tunnel choice\n- ->->\n"));
        out.push_str(&format!("=== thr_{k} ===\n* thread choice {k}\n  thread body\n  -> END\n"));
    }
    out
}

/// Play with random choices; if `reload`, round-trip the state through save/load before each cont and choice.
fn transcript(json: &str, st0: &str, seed: u64, reload: bool) -> Result<Vec<String>, String> {
    let mut r = StdRng::seed_from_u64(seed);
    let mut story = Story::new(json).map_err(|e| e.to_string())?;
    story.load_state(st0).map_err(|e| e.to_string())?;
    let mut t = Vec::new();
    let mut steps = 0;
    loop {
        while story.can_continue() {
            steps += 1;
            if steps > 300 { return Ok(t); }
            if reload {
                let st = catch_unwind(AssertUnwindSafe(|| story.save_state())).map_err(|_| "save panicked".to_string())?.map_err(|e| e.to_string())?;
                let mut s2 = Story::new(json).map_err(|e| e.to_string())?;
                catch_unwind(AssertUnwindSafe(|| s2.load_state(&st))).map_err(|_| "load panicked".to_string())?.map_err(|e| e.to_string())?;
                let a = story.get_current_path(); let b = s2.get_current_path();
                if a != b { t.push(format!("PATHDIFF {a:?} {b:?}")); }
                story = s2;
            }
            match catch_unwind(AssertUnwindSafe(|| story.cont())) {
                Ok(Ok(l)) => t.push(l),
                Ok(Err(e)) => { t.push(format!("ERR {e}")); return Ok(t); }
                Err(_) => return Err("cont panicked".to_string()),
            }
        }
        let ch = story.get_current_choices();
        if ch.is_empty() { break; }
        for c in &ch { t.push(format!("* {}", c.text)); }
        if reload {
            let st = catch_unwind(AssertUnwindSafe(|| story.save_state())).map_err(|_| "save panicked".to_string())?.map_err(|e| e.to_string())?;
            let mut s2 = Story::new(json).map_err(|e| e.to_string())?;
            catch_unwind(AssertUnwindSafe(|| s2.load_state(&st))).map_err(|_| "load panicked".to_string())?.map_err(|e| e.to_string())?;
            story = s2;
        }
        let pick = r.random_range(0..ch.len());
        steps += 1;
        if steps > 300 { return Ok(t); }
        if let Err(e) = story.choose_choice_index(pick) { t.push(format!("CHOOSE ERR {e}")); return Ok(t); }
    }
    Ok(t)
}

#[test]
#[ignore]
fn explore_fuzz() {
    let mut compiled = 0;
    let mut shown = 0;
    let n: u64 = std::env::var("FUZZ_N").ok().and_then(|s| s.parse().ok()).unwrap_or(2000);
    let mut errs: HashMap<String, usize> = HashMap::new();
    for seed in 0..n {
        let ink = gen_program(seed);
        eprintln!("seed {seed}");
        let j = match compile(&ink) { Ok(j) => j, Err(e) => { *errs.entry(e.chars().take(60).collect()).or_default() += 1; continue; } };
        compiled += 1;
        let mut ps = match catch_unwind(AssertUnwindSafe(|| audit_json(&j))) { Ok(p) => p, Err(_) => vec!["audit panicked".to_string()] };
        let st0 = Story::new(&j).unwrap().save_state().unwrap();
        for ps_seed in 0..2 {
            let a = transcript(&j, &st0, ps_seed, false);
            let b = transcript(&j, &st0, ps_seed, true);
            if a != b {
                ps.push(format!("transcripts differ (seed {ps_seed}):\n   plain  {:?}\n   reload {:?}", a, b));
                break;
            }
        }
        if !ps.is_empty() && shown < 6 {
            shown += 1;
            println!("##### seed {seed}\n{ink}\n{j}");
            for p in ps.iter().take(6) { println!("  PROBLEM: {p}"); }
        } else if !ps.is_empty() {
            println!("seed {seed}: {}", ps[0].chars().take(150).collect::<String>());
        }
    }
    println!("compiled {compiled} of {n}");
    let mut ev: Vec<_> = errs.into_iter().collect();
    ev.sort_by_key(|e| std::cmp::Reverse(e.1));
    for (e, c) in ev.iter().take(10) { println!("  {c} x {e}"); }
}

#[test]
#[ignore]
fn explore_names3() {
    explore("gather first", "- first\n- second\n* a\n- third\n-> END\n");
    explore("nested gather first", "- - nested\n* a\n- third\n-> END\n");
    explore("labelled gather + plain", "- (x) first\n- second\n* a\n- (y) third\n-> END\n");
    explore("cond label", "- (x) top\n{ true:\n  * (x) inner\n    -> END\n}\n-> END\n");
    explore("cond gather", "{ true:\n  * a\n  * b\n  - (x) gathered\n  -> END\n}\n- (x) outer\n-> END\n");
    explore("knot choice + stitch", "-> k\n=== k ===\n* a\n* b\n- (s) g\n-> s\n= s\nhello\n-> END\n");
    explore("knot nested label = stitch", "-> k\n=== k ===\n* a\n  - - (s) g\n  -> s\n= s\nhello\n-> END\n");
    explore("function label", "{f()}\n-> END\n=== function f() ===\n- (f) hi\n~ return 1\n");
    explore("unicode knot", "-> café\n=== café ===\nhello\n-> END\n");
    explore("unicode label", "- (café) hello\n-> café2\n=== café2 ===\n-> END\n");
    explore("param same as stitch", "-> k(1)\n=== k(s) ===\n{s}\n-> s\n= s\nhello\n-> END\n");
}

#[test]
#[ignore]
fn explore_json() {
    let j1 = r##"{"inkVersion":21,"root":[["^hi","\n",{"->":"k"},null],"done",{"k":["^in k","\n","end",{"#n":"other"}]}],"listDefs":{}}"##;
    println!("J1: {:?}", audit_json(j1));
    let s = Story::new(j1).unwrap();
    println!("{}", s.build_string_of_hierarchy());
    let j3 = r##"{"inkVersion":21,"root":[["^hi","\n","end",null],"done",{"":["^in k","\n","end",null]}],"listDefs":{}}"##;
    println!("J3: {:?}", catch_unwind(AssertUnwindSafe(|| audit_json(j3))));
}

// ---------------------------------------------------------------------------
// FINDINGS: each test below fails on the unchanged code.
// ---------------------------------------------------------------------------

/// Either the compiler rejects the program, or every object of the compiled
/// story must be addressable by its own path.
fn assert_rejected_or_addressable(ink: &str) {
    match compile(ink) {
        Err(_) => {}
        Ok(json) => {
            let problems = audit_json(&json);
            assert!(
                problems.is_empty(),
                "compiled story is not addressable by its own paths\nink:\n{ink}\njson: {json}\n{}",
                problems.join("\n")
            );
        }
    }
}

/// F1. `- (1) ...` is valid ink: the reference parser refuses an all-digit
/// identifier, so the gather has no label and its text is "(1) First step.".
/// The Rust compiler takes anything between the parentheses as a label and
/// emits a container named "1" (also "Mr. Smith", "^", "g-0", "" ...).
/// The path "0.1.x" reported for its children parses back as index 1.
#[test]
fn f1_gather_label_is_not_validated_numeric_label_breaks_paths() {
    let ink = "- (1) First step.\n* go on\n- (2) Second step.\n-> END\n";
    let json = compile(ink).expect("valid ink");
    // behaviour: the story must get past the first choice
    let st0 = Story::new(&json).unwrap().save_state().unwrap();
    let t = transcript(&json, &st0, 0, false).unwrap();
    assert!(
        t.iter().any(|l| l.contains("Second step.")),
        "story never reaches the second gather: {t:?}\njson: {json}"
    );
    // addressing: every object resolves by its own path
    let problems = audit_json(&json);
    assert!(problems.is_empty(), "{}\njson: {json}", problems.join("\n"));
}

/// F1 variants (same root cause): dotted, parent-marker, generated-name and
/// empty labels.  The reference compiler rejects all of these.
#[test]
fn f1b_gather_label_variants() {
    assert_rejected_or_addressable("- (Mr. Smith) said hello\n-> END\n");
    assert_rejected_or_addressable("- (^) said hello\n* a\n- -> END\n");
    assert_rejected_or_addressable("- (g-0) first\n* a\n- second\n-> END\n");
}

/// F2. Knot / stitch / function names go through `parse_path_identifier`,
/// which accepts all-digit names and names containing '.'.
#[test]
fn f2_flow_header_names_accept_digits_only_and_dots() {
    assert_rejected_or_addressable("-> 1\n=== 1 ===\nhello\n-> END\n");
    assert_rejected_or_addressable("-> k.2\n=== k ===\nfoo\n-> END\n= 2\nhello\n-> END\n");
    assert_rejected_or_addressable("-> a.b\n=== a.b ===\nhello\n-> END\n");
}

/// F3 (hand-made JSON, outside the corpus/compiled quantifier).  A named-only
/// container that carries its own "#n" is registered under the key but named
/// after "#n" (the reference names it after the key), so the path the engine
/// reports for it does not resolve, and a saved position inside it is read
/// back as a position in the root container.
#[test]
fn f3_named_only_container_with_own_name_is_not_addressable() {
    let json = r##"{"inkVersion":21,"root":[["^hi","\n",{"->":"k"},null],"done",{"k":["^in k","\n","end",{"#n":"other"}]}],"listDefs":{}}"##;
    let mut story = Story::new(json).unwrap();
    story.choose_path_string("k", true, None).unwrap();
    let here = story.get_current_path().unwrap();
    // the reported path must resolve back to the same place ...
    let mut s2 = Story::new(json).unwrap();
    let r = s2.choose_path_string(&here, true, None);
    assert!(r.is_ok(), "reported path '{here}' does not resolve: {r:?}");
    assert_eq!(s2.get_current_path().as_deref(), Some(here.as_str()));
    // ... and survive a save
    let st = story.save_state().unwrap();
    let mut s3 = Story::new(json).unwrap();
    s3.load_state(&st).unwrap();
    assert_eq!(s3.get_current_path(), Some(here));
}

/// F4 (hand-made JSON, outside the corpus/compiled quantifier).  A named-only
/// container under the key "" has no valid name and is not in `content`, so
/// computing the path of anything inside it panics (object.rs, `.position(..).unwrap()`).
#[test]
fn f4_named_only_container_with_empty_key_panics_when_asked_for_paths() {
    let json = r##"{"inkVersion":21,"root":[["^hi","\n","end",null],"done",{"":["^in k","\n","end",null]}],"listDefs":{}}"##;
    let story = Story::new(json).unwrap();
    let r = catch_unwind(AssertUnwindSafe(|| story.build_string_of_hierarchy()));
    assert!(r.is_ok(), "build_string_of_hierarchy panicked while computing paths");
}
