// Property C06 hunt: each #[test] below FAILS on the unchanged code because of a genuine defect.
//
// Run all:   CARGO_TARGET_DIR=/tmp/wh-C06/target cargo test --offline -p conformance-tests --test hunt
// Run one:   ... --test hunt f1_flat_weave_of_62_choice_gather_pairs_does_not_load
#![allow(clippy::all)]

use std::panic::{AssertUnwindSafe, catch_unwind};

use bladeink::story::Story;
use bladeink_compiler::{Compiler, CompilerError};
use serde_json::Value;

// ---------------------------------------------------------------------------
// Independent, exact path resolver over the emitted JSON (no approximation).
// ---------------------------------------------------------------------------

fn child<'a>(cont: &'a Value, comp: &str) -> Option<&'a Value> {
    let arr = cont.as_array()?;
    let n = arr.len().saturating_sub(1);
    if let Ok(i) = comp.parse::<usize>() {
        return if i < n { Some(&arr[i]) } else { None };
    }
    if comp != "#f" && comp != "#n" {
        if let Some(v) = arr.last().and_then(Value::as_object).and_then(|o| o.get(comp)) {
            return Some(v);
        }
    }
    arr.iter().take(n).find(|item| {
        item.as_array()
            .and_then(|a| a.last())
            .and_then(Value::as_object)
            .and_then(|o| o.get("#n"))
            .and_then(Value::as_str)
            == Some(comp)
    })
}

fn resolve_abs<'a>(root: &'a Value, comps: &[String]) -> Result<&'a Value, String> {
    let mut cur = root;
    for (i, c) in comps.iter().enumerate() {
        if !cur.is_array() {
            return Err(format!("component {i} '{c}': parent is not a container"));
        }
        cur = child(cur, c).ok_or_else(|| format!("component {i} '{c}' not found"))?;
    }
    Ok(cur)
}

/// `at` = absolute position of the (non-container) object that holds the reference.
fn resolve_ref<'a>(root: &'a Value, at: &[String], path: &str) -> Result<&'a Value, String> {
    if path.is_empty() {
        return Err("empty path".into());
    }
    if let Some(rel) = path.strip_prefix('.') {
        let comps: Vec<&str> = rel.split('.').collect();
        if comps.first() != Some(&"^") {
            return Err("relative path does not start with ^".into());
        }
        let mut base: Vec<String> = at[..at.len() - 1].to_vec();
        let mut rest = &comps[1..];
        while let Some(&"^") = rest.first() {
            if base.pop().is_none() {
                return Err("relative path climbs above the root".into());
            }
            rest = &rest[1..];
        }
        for c in rest {
            if c.is_empty() || *c == "^" {
                return Err("empty or '^' component inside path".into());
            }
            base.push((*c).to_string());
        }
        resolve_abs(root, &base)
    } else {
        let comps: Vec<String> = path.split('.').map(str::to_string).collect();
        if comps.iter().any(|c| c.is_empty() || c == "^") {
            return Err("empty or '^' component inside path".into());
        }
        resolve_abs(root, &comps)
    }
}

fn walk(root: &Value, v: &Value, at: &mut Vec<String>, out: &mut Vec<String>) {
    match v {
        Value::Array(arr) => {
            let n = arr.len().saturating_sub(1);
            for (i, item) in arr.iter().take(n).enumerate() {
                at.push(i.to_string());
                walk(root, item, at, out);
                at.pop();
            }
            if let Some(obj) = arr.last().and_then(Value::as_object) {
                for (k, item) in obj {
                    if k != "#f" && k != "#n" {
                        at.push(k.clone());
                        walk(root, item, at, out);
                        at.pop();
                    }
                }
            }
        }
        Value::Object(map) => {
            let var_target = map.get("var").is_some();
            for field in ["->", "f()", "->t->", "*", "CNT?", "^->"] {
                if var_target && matches!(field, "->" | "f()" | "->t->") {
                    continue;
                }
                if let Some(p) = map.get(field).and_then(Value::as_str) {
                    if let Err(why) = resolve_ref(root, at, p) {
                        out.push(format!("{{\"{field}\":\"{p}\"}} at {}: {why}", at.join(".")));
                    }
                }
            }
        }
        _ => {}
    }
}

fn dangling_paths(json: &str) -> Vec<String> {
    let v: Value = serde_json::from_str(json).expect("compiler output is JSON");
    let root = &v["root"];
    let mut out = Vec::new();
    walk(root, root, &mut Vec::new(), &mut out);
    out
}

/// The property for one input: compile must not panic; if it returns a story, the story must
/// load and every path in it must resolve exactly.
fn assert_c06(src: &str) {
    let compiled = catch_unwind(AssertUnwindSafe(|| Compiler::new().compile(src)))
        .unwrap_or_else(|_| panic!("compiler panicked on {src:?}"));
    let json = match compiled {
        Err(_) => return, // a compiler error is an acceptable outcome
        Ok(json) => json,
    };
    if let Err(e) = Story::new(&json) {
        panic!("compiler accepted {src:?} but the story does not load: {e}");
    }
    let bad = dangling_paths(&json);
    assert!(
        bad.is_empty(),
        "compiler accepted {src:?} but emitted paths that resolve to nothing:\n  {}\njson: {json}",
        bad.join("\n  ")
    );
}

// ---------------------------------------------------------------------------
// F1. A perfectly valid, flat weave (choice, gather, choice, gather, ...) is emitted as one
//     container nested inside the previous gather, two JSON levels per section.  With 62
//     sections the JSON is deeper than the runtime loader accepts: Story::new fails with
//     "Story not in JSON format".  (With ~2000 sections the compiler itself dies of a stack
//     overflow, see f1b.)
// ---------------------------------------------------------------------------
#[test]
fn f1_flat_weave_of_62_choice_gather_pairs_does_not_load() {
    let src = "* a\n- b\n".repeat(62);
    let json = Compiler::new().compile(&src).expect("valid ink compiles");
    if let Err(e) = Story::new(&json) {
        panic!("valid 124-line story compiled but does not load in the runtime: {e}");
    }
}

// Child-process helper: a stack overflow aborts the process, so run the compile in a re-exec of
// this test binary and look at the exit status.
fn compile_in_child(case: &str) -> std::process::ExitStatus {
    let exe = std::env::current_exe().unwrap();
    std::process::Command::new(exe)
        .args(["--exact", "child_compile", "--ignored", "--test-threads=1"])
        .env("HUNT_CHILD_CASE", case)
        // give the child the same stack a normal main thread has (8 MiB)
        .env("RUST_MIN_STACK", (8 * 1024 * 1024).to_string())
        .stdout(std::process::Stdio::null())
        .stderr(std::process::Stdio::null())
        .status()
        .unwrap()
}

#[test]
#[ignore]
fn child_compile() {
    let src = match std::env::var("HUNT_CHILD_CASE").as_deref() {
        Ok("parens") => format!("~ temp x = {}1{}\n", "(".repeat(5000), ")".repeat(5000)),
        Ok("weave") => "* a\n- b\n".repeat(3000),
        _ => return,
    };
    // Ok or Err are both fine; only "does not return" is the defect.
    let _ = Compiler::new().compile(&src);
}

#[test]
fn f1b_flat_weave_of_3000_pairs_aborts_the_compiler() {
    let status = compile_in_child("weave");
    assert!(
        status.success(),
        "compiling 3000 x \"* a / - b\" (flat, valid ink, 24 KB) did not terminate normally: {status:?} (stack overflow in the emitter)"
    );
}

// ---------------------------------------------------------------------------
// F2. The expression parser recurses without bound: one 10 KB line aborts the process
//     (SIGABRT "thread has overflowed its stack") even on an 8 MiB stack.
// ---------------------------------------------------------------------------
#[test]
fn f2_deeply_parenthesised_expression_aborts_the_compiler() {
    let status = compile_in_child("parens");
    assert!(
        status.success(),
        "compiling `~ temp x = (((...5000...1...)))` did not terminate normally: {status:?} (stack overflow in ExpressionParser)"
    );
}

// ---------------------------------------------------------------------------
// F3. VAR initialisers are not restricted to constants: the compiler returns a story whose
//     `global decl` raises a runtime error, so Story::new refuses it.
// ---------------------------------------------------------------------------
#[test]
fn f3_var_initialiser_that_fails_at_load_time_is_accepted() {
    assert_c06("VAR x = 1 / 0\n");
}

#[test]
fn f3b_var_initialiser_negated_string_is_accepted() {
    assert_c06("VAR x = -\"a\"\n");
}

// ---------------------------------------------------------------------------
// F4. Divert-target *values* (`-> name` used as an expression) are never validated.
// ---------------------------------------------------------------------------
#[test]
fn f4_divert_target_value_to_unknown_name_is_accepted() {
    assert_c06("VAR x = -> nowhere\n");
}

#[test]
fn f4b_divert_target_argument_to_unknown_name_is_accepted() {
    assert_c06("-> k(-> nowhere)\n== k(-> x)\n-> x\n");
}

// ---------------------------------------------------------------------------
// F5. Knot / stitch / label names are not checked to be identifiers (digits-only and dotted
//     names pass `parse_path_identifier`; a gather label is whatever stands between the
//     parentheses).  The paths the compiler itself generates for such content do not resolve.
// ---------------------------------------------------------------------------
#[test]
fn f5_numeric_knot_name_breaks_generated_paths() {
    assert_c06("-> 5\n== 5 ==\n* a\n- b\n-> END\n");
}

#[test]
fn f5b_dotted_knot_name_breaks_generated_paths() {
    assert_c06("== a.b ==\n* x\n- y\n-> END\n");
}

#[test]
fn f5c_dotted_gather_label_breaks_generated_paths() {
    assert_c06("* a\n- (2.5) b\n");
}

// ---------------------------------------------------------------------------
// F6. The divert validator only walks `Choice.body`; the text of a choice line (kept as a
//     string and re-tokenised by the emitter) and tags are never looked at, so threads and
//     diverts written there are emitted unchecked.
// ---------------------------------------------------------------------------
#[test]
fn f6_thread_in_choice_text_to_unknown_target_is_accepted() {
    assert_c06("* a <- nowhere\n");
}

#[test]
fn f6b_divert_inside_tag_sequence_to_unknown_target_is_accepted() {
    assert_c06("# {a|-> nowhere}\n");
}

// ---------------------------------------------------------------------------
// Further, smaller ones (distinct causes).
// ---------------------------------------------------------------------------

// `END`/`DONE` are unconditionally "valid targets" for the validator, but only plain diverts
// special-case them in the emitter: a tunnel onto END becomes {"->t->":"END"}, a path to nothing.
#[test]
fn x1_tunnel_onto_end_is_accepted() {
    assert_c06("-> END ->\n");
}

// A thread arrow with nothing after it yields {"->":""}.
#[test]
fn x2_thread_with_empty_target_is_accepted() {
    assert_c06("x <-\n");
}

// check_target() waves through every target starting with '$'.
#[test]
fn x3_dollar_target_is_accepted() {
    assert_c06("-> $x\n");
}

// Error line numbers: nested parsers run on a synthetic sub-slice of the lines and stamp the
// error with the index inside that slice.
fn err_line(e: &CompilerError) -> Option<usize> {
    match e {
        CompilerError::InvalidSource { line, .. } | CompilerError::UnsupportedFeature { line, .. } => *line,
    }
}

#[test]
fn x4_error_under_gather_choice_names_the_wrong_line() {
    // the broken statement is on line 5
    let src = "line1\nline2\nline3\n- * a\n  ~ x = (\n";
    let e = Compiler::new().compile(src).unwrap_err();
    assert_eq!(err_line(&e), Some(5), "reported: {e}");
}

#[test]
fn x5_error_after_include_names_the_wrong_line() {
    // the broken statement is on line 4 of the main file
    let src = "INCLUDE a.ink\nline2\nline3\n~ x = (\n";
    let e = Compiler::new()
        .compile_with_file_handler(src, |_| Ok("included\n".to_string()))
        .unwrap_err();
    assert_eq!(err_line(&e), Some(4), "reported: {e}");
}
