// Replay of a defect of the unchanged tree (found in passing by the sub-agent that wrote seed C11-5, batch 13):
// a continue that ends in Err because no error handler is installed returned between
// complete_variable_observation() and the notification loop - the variables it committed were never reported.
// Fails before the "fix:" commit recorded in known_findings.txt, passes after it.  Documentation, not a check.
use std::{cell::RefCell, rc::Rc};

use bladeink::{story::Story, story::variable_observer::VariableObserver, value_type::ValueType};
use bladeink_compiler::Compiler;

#[derive(Default)]
struct Recorder {
    seen: Vec<(String, i32)>,
}

impl VariableObserver for Recorder {
    fn changed(&mut self, variable_name: &str, value: &ValueType) {
        self.seen
            .push((variable_name.to_string(), value.get::<i32>().unwrap()));
    }
}

#[test]
fn a_continue_that_fails_still_reports_what_it_committed() {
    let ink = "VAR x = 0\nVAR z = 0\n~ x = 5\nValue {1 / z}.\nNext.\n-> END\n";
    let json = Compiler::new().compile(ink).unwrap();
    let mut story = Story::new(&json).unwrap();
    let recorder = Rc::new(RefCell::new(Recorder::default()));
    story.observe_variable("x", recorder.clone()).unwrap();

    assert!(story.cont().is_err(), "division by zero without a handler");
    assert_eq!(story.get_variable("x").unwrap().get::<i32>().unwrap(), 5);
    assert_eq!(recorder.borrow().seen, vec![("x".to_string(), 5)]);
}
